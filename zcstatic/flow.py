"""E3 -- value origins across resolved calls (flow-insensitive inside a
function, call-site sensitive across functions up to a depth bound).

origins(fi, expr) follows plain bindings backwards:
  Name       -> every assignment to it in the function; parameter -> the
                argument expression at every resolved call site (and the
                default value)
  self.f     -> every `self.f = ...` in the class hierarchy
  call       -> the return expressions of the resolved repository callees
  tuple unpacking / subscripts with constant index -> the matching element
Leaves: displays, constants, external calls, parameters of functions without
callers (entry points), unknown attributes.

copying(expr) tells whether an expression creates a new container
(display, dict()/list()/copy()/slice/sorted/comprehension).
"""
import ast

from .model import dotted, src, walk_shallow


class Origin:
    __slots__ = ("fi", "node", "kind", "path")

    def __init__(self, fi, node, kind, path):
        self.fi = fi
        self.node = node
        self.kind = kind     # 'display' 'const' 'call' 'param' 'attr' 'other'
        self.path = path     # list of hops (strings)

    def text(self):
        return src(self.node) if self.node is not None else "<none>"

    def __repr__(self):
        return "<origin %s %s in %s>" % (self.kind, self.text()[:40],
                                         self.fi.qualname if self.fi else "?")


class Flow:
    def __init__(self, program):
        self.P = program
        self.m = program.model
        self._callers = None

    # --------------------------------------------------------------- callers
    def callers(self, fi):
        """[(caller fi, call node, callee)] for every resolved call to fi."""
        if self._callers is None:
            idx = {}
            for f in self.m.functions.values():
                for call, callees in self.P.calls_in(f):
                    for c in callees:
                        if c.kind == "repo":
                            idx.setdefault(c.fn.qualname, []).append(
                                (f, call, c))
            self._callers = idx
        out = list(self._callers.get(fi.qualname, []))
        # a method is also reached through calls resolved to an overridden
        # base method by class-hierarchy analysis
        return out

    def arg_for_param(self, call, callee, param_index, param_name):
        """Expression bound to the callee's parameter at this call site."""
        fi = callee.fn
        offset = 0
        if fi.cls is not None and callee.how in ("cha", "method", "bound",
                                                 "byname", "field", "ctor", "super"):
            offset = 1
        i = param_index - offset
        if i < 0:
            return None
        for kw in call.keywords:
            if kw.arg == param_name:
                return kw.value
        if i < len(call.args) and not any(isinstance(a, ast.Starred)
                                          for a in call.args[:i + 1]):
            return call.args[i]
        return None

    # --------------------------------------------------------------- origins
    def origins(self, fi, expr, depth=6, _seen=None, _path=None):
        _seen = _seen if _seen is not None else set()
        _path = _path or []
        key = (fi.qualname, id(expr))
        if key in _seen or depth < 0:
            return []
        _seen.add(key)
        m = self.m
        here = _path + ["%s: %s" % (fi.qualname.split(".")[-1],
                                    src(expr)[:50])]
        if isinstance(expr, ast.Constant):
            return [Origin(fi, expr, "const", here)]
        if isinstance(expr, (ast.Tuple, ast.List, ast.Dict, ast.Set,
                             ast.ListComp, ast.DictComp, ast.SetComp,
                             ast.JoinedStr)):
            return [Origin(fi, expr, "display", here)]
        if isinstance(expr, ast.IfExp):
            return (self.origins(fi, expr.body, depth, _seen, here)
                    + self.origins(fi, expr.orelse, depth, _seen, here))
        if isinstance(expr, ast.BoolOp):
            out = []
            for v in expr.values:
                out += self.origins(fi, v, depth, _seen, here)
            return out
        if isinstance(expr, ast.Name):
            out = []
            # local assignments
            f = fi
            found_scope = None
            while f is not None:
                if expr.id in f.params or self._assigned(f, expr.id):
                    found_scope = f
                    break
                f = f.outer
            if found_scope is None:
                # module-level name
                vals = fi.module.assigns.get(expr.id)
                if vals:
                    for v in vals:
                        out += self.origins(fi, v, depth - 1, _seen, here)
                    return out
                return [Origin(fi, expr, "other", here)]
            f = found_scope
            for val, how in self._assignments(f, expr.id):
                if how == "plain":
                    out += self.origins(f, val, depth, _seen, here)
                elif how[0] == "elem":
                    for o in self.origins(f, val, depth, _seen, here):
                        if o.kind == "display" and isinstance(
                                o.node, (ast.Tuple, ast.List)) \
                                and how[1] < len(o.node.elts):
                            out += self.origins(o.fi, o.node.elts[how[1]],
                                                depth, _seen, o.path)
                        else:
                            out.append(Origin(o.fi, o.node, "elem%d-of-%s"
                                              % (how[1], o.kind), o.path))
                elif how == "loop" or (isinstance(how, tuple)
                                       and how[0] == "loop-elem"):
                    if isinstance(how, tuple) and isinstance(val, ast.Call) \
                            and isinstance(val.func, ast.Attribute) \
                            and val.func.attr == "items":
                        if how[1] != 1:
                            out.append(Origin(f, val, "dict-key", here))
                            continue
                        how = "loop"    # the values of the mapping
                    for ef_, en in self.elements(f, val, depth - 1, set()):
                        if how == "loop":
                            out += self.origins(ef_, en, depth - 1, _seen,
                                                here + ["element of "
                                                        + src(val)[:30]])
                        else:
                            for o in self.origins(ef_, en, depth - 1, _seen,
                                                  here):
                                if o.kind == "display" and isinstance(
                                        o.node, (ast.Tuple, ast.List)) \
                                        and how[1] < len(o.node.elts):
                                    out += self.origins(
                                        o.fi, o.node.elts[how[1]], depth - 1,
                                        _seen, o.path + ["[%d]" % how[1]])
                                else:
                                    out.append(Origin(
                                        o.fi, o.node, "elem%d-of-%s"
                                        % (how[1], o.kind), o.path))
                else:
                    out.append(Origin(f, val, "other", here))
            if expr.id in f.params:
                pi = f.params.index(expr.id)
                cs = self.callers(f)
                a = f.node.args
                pos = a.posonlyargs + a.args
                nd = len(a.defaults)
                if pi >= len(pos) - nd:
                    d = a.defaults[pi - (len(pos) - nd)]
                    out += self.origins(f, d, depth, _seen,
                                        here + ["default"])
                if not cs:
                    out.append(Origin(f, expr, "param", here))
                for caller, call, callee in cs:
                    arg = self.arg_for_param(call, callee, pi, expr.id)
                    if arg is None:
                        continue
                    out += self.origins(caller, arg, depth - 1, _seen, here)
            return out
        if isinstance(expr, ast.Attribute):
            owner = []
            if isinstance(expr.value, ast.Name) and fi.cls is not None \
                    and fi.params and expr.value.id == fi.params[0]:
                owner = [fi.cls.qualname]
            else:
                owner = [t[2:] for t in self.P.type_of(fi, fi.module,
                                                       expr.value)
                         if t.startswith("C:")]
            if owner:
                out = []
                ks = []
                for oq in owner:
                    for k in m.mro(oq) + m.subclasses(oq):
                        if k not in ks:
                            ks.append(k)
                for k in ks:
                    c = m.classes.get(k)
                    if c is None:
                        continue
                    for st, meth in c.fields.get(expr.attr, []):
                        if isinstance(st, ast.Assign):
                            out += self.origins(meth, st.value, depth - 1,
                                                _seen, here)
                        else:
                            out.append(Origin(meth, st, "other", here))
                    if expr.attr in c.attrs:
                        for v in c.attrs[expr.attr]:
                            out.append(Origin(None, v, "class-attr", here))
                if out:
                    return out
            return [Origin(fi, expr, "attr", here)]
        if isinstance(expr, ast.Call):
            cs = self.P.resolve_call(fi, expr)
            out = []
            for c in cs:
                if c.kind == "repo" and c.how != "ctor":
                    for n in walk_shallow(c.fn.node):
                        if isinstance(n, ast.Return) and n.value is not None:
                            out += self.origins(c.fn, n.value, depth - 1,
                                                _seen, here)
                else:
                    out.append(Origin(fi, expr, "call", here))
            return out or [Origin(fi, expr, "call", here)]
        if isinstance(expr, ast.Subscript):
            return [Origin(fi, expr, "subscript", here)]
        return [Origin(fi, expr, "other", here)]

    # -------------------------------------------------------------- elements
    def elements(self, fi, expr, depth, _seen):
        """Expressions whose values may be elements of the container `expr`
        evaluates to (field-insensitive: a value stored into a list/dict field
        is an element of every read of that field)."""
        key = (fi.qualname, id(expr))
        if depth < 0 or key in _seen:
            return []
        _seen.add(key)
        m = self.m
        out = []
        if isinstance(expr, (ast.List, ast.Tuple, ast.Set)):
            return [(fi, e) for e in expr.elts]
        if isinstance(expr, ast.Call):
            f = expr.func
            if isinstance(f, ast.Name) and f.id in ("list", "tuple", "sorted",
                                                    "reversed", "iter") \
                    and expr.args:
                return self.elements(fi, expr.args[0], depth, _seen)
            if isinstance(f, ast.Attribute) and f.attr in (
                    "items", "keys", "values", "copy"):
                return self.elements(fi, f.value, depth, _seen)
            if isinstance(f, ast.Attribute) and f.attr in (
                    "get", "pop", "setdefault"):
                # yields one element of the container, itself a container
                for ef_, en in self.elements(fi, f.value, depth, _seen):
                    out += self.elements(ef_, en, depth - 1, _seen)
                return out
            for c in self.P.resolve_call(fi, expr):
                if c.kind == "repo" and c.how != "ctor":
                    for n in walk_shallow(c.fn.node):
                        if isinstance(n, ast.Return) and n.value is not None:
                            # the returned container's elements
                            out += self.elements(c.fn, n.value, depth - 1,
                                                 _seen)
            return out
        if isinstance(expr, ast.Subscript):
            if isinstance(expr.slice, ast.Slice):
                return self.elements(fi, expr.value, depth, _seen)
            # element of a container of containers
            for ef_, en in self.elements(fi, expr.value, depth, _seen):
                out += self.elements(ef_, en, depth - 1, _seen)
            return out
        if isinstance(expr, ast.Name):
            f = fi
            while f is not None and not (expr.id in f.params
                                         or self._assigned(f, expr.id)):
                f = f.outer
            if f is None:
                return []
            for val, how in self._assignments(f, expr.id):
                if how == "plain":
                    out += self.elements(f, val, depth, _seen)
                elif isinstance(how, tuple) and how[0] == "elem":
                    for o in self.origins(f, val, depth, set()):
                        if o.kind == "display" and isinstance(
                                o.node, (ast.Tuple, ast.List)) \
                                and how[1] < len(o.node.elts):
                            out += self.elements(o.fi, o.node.elts[how[1]],
                                                 depth - 1, _seen)
                elif how == "loop":
                    for ef_, en in self.elements(f, val, depth - 1, _seen):
                        out += self.elements(ef_, en, depth - 1, _seen)
                elif isinstance(how, tuple) and how[0] == "loop-elem":
                    for ef_, en in self.elements(f, val, depth - 1, _seen):
                        if isinstance(en, (ast.Tuple, ast.List)) \
                                and how[1] < len(en.elts):
                            out += self.elements(ef_, en.elts[how[1]],
                                                 depth - 1, _seen)
            # stores into the local container
            out += self._stores_into(f, lambda e: isinstance(e, ast.Name)
                                     and e.id == expr.id)
            if expr.id in f.params:
                pi = f.params.index(expr.id)
                for caller, call, callee in self.callers(f):
                    arg = self.arg_for_param(call, callee, pi, expr.id)
                    if arg is not None:
                        out += self.elements(caller, arg, depth - 1, _seen)
            return out
        if isinstance(expr, ast.Attribute) and isinstance(expr.value,
                                                          ast.Name):
            # field of self (or of any object): every store into a field of
            # that name in the class hierarchy
            classes = []
            for tag in self.P.type_of(fi, fi.module, expr.value):
                if tag.startswith("C:"):
                    classes.append(tag[2:])
            if not classes:
                classes = [c for c in m.classes
                           if expr.attr in m.classes[c].fields]
            seen_c = set()
            for cq in classes:
                for k in m.mro(cq) + m.subclasses(cq):
                    if k in seen_c or k not in m.classes:
                        continue
                    seen_c.add(k)
                    c = m.classes[k]
                    for st, meth in c.fields.get(expr.attr, []):
                        if isinstance(st, ast.Assign):
                            out += self.elements(meth, st.value, depth - 1,
                                                 _seen)
                    for meth in c.methods.values():
                        out += self._stores_into(
                            meth, lambda e, a=expr.attr, mm=meth: isinstance(
                                e, ast.Attribute) and e.attr == a
                            and isinstance(e.value, ast.Name)
                            and mm.params and e.value.id == mm.params[0])
            return out
        return out

    def _stores_into(self, f, is_container):
        """(fi, value expr) for X.append(v) / X[k] = v / X.extend(R) /
        X[:] = R / X.insert(i, v) / X.setdefault(k, v) where X satisfies
        is_container."""
        out = []
        for n in walk_shallow(f.node):
            if isinstance(n, ast.Call) and isinstance(n.func, ast.Attribute) \
                    and is_container(n.func.value) and n.args:
                if n.func.attr in ("append", "add", "insert", "setdefault"):
                    out.append((f, n.args[-1]))
                elif n.func.attr in ("extend", "update"):
                    out += self.elements(f, n.args[0], 4, set())
            elif isinstance(n, ast.Assign):
                for t in n.targets:
                    if isinstance(t, ast.Subscript) and is_container(t.value):
                        if isinstance(t.slice, ast.Slice):
                            out += self.elements(f, n.value, 4, set())
                        else:
                            out.append((f, n.value))
        return out

    def _assigned(self, f, name):
        from .calls import _assigned_in
        return _assigned_in(f.node, name)

    def _assignments(self, f, name):
        """(value expr, how) for every binding of `name` in f:
        how = 'plain' | ('elem', i) | 'loop' | 'with' | 'other'."""
        out = []
        for n in walk_shallow(f.node):
            if isinstance(n, ast.Assign):
                for t in n.targets:
                    if isinstance(t, ast.Name) and t.id == name:
                        out.append((n.value, "plain"))
                    elif isinstance(t, (ast.Tuple, ast.List)):
                        for i, e in enumerate(t.elts):
                            if isinstance(e, ast.Name) and e.id == name:
                                out.append((n.value, ("elem", i)))
            elif isinstance(n, ast.AnnAssign) and n.value is not None \
                    and isinstance(n.target, ast.Name) \
                    and n.target.id == name:
                out.append((n.value, "plain"))
            elif isinstance(n, ast.AugAssign) and isinstance(
                    n.target, ast.Name) and n.target.id == name:
                out.append((n, "other"))
            elif isinstance(n, (ast.For, ast.AsyncFor)):
                if isinstance(n.target, ast.Name) and n.target.id == name:
                    out.append((n.iter, "loop"))
                elif isinstance(n.target, (ast.Tuple, ast.List)):
                    for i, e in enumerate(n.target.elts):
                        if isinstance(e, ast.Name) and e.id == name:
                            out.append((n.iter, ("loop-elem", i)))
            elif isinstance(n, (ast.With, ast.AsyncWith)):
                for it in n.items:
                    if it.optional_vars is not None:
                        for e in ast.walk(it.optional_vars):
                            if isinstance(e, ast.Name) and e.id == name:
                                out.append((it.context_expr, "plain"))
            elif isinstance(n, ast.ExceptHandler) and n.name == name:
                out.append((n, "other"))
        return out


COPY_FUNCS = {"dict", "list", "tuple", "set", "sorted", "frozenset",
              "OrderedDict"}


def is_copying(program, fi, expr):
    """The expression evaluates to a container object created here."""
    if isinstance(expr, (ast.Dict, ast.List, ast.Tuple, ast.Set, ast.ListComp,
                         ast.DictComp, ast.SetComp)):
        return True
    if isinstance(expr, ast.Subscript) and isinstance(expr.slice, ast.Slice):
        return True
    if isinstance(expr, ast.Call):
        d = dotted(expr.func)
        if d:
            last = d.split(".")[-1]
            if last in COPY_FUNCS:
                return True
            if d in ("copy.copy", "copy.deepcopy"):
                return True
            if last == "copy" and isinstance(expr.func, ast.Attribute):
                return True
    return False
