"""E4 -- string-language engine.

Regular expressions are parsed with the same `re._parser` CPython uses, turned
into a prioritised Thompson NFA (ordered epsilon edges encode alternation order
and greedy/lazy preference; group boundaries are tag edges; ^ and $ are
assertion edges) and determinised under one of three semantics:

  full      ordinary language of `fullmatch`
  first     { s : m = p.match(s) and m.group() == s }   (Pike thread list with
            the rule "an accepting thread cuts every lower-priority thread")
  tagged    for patterns whose every match must end at the end of the input:
            the word of the highest-priority accepting path, interleaved with
            group open/close tags -- the function  input -> capture spans

Input domain: strings without '\n' (`$` then means end of input, `.` means any
character).  Every use in the repository feeds these patterns with stripped
single lines or schema/command-line tokens; the evidence states the
restriction.

All automata are complete DFAs over a shared symbolic alphabet (a partition of
U+0000..U+10FFFF minus '\n' refined by every character class involved), so
product, complement, equivalence and shortest-witness search are exact.
"""
import re
import sys
from collections import deque

try:
    import re._parser as sre_parse
    import re._constants as sre_c
except ImportError:  # pragma: no cover
    import sre_parse
    import sre_constants as sre_c

from .report import AnalysisError

MAXCP = sys.maxunicode
NL = 10

# ---------------------------------------------------------------- charsets


def cs_norm(iv):
    iv = sorted(iv)
    out = []
    for lo, hi in iv:
        if lo > hi:
            continue
        if out and lo <= out[-1][1] + 1:
            if hi > out[-1][1]:
                out[-1] = (out[-1][0], hi)
        else:
            out.append((lo, hi))
    return tuple(out)


def cs_neg(cs):
    out, prev = [], 0
    for lo, hi in cs:
        if lo > prev:
            out.append((prev, lo - 1))
        prev = hi + 1
    if prev <= MAXCP:
        out.append((prev, MAXCP))
    return tuple(out)


def cs_union(a, b):
    return cs_norm(list(a) + list(b))


def cs_inter(a, b):
    return cs_neg(cs_union(cs_neg(a), cs_neg(b)))


def cs_of(chars):
    return cs_norm([(ord(c), ord(c)) for c in chars])


def cs_contains(cs, cp):
    for lo, hi in cs:
        if lo <= cp <= hi:
            return True
    return False


_CAT_CACHE = {}


_ASCII_CATS = {
    "space": ((9, 13), (32, 32)),
    "digit": ((48, 57),),
    "word": ((48, 57), (65, 90), (95, 95), (97, 122)),
}
# re.ASCII is a whole-pattern flag (scoped (?a:...) is refused): set while
# one pattern is being translated
_ASCII = [False]


def category(name):
    """Exact CPython code-point sets for \\s \\d \\w (str patterns; the
    ASCII-only sets of Modules/_sre under re.ASCII)."""
    if _ASCII[0]:
        return _ASCII_CATS[name]
    if name not in _CAT_CACHE:
        pred = {"space": str.isspace, "digit": str.isdecimal,
                "word": lambda c: c.isalnum() or c == "_"}[name]
        iv, start = [], None
        for cp in range(MAXCP + 1):
            if pred(chr(cp)):
                if start is None:
                    start = cp
            elif start is not None:
                iv.append((start, cp - 1))
                start = None
        if start is not None:
            iv.append((start, MAXCP))
        _CAT_CACHE[name] = tuple(iv)
    return _CAT_CACHE[name]


NO_NL = cs_neg(((NL, NL),))
ALL = ((0, MAXCP),)


class Alphabet:
    """Partition of the code points (minus '\\n') into atoms such that every
    given charset is a union of atoms."""

    def __init__(self, charsets, exclude_nl=True):
        sets = [cs for cs in {tuple(c) for c in charsets}]
        bounds = {0, MAXCP + 1}
        for cs in sets:
            for lo, hi in cs:
                bounds.add(lo)
                bounds.add(hi + 1)
        if exclude_nl:
            bounds.add(NL)
            bounds.add(NL + 1)
        bl = sorted(bounds)
        sig_to_atom = {}
        self.atoms = []      # list of interval tuples
        for lo, nxt in zip(bl, bl[1:]):
            hi = nxt - 1
            if exclude_nl and lo == NL:
                continue
            sig = tuple(cs_contains(cs, lo) for cs in sets)
            if sig not in sig_to_atom:
                sig_to_atom[sig] = len(self.atoms)
                self.atoms.append([])
            self.atoms[sig_to_atom[sig]].append((lo, hi))
        self.atoms = [tuple(a) for a in self.atoms]
        self.n = len(self.atoms)
        self._cache = {}
        self.reps = [self._rep(a) for a in self.atoms]

    @staticmethod
    def _rep(atom):
        # prefer a printable ASCII representative
        best = None
        for lo, hi in atom:
            for cp in range(lo, min(hi, lo + 300) + 1):
                ch = chr(cp)
                if 33 <= cp < 127:
                    if ch.isalnum():
                        return ch
                    if best is None or not (33 <= ord(best) < 127):
                        best = ch
                elif best is None:
                    best = ch
        return best

    def atoms_of(self, cs):
        cs = tuple(cs)
        if cs not in self._cache:
            out = []
            for i, a in enumerate(self.atoms):
                inter = cs_inter(cs, a)
                if inter == a:
                    out.append(i)
                elif inter:
                    # the alphabet does not refine this character set: a
                    # language built over it would be wrong
                    raise AnalysisError(
                        "alphabet does not refine character set %r" % (cs,))
            self._cache[cs] = frozenset(out)
        return self._cache[cs]

    def atom_of_char(self, ch):
        cp = ord(ch)
        for i, a in enumerate(self.atoms):
            if cs_contains(a, cp):
                return i
        raise AnalysisError("character %r outside the alphabet" % ch)

    def word(self, atom_ids):
        return "".join(self.reps[i] for i in atom_ids)


# --------------------------------------------------------------------- NFA

class NFA:
    def __init__(self):
        self.eps = []    # state -> ordered [(target, label)]
        self.chr = []    # state -> (charset, target) or None
        self.accept = None
        self.start = None
        self.groups = {}  # group index -> name

    def new(self):
        self.eps.append([])
        self.chr.append(None)
        return len(self.eps) - 1


def parse(pattern, flags=0):
    try:
        return sre_parse.parse(pattern, flags)
    except re.error as e:
        raise AnalysisError("regex does not parse: %r: %s" % (pattern, e))


def _sub_ic(av, ic):
    """Case-insensitivity inside a group with scoped flags (?i:...) /
    (?-i:...); any other scoped flag is outside the vocabulary."""
    add, rem = av[1], av[2]
    if (add | rem) & ~re.IGNORECASE:
        raise AnalysisError("inline regex flags other than 'i' unsupported")
    if add & re.IGNORECASE:
        return True
    if rem & re.IGNORECASE:
        return False
    return ic


def charsets_of_pattern(pattern):
    out = []

    def visit(sub, ic):
        for op, av in sub:
            if op in (sre_c.LITERAL, sre_c.NOT_LITERAL, sre_c.IN, sre_c.ANY):
                out.append(_item_charset(op, av, ic))
            elif op == sre_c.BRANCH:
                for alt in av[1]:
                    visit(alt, ic)
            elif op == sre_c.SUBPATTERN:
                visit(av[3], _sub_ic(av, ic))
            elif op in (sre_c.MAX_REPEAT, sre_c.MIN_REPEAT):
                visit(av[2], ic)
            elif op == sre_c.AT:
                pass
            else:
                raise AnalysisError("regex construct %s outside the analysable "
                                    "vocabulary" % op)
    p = parse(pattern)
    if p.state.flags & (re.MULTILINE | re.DOTALL | re.VERBOSE):
        raise AnalysisError("regex flags not supported: %r" % pattern)
    _ASCII[0] = bool(p.state.flags & re.ASCII)
    try:
        visit(p, bool(p.state.flags & re.IGNORECASE))
    finally:
        _ASCII[0] = False
    return out


_TOLOWER = None


def cs_ignorecase(cs):
    """The characters a (positive) set matches under re.IGNORECASE for str
    patterns, as CPython's compiler and matcher define it: the set is closed
    to T = {tolower(x)} + the extra cases of re._casefix for x in the set, and
    a subject character ch matches iff tolower(ch) is in T (tolower is the
    simple one-to-one lower-case mapping).  Tables only; no pattern is run."""
    global _TOLOWER
    import _sre
    if _ASCII[0]:
        # re.ASCII: only the ASCII letters are cased (ascii_tolower)
        def low_(c):
            return c + 32 if 65 <= c <= 90 else c
        T = {low_(x) for lo, hi in cs
             for x in (range(lo, hi + 1) if hi < 128 else
                       list(range(lo, min(hi, 127) + 1)))}
        out = set()
        for lo, hi in cs:
            if hi >= 128:
                out.add((max(lo, 128), hi))
        for c in range(128):
            if low_(c) in T:
                out.add((c, c))
        return cs_norm(sorted(out))
    try:
        from re._casefix import _EXTRA_CASES as extra
    except ImportError:   # pragma: no cover
        from sre_compile import _ignorecase_fixes as extra
    if _TOLOWER is None:
        low = _sre.unicode_tolower
        _TOLOWER = [low(c) for c in range(0x110000)]
    T = set()
    for lo, hi in cs:
        for x in range(lo, hi + 1):
            l = _TOLOWER[x]
            T.add(l)
            T.update(extra.get(l, ()))
    out = []
    start = None
    for c in range(0x110000):
        if _TOLOWER[c] in T:
            if start is None:
                start = c
        elif start is not None:
            out.append((start, c - 1))
            start = None
    if start is not None:
        out.append((start, 0x10FFFF))
    return tuple(out)


def _item_charset(op, av, ic=False):
    if ic:
        # decide the positive set, close it under case, then negate
        if op == sre_c.LITERAL:
            return cs_ignorecase(((av, av),))
        if op == sre_c.NOT_LITERAL:
            return cs_neg(cs_ignorecase(((av, av),)))
        if op == sre_c.ANY:
            return NO_NL
        if op == sre_c.IN:
            neg = any(iop == sre_c.NEGATE for iop, _ in av)
            pos = _item_charset(op, [x for x in av
                                     if x[0] != sre_c.NEGATE])
            pos = cs_ignorecase(pos)
            return cs_neg(pos) if neg else pos
    if op == sre_c.LITERAL:
        return ((av, av),)
    if op == sre_c.NOT_LITERAL:
        return cs_neg(((av, av),))
    if op == sre_c.ANY:
        return NO_NL
    if op == sre_c.IN:
        neg = False
        cs = ()
        for iop, iav in av:
            if iop == sre_c.NEGATE:
                neg = True
            elif iop == sre_c.LITERAL:
                cs = cs_union(cs, ((iav, iav),))
            elif iop == sre_c.RANGE:
                cs = cs_union(cs, ((iav[0], iav[1]),))
            elif iop == sre_c.CATEGORY:
                nm = str(iav)
                table = {"CATEGORY_DIGIT": ("digit", False),
                         "CATEGORY_NOT_DIGIT": ("digit", True),
                         "CATEGORY_SPACE": ("space", False),
                         "CATEGORY_NOT_SPACE": ("space", True),
                         "CATEGORY_WORD": ("word", False),
                         "CATEGORY_NOT_WORD": ("word", True)}
                key = nm.split(".")[-1]
                if key not in table:
                    raise AnalysisError("regex category %s unsupported" % nm)
                cat, n = table[key]
                c = category(cat)
                cs = cs_union(cs, cs_neg(c) if n else c)
            else:
                raise AnalysisError("regex class item %s unsupported" % iop)
        return cs_neg(cs) if neg else cs
    raise AnalysisError("not a character item: %s" % op)


def build_nfa(pattern):
    p = parse(pattern)
    nfa = NFA()
    names = {v: k for k, v in p.state.groupdict.items()}
    nfa.groups = names

    def nullable(sub):
        for op, av in sub:
            if op in (sre_c.LITERAL, sre_c.NOT_LITERAL, sre_c.IN, sre_c.ANY):
                return False
            if op == sre_c.BRANCH:
                if not any(nullable(a) for a in av[1]):
                    return False
            elif op == sre_c.SUBPATTERN:
                if not nullable(av[3]):
                    return False
            elif op in (sre_c.MAX_REPEAT, sre_c.MIN_REPEAT):
                if av[0] > 0 and not nullable(av[2]):
                    return False
        return True

    def seq(sub, s, ic=False):
        for op, av in sub:
            s = item(op, av, s, ic)
        return s

    def item(op, av, s, ic=False):
        if op in (sre_c.LITERAL, sre_c.NOT_LITERAL, sre_c.IN, sre_c.ANY):
            t = nfa.new()
            nfa.chr[s] = (_item_charset(op, av, ic), t)
            return t
        if op == sre_c.BRANCH:
            end = nfa.new()
            for alt in av[1]:
                a = nfa.new()
                nfa.eps[s].append((a, None))
                e = seq(alt, a, ic)
                nfa.eps[e].append((end, None))
            return end
        if op == sre_c.SUBPATTERN:
            group = av[0]
            ic = _sub_ic(av, ic)
            if group is None:
                return seq(av[3], s, ic)
            nm = names.get(group, group)
            a = nfa.new()
            nfa.eps[s].append((a, ("open", nm)))
            e = seq(av[3], a, ic)
            t = nfa.new()
            nfa.eps[e].append((t, ("close", nm)))
            return t
        if op in (sre_c.MAX_REPEAT, sre_c.MIN_REPEAT):
            lo, hi, body = av
            greedy = op == sre_c.MAX_REPEAT
            for _ in range(lo):
                a = nfa.new()
                nfa.eps[s].append((a, None))
                s = seq(body, a, ic)
            if hi == sre_c.MAXREPEAT:
                if nullable(body):
                    raise AnalysisError("unbounded repeat of a nullable body "
                                        "is outside the analysable vocabulary")
                loop = nfa.new()
                nfa.eps[s].append((loop, None))
                b = nfa.new()
                out = nfa.new()
                if greedy:
                    nfa.eps[loop] += [(b, None), (out, None)]
                else:
                    nfa.eps[loop] += [(out, None), (b, None)]
                e = seq(body, b, ic)
                nfa.eps[e].append((loop, None))
                return out
            out = nfa.new()
            for _ in range(hi - lo):
                b = nfa.new()
                if greedy:
                    nfa.eps[s] += [(b, None), (out, None)]
                else:
                    nfa.eps[s] += [(out, None), (b, None)]
                s = seq(body, b, ic)
            nfa.eps[s].append((out, None))
            return out
        if op == sre_c.AT:
            nm = str(av).split(".")[-1]
            kind = {"AT_BEGINNING": "bos", "AT_BEGINNING_STRING": "bos",
                    "AT_END": "eos", "AT_END_STRING": "eos"}.get(nm)
            if kind is None:
                raise AnalysisError("regex assertion %s unsupported" % nm)
            t = nfa.new()
            nfa.eps[s].append((t, ("assert", kind)))
            return t
        raise AnalysisError("regex construct %s outside the analysable "
                            "vocabulary" % op)

    if p.state.flags & (re.MULTILINE | re.DOTALL | re.VERBOSE):
        raise AnalysisError("regex flags not supported: %r" % pattern)
    nfa.start = nfa.new()
    _ASCII[0] = bool(p.state.flags & re.ASCII)
    try:
        end = seq(p, nfa.start, bool(p.state.flags & re.IGNORECASE))
    finally:
        _ASCII[0] = False
    nfa.accept = end
    return nfa


def closure(nfa, kernels, at_start, at_end, cut):
    """Ordered epsilon closure of the ordered kernel list.  Returns the ordered
    list of states that either consume a character or are the accept state.
    With cut=True the list is truncated after the first accept."""
    out, seen = [], set()
    for k in kernels:
        stack = [k]
        while stack:
            q = stack.pop()
            if q in seen:
                continue
            seen.add(q)
            if q == nfa.accept:
                out.append(q)
                if cut:
                    return out
                continue
            if nfa.chr[q] is not None:
                out.append(q)
            # push eps targets in reverse so that the first is explored first
            for tgt, label in reversed(nfa.eps[q]):
                if label is not None and label[0] == "assert":
                    if label[1] == "bos" and not at_start:
                        continue
                    if label[1] == "eos" and not at_end:
                        continue
                stack.append(tgt)
    return out


# --------------------------------------------------------------------- DFA

class DFA:
    """Complete DFA over alphabet `ab` (symbols 0..ab.n-1)."""

    def __init__(self, ab, trans, accept, start=0):
        self.ab = ab
        self.trans = trans      # list of lists
        self.accept = accept    # set of states
        self.start = start

    @property
    def nstates(self):
        return len(self.trans)

    def accepts_atoms(self, word):
        q = self.start
        for a in word:
            q = self.trans[q][a]
        return q in self.accept

    def accepts(self, s):
        if "\n" in s:
            raise AnalysisError("newline outside the analysed domain")
        return self.accepts_atoms([self.ab.atom_of_char(c) for c in s])

    def complement(self):
        return DFA(self.ab, self.trans,
                   set(range(len(self.trans))) - self.accept, self.start)

    def product(self, other, op):
        if other.ab is not self.ab:
            raise AnalysisError("alphabet mismatch")
        idx = {(self.start, other.start): 0}
        trans, accept = [], set()
        queue = deque([(self.start, other.start)])
        order = [(self.start, other.start)]
        while queue:
            p, q = queue.popleft()
            row = []
            for a in range(self.ab.n):
                t = (self.trans[p][a], other.trans[q][a])
                if t not in idx:
                    idx[t] = len(order)
                    order.append(t)
                    queue.append(t)
                row.append(idx[t])
            trans.append(row)
        for (p, q), i in idx.items():
            if op(p in self.accept, q in other.accept):
                accept.add(i)
        return DFA(self.ab, trans, accept, 0)

    def __and__(self, o):
        return self.product(o, lambda a, b: a and b)

    def __or__(self, o):
        return self.product(o, lambda a, b: a or b)

    def __sub__(self, o):
        return self.product(o, lambda a, b: a and not b)

    def shortest(self):
        """Shortest accepted word as atom list, or None."""
        prev = {self.start: None}
        queue = deque([self.start])
        while queue:
            q = queue.popleft()
            if q in self.accept:
                w = []
                while prev[q] is not None:
                    q, a = prev[q]
                    w.append(a)
                return list(reversed(w))
            for a in range(self.ab.n):
                t = self.trans[q][a]
                if t not in prev:
                    prev[t] = (q, a)
                    queue.append(t)
        return None

    def is_empty(self):
        return self.shortest() is None

    def witness(self):
        w = self.shortest()
        return None if w is None else self.ab.word(w)

    def minimized_size(self):
        # Moore partition refinement (for evidence only)
        part = {q: (q in self.accept) for q in range(len(self.trans))}
        while True:
            sig = {q: (part[q], tuple(part[t] for t in self.trans[q]))
                   for q in part}
            ids = {}
            new = {q: ids.setdefault(sig[q], len(ids)) for q in part}
            if len(ids) == len(set(part.values())):
                return len(ids)
            part = new


def diff_witness(a, b):
    """None if L(a) == L(b), else (word, in_a, in_b) for a shortest
    distinguishing word."""
    d = a.product(b, lambda x, y: x != y)
    w = d.shortest()
    if w is None:
        return None
    return (a.ab.word(w), a.accepts_atoms(w), b.accepts_atoms(w))


def _determinise(ab, start_key, step, is_accept, limit=200000):
    idx = {start_key: 0}
    order = [start_key]
    trans = []
    queue = deque([start_key])
    while queue:
        k = queue.popleft()
        row = []
        for a in range(ab.n):
            t = step(k, a)
            if t not in idx:
                if len(order) >= limit:
                    raise AnalysisError("automaton too large")
                idx[t] = len(order)
                order.append(t)
                queue.append(t)
            row.append(idx[t])
        trans.append(row)
    accept = {i for k, i in idx.items() if is_accept(k)}
    return DFA(ab, trans, accept, 0), order


def lang_full(pattern, ab):
    """L = { s : fullmatch(pattern, s) } over the \\n-free domain."""
    nfa = build_nfa(pattern)
    amap = [None] * len(nfa.chr)
    for q, c in enumerate(nfa.chr):
        if c is not None:
            amap[q] = ab.atoms_of(c[0])

    def step(key, a):
        kernels, at_start = key
        cl = closure(nfa, sorted(kernels), at_start, False, False)
        nxt = set()
        for q in cl:
            if q != nfa.accept and a in amap[q]:
                nxt.add(nfa.chr[q][1])
        return (frozenset(nxt), False)

    def acc(key):
        kernels, at_start = key
        return nfa.accept in closure(nfa, sorted(kernels), at_start, True,
                                     False)
    dfa, _ = _determinise(ab, (frozenset([nfa.start]), True), step, acc)
    return dfa


def lang_first(pattern, ab, return_info=False):
    """{ s : m = re.match(pattern, s), m is not None and m.group() == s }."""
    nfa = build_nfa(pattern)
    amap = [None] * len(nfa.chr)
    for q, c in enumerate(nfa.chr):
        if c is not None:
            amap[q] = ab.atoms_of(c[0])
    cuts = []   # (kernel key, cut threads) -- for first_is_longest

    def step(key, a):
        kernels, at_start = key
        cl = closure(nfa, kernels, at_start, False, True)
        nxt = []
        for q in cl:
            if q != nfa.accept and a in amap[q]:
                t = nfa.chr[q][1]
                if t not in nxt:
                    nxt.append(t)
        return (tuple(nxt), False)

    def acc(key):
        kernels, at_start = key
        return nfa.accept in closure(nfa, kernels, at_start, True, True)
    dfa, order = _determinise(ab, ((nfa.start,), True), step, acc)
    if return_info:
        return dfa, nfa, order
    return dfa


def first_is_longest(pattern, ab):
    """True iff for prefix matching (`p.match(s, pos)`), the match chosen by
    priority is always the longest possible one.  Sufficient condition checked:
    in no reachable thread list does an accepting thread stand above a thread
    that can still reach accept after consuming at least one more character.
    Returns (ok, witness prefix or None)."""
    dfa, nfa, order = lang_first(pattern, ab, return_info=True)
    amap = [None] * len(nfa.chr)
    for q, c in enumerate(nfa.chr):
        if c is not None:
            amap[q] = ab.atoms_of(c[0])
    # states that can reach accept after >= 0 more characters
    can = set()
    changed = True
    rev_ok = {nfa.accept}
    while changed:
        changed = False
        for q in range(len(nfa.eps)):
            if q in rev_ok:
                continue
            tg = [t for t, _ in nfa.eps[q]]
            if nfa.chr[q] is not None and amap[q]:
                tg.append(nfa.chr[q][1])
            if any(t in rev_ok for t in tg):
                rev_ok.add(q)
                changed = True
    # shortest path to each DFA state for witness
    prev = {0: None}
    queue = deque([0])
    while queue:
        s = queue.popleft()
        for a in range(ab.n):
            t = dfa.trans[s][a]
            if t not in prev:
                prev[t] = (s, a)
                queue.append(t)
    for i, (kernels, at_start) in enumerate(order):
        if i not in prev:
            continue
        for at_end in (False,):
            full = closure(nfa, kernels, at_start, at_end, False)
            if nfa.accept in full:
                pos = full.index(nfa.accept)
                below = full[pos + 1:]
                for q in below:
                    if q != nfa.accept and amap[q] and \
                            nfa.chr[q][1] in rev_ok:
                        w, s = [], i
                        while prev[s] is not None:
                            s, a = prev[s]
                            w.append(a)
                        return False, ab.word(reversed(w))
    return True, None


# ---------------------------------------------------------------- tagged

class TaggedDFA:
    """DFA over symbols (frozenset(tags), atom) and (frozenset(tags), END)."""
    END = -1

    def __init__(self, ab):
        self.ab = ab
        self.trans = []   # state -> {symbol: state}
        self.accept = set()

    def pretty(self, word):
        out = []
        for tags, a in word:
            for t in sorted(tags):
                out.append(("<%s>" if t[0] == "open" else "</%s>") % t[1])
            out.append("\u22a3" if a == self.END else self.ab.reps[a])
        return "".join(out)


def lang_tagged(pattern, ab, first=True):
    """Tagged language of `pattern.match(s)`: for each input the word of the
    chosen accepting path, interleaved with group open/close tags and an END
    marker where the match ends (the rest of the input follows untagged).
    first=True: only the highest-priority accepting path (CPython's choice);
    first=False: every accepting path (use for reference patterns, which
    should be unambiguous).

    Construction: a reverse subset automaton gives for every remaining input
    v the viability set V(v) of NFA states that can reach accept on a prefix
    of v; the forward automaton runs over configurations (q, V) and at a
    branching state follows only the first ordered edge whose target lies in V
    -- exactly what CPython's backtracking finds."""
    nfa = build_nfa(pattern)
    n = len(nfa.eps)
    amap = [None] * n
    for q, c in enumerate(nfa.chr):
        if c is not None:
            amap[q] = ab.atoms_of(c[0])

    def back_eps(S, at_end):
        S = set(S)
        changed = True
        while changed:
            changed = False
            for q in range(n):
                if q in S:
                    continue
                for t, label in nfa.eps[q]:
                    if label is not None and label[0] == "assert" \
                            and label[1] == "eos" and not at_end:
                        continue
                    # 'bos' is over-approximated as passable here; the
                    # forward walk re-checks it and backtracks
                    if t in S:
                        S.add(q)
                        changed = True
                        break
        return frozenset(S)

    RV_end = (back_eps({nfa.accept}, True), True)
    rev_states = {RV_end}
    fwd = {}
    queue = deque([RV_end])
    while queue:
        RVp = queue.popleft()
        Vp = RVp[0]
        for a in range(ab.n):
            S = {q for q in range(n) if nfa.chr[q] is not None
                 and a in amap[q] and nfa.chr[q][1] in Vp}
            S.add(nfa.accept)
            RV = (back_eps(S, False), False)
            fwd.setdefault((RV, a), []).append(RVp)
            if RV not in rev_states:
                if len(rev_states) > 5000:
                    raise AnalysisError("reverse automaton too large")
                rev_states.add(RV)
                queue.append(RV)

    def eps_walk(q, RV, at_start):
        V, at_end = RV
        results = []

        def go(q, tags, seen):
            if q in seen:
                raise AnalysisError("epsilon cycle in tagged construction")
            if q == nfa.accept:
                results.append((frozenset(tags), q))
                return True
            if nfa.chr[q] is not None:
                if at_end:
                    return False
                results.append((frozenset(tags), q))
                return True
            ok = False
            for t, label in nfa.eps[q]:
                if t not in V:
                    continue
                nt = tags
                if label is not None and label[0] == "assert":
                    if label[1] == "bos" and not at_start:
                        continue
                    if label[1] == "eos" and not at_end:
                        continue
                elif label is not None:
                    if label in tags:
                        raise AnalysisError(
                            "capture group inside a repetition is outside "
                            "the tagged vocabulary")
                    nt = tags + (label,)
                r = go(t, nt, seen | {q})
                ok = ok or r
                if r and first:
                    return True
            return ok
        go(q, (), frozenset())
        return results

    tdfa = TaggedDFA(ab)
    starts = frozenset(("run", nfa.start, RV, True) for RV in rev_states
                       if nfa.start in RV[0])
    idx = {starts: 0}
    order = [starts]
    tdfa.trans.append({})
    queue = deque([starts])
    while queue:
        cur = queue.popleft()
        i = idx[cur]
        moves = {}
        for conf in cur:
            if conf[0] == "rest":
                RV = conf[1]
                if RV[1]:
                    continue
                for a in range(ab.n):
                    for RVp in fwd.get((RV, a), ()):
                        moves.setdefault((frozenset(), a), set()).add(
                            ("rest", RVp))
                continue
            _, q, RV, at_start = conf
            for tags, s in eps_walk(q, RV, at_start):
                if s == nfa.accept:
                    moves.setdefault((tags, TaggedDFA.END), set()).add(
                        ("rest", RV))
                    continue
                for a in amap[s]:
                    t = nfa.chr[s][1]
                    for RVp in fwd.get((RV, a), ()):
                        if t in RVp[0]:
                            moves.setdefault((tags, a), set()).add(
                                ("run", t, RVp, False))
        for sym, tgt in moves.items():
            key = frozenset(tgt)
            if key not in idx:
                if len(order) > 20000:
                    raise AnalysisError("tagged automaton too large")
                idx[key] = len(order)
                order.append(key)
                tdfa.trans.append({})
                queue.append(key)
            tdfa.trans[i][sym] = idx[key]
    for key, i in idx.items():
        if ("rest", RV_end) in key:
            tdfa.accept.add(i)
    return tdfa


def tagged_diff(a, b, domain=None):
    """Shortest tagged word accepted by exactly one of a, b (restricted to
    inputs whose atom sequence lies in DFA `domain` when given).
    Returns None or (pretty word, in_a, in_b)."""
    DEAD = -1
    start = (0, 0, domain.start if domain is not None else 0)
    prev = {start: None}
    queue = deque([start])
    while queue:
        st = queue.popleft()
        p, q, d = st
        ina = p != DEAD and p in a.accept
        inb = q != DEAD and q in b.accept
        if ina != inb and (domain is None or d in domain.accept):
            w = []
            s = st
            while prev[s] is not None:
                s, sym = prev[s]
                w.append(sym)
            w.reverse()
            return (a.pretty(w), ina, inb)
        syms = set()
        if p != DEAD:
            syms |= set(a.trans[p])
        if q != DEAD:
            syms |= set(b.trans[q])
        for sym in sorted(syms, key=lambda s: (s[1], sorted(s[0]))):
            tags, at = sym
            if at == TaggedDFA.END:
                nd = d
            else:
                nd = domain.trans[d][at] if domain is not None else 0
            np_ = a.trans[p].get(sym, DEAD) if p != DEAD else DEAD
            nq = b.trans[q].get(sym, DEAD) if q != DEAD else DEAD
            if np_ == DEAD and nq == DEAD:
                continue
            t = (np_, nq, nd)
            if t not in prev:
                prev[t] = (st, sym)
                queue.append(t)
    return None


def tagged_count(t):
    return len(t.trans), sum(len(r) for r in t.trans)


# ------------------------------------------------------- language builders

def lang_const_set(ab, strings):
    """DFA accepting exactly the given constant strings."""
    pat = "|".join(re.escape(s) for s in strings) if strings else None
    if pat is None:
        return lang_empty(ab)
    if "" in strings:
        pat = "(?:%s)?" % "|".join(re.escape(s) for s in strings if s) \
            if any(strings) else ""
    return lang_full(pat, ab)


def lang_empty(ab):
    return DFA(ab, [[0] * ab.n], set(), 0)


def lang_all(ab):
    return DFA(ab, [[0] * ab.n], {0}, 0)


def validate_against_re(pattern, ab, maxlen=5, semantic="first"):
    """Thorough-tier validation of the engine itself: compare the automaton
    with CPython's `re` on all words of length <= maxlen over one
    representative per atom.  Returns list of disagreements."""
    rx = re.compile(pattern)
    dfa = lang_first(pattern, ab) if semantic == "first" else lang_full(
        pattern, ab)
    bad = []
    words = [[]]
    n = 0
    for L in range(maxlen + 1):
        for w in words:
            s = ab.word(w)
            if semantic == "first":
                m = rx.match(s)
                real = bool(m and m.group() == s)
            else:
                real = rx.fullmatch(s) is not None
            mine = dfa.accepts_atoms(w)
            n += 1
            if real != mine:
                bad.append((s, real, mine))
        if L < maxlen:
            words = [w + [a] for w in words for a in range(ab.n)]
    return n, bad


def lang_match_length(pattern, ab, pred, cap):
    """{ s : m = re.match(pattern, s) is not None and pred(len(m.group(0))) }
    where pred is evaluated on min(len, cap) (choose cap above every constant
    pred compares with).  Built from the tagged winner-path automaton: the
    END marker tells where the priority-chosen match ends."""
    t = lang_tagged(pattern, ab, first=True)
    END = TaggedDFA.END

    def eps(states):
        out = set(states)
        todo = list(states)
        while todo:
            s, c, ended = todo.pop()
            if ended is not None:
                continue
            for (tags, a), tgt in t.trans[s].items():
                if a == END:
                    n = (tgt, c, bool(pred(c)))
                    if n not in out:
                        out.add(n)
                        todo.append(n)
        return frozenset(out)

    start = eps({(0, 0, None)})

    def step(key, a):
        nxt = set()
        for s, c, ended in key:
            for (tags, b), tgt in t.trans[s].items():
                if b != a:
                    continue
                if ended is None:
                    nxt.add((tgt, min(c + 1, cap), None))
                else:
                    nxt.add((tgt, c, ended))
        return eps(nxt)

    def acc(key):
        return any(s in t.accept and ended for s, c, ended in key)
    dfa, _ = _determinise(ab, start, step, acc)
    return dfa


def lang_matches(pattern, ab):
    """{ s : re.match(pattern, s) is not None }."""
    return lang_match_length(pattern, ab, lambda n: True, 1)
