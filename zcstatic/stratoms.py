"""Regular-language reading of string observations on a parameter.

A path condition of the abstract interpreter is a valuation of atoms.  Atoms
that observe a *string parameter* only through membership / prefix / suffix /
emptiness tests -- possibly on the part before (after) the first occurrence of
a one-character separator -- denote regular languages over that parameter.
Two valuations are jointly feasible, as far as those atoms go, iff the
intersection of their languages is non-empty; a shortest word of the
intersection is an input that takes both paths.  This decides pairs of paths
whose string predicates are written differently (`'' in x.split('/')` against
`'//' in x`) exactly, where the term-equality comparison has no verdict.

Soundness conditions (checked, `None` = no verdict when one fails):
  * every atom of the two valuations that mentions the parameter at all is
    translated (an untranslated observation could correlate with the rest);
  * separators are single characters, needles are constants.
Parameters are independent of each other (they are inputs), so the joint
language is the product, decided per parameter.  The domain is the newline-free
strings (the alphabet of zcstatic.strlang).
"""
import re

from zcstatic import strlang as S


def _is_const_str(t):
    return isinstance(t, tuple) and len(t) == 2 and t[0] == "const" \
        and isinstance(t[1], str)


def _mentions(t, root):
    if t == root:
        return True
    if isinstance(t, tuple):
        return any(_mentions(x, root) for x in t)
    return False


def _params_in(t, out):
    if isinstance(t, tuple):
        if len(t) == 2 and t[0] == "param" and isinstance(t[1], int):
            out.add(t)
            return
        for x in t:
            _params_in(x, out)


class _View:
    """A substring of the root: `dot` is the class of its characters, `wrap`
    lifts a regex over the view to a regex over the root."""

    def __init__(self, dot, wrap, chars):
        self.dot, self.wrap, self.chars = dot, wrap, chars


def _view(t, root):
    if t == root:
        return _View("[^\\n]", lambda r: r, "")
    # index(call(attr(V,'split'), (const s, const 1), ()), const k)
    if isinstance(t, tuple) and t and t[0] == "index" and len(t) == 3 \
            and t[2] in (("const", 0), ("const", 1)):
        c = t[1]
        if isinstance(c, tuple) and c and c[0] == "call" \
                and isinstance(c[1], tuple) and c[1][0] == "attr" \
                and c[1][2] == "split" and c[1][1] == root \
                and len(c[2]) == 2 and _is_const_str(c[2][0]) \
                and len(c[2][0][1]) == 1 and c[2][1] == ("const", 1) \
                and not c[3]:
            s = c[2][0][1]
            e = re.escape(s)
            d = "[^%s\\n]" % (e if s not in "^]\\-" else "\\" + s)
            if t[2][1] == 0:
                return _View(d, lambda r: "(?:%s)(?:%s[^\\n]*)?" % (r, e), s)
            return _View("[^\\n]", lambda r: "%s*%s(?:%s)" % (d, e, r), s)
    return None


def _atom_regex(atom, root):
    """Regex over the root for `atom` being true, '' for the empty language
    marker `False`, or None when the atom is not understood."""
    kind = atom[0]
    if kind == "contains" and _is_const_str(atom[1]):
        c = atom[1][1]
        v = _view(atom[2], root)
        if v is not None:
            if any(ch in v.chars for ch in c) and v.dot != "[^\\n]":
                return False
            return v.wrap("%s*%s%s*" % (v.dot, re.escape(c), v.dot))
        # '' in V.split(t): an empty component
        t = atom[2]
        if c == "" and isinstance(t, tuple) and t and t[0] == "call" \
                and isinstance(t[1], tuple) and t[1][0] == "attr" \
                and t[1][2] == "split" and len(t[2]) == 1 \
                and _is_const_str(t[2][0]) and len(t[2][0][1]) == 1 \
                and not t[3]:
            v = _view(t[1][1], root)
            sep = t[2][0][1]
            if v is None:
                return None
            if sep in v.chars and v.dot != "[^\\n]":
                # the separator cannot occur: one component, empty iff the
                # view is empty
                return v.wrap("")
            e, d = re.escape(sep), v.dot
            return v.wrap("(?:|%s%s*|%s*%s|%s*%s%s%s*)"
                          % (e, d, d, e, d, e, e, d))
        return None
    if kind == "truthy":
        t = atom[1]
        v = _view(t, root)
        if v is not None:
            return v.wrap("%s+" % v.dot)
        if isinstance(t, tuple) and t and t[0] == "call" \
                and isinstance(t[1], tuple) and t[1][0] == "attr" \
                and t[1][2] in ("startswith", "endswith") \
                and len(t[2]) == 1 and _is_const_str(t[2][0]) and not t[3]:
            v = _view(t[1][1], root)
            if v is None:
                return None
            c = t[2][0][1]
            if any(ch in v.chars for ch in c) and v.dot != "[^\\n]":
                return False
            if t[1][2] == "startswith":
                return v.wrap("%s%s*" % (re.escape(c), v.dot))
            return v.wrap("%s*%s" % (v.dot, re.escape(c)))
        return None
    if kind == "eq" and _is_const_str(atom[2]) and isinstance(
            atom[1], tuple) and atom[1] and atom[1][0] == "slice" \
            and len(atom[1]) == 4:
        # x[:n] == c  (len(c) == n)  is  x.startswith(c);  x[-n:] == c  is
        # x.endswith(c)
        _, base, lo, hi = atom[1]
        c = atom[2][1]
        v = _view(base, root)
        if v is None or not c:
            return None
        if any(ch in v.chars for ch in c) and v.dot != "[^\\n]":
            return False
        if lo is None and hi == ("const", len(c)):
            return v.wrap("%s%s*" % (re.escape(c), v.dot))
        if hi is None and lo == ("const", -len(c)):
            return v.wrap("%s*%s" % (v.dot, re.escape(c)))
        if isinstance(lo, tuple) and isinstance(hi, tuple) \
                and lo[0] == "const" and hi[0] == "const" \
                and isinstance(lo[1], int) and isinstance(hi[1], int) \
                and 0 <= lo[1] and hi[1] - lo[1] == len(c):
            # x[a:b] == c with len(c) == b - a
            return v.wrap("%s{%d}%s%s*" % (v.dot, lo[1], re.escape(c),
                                           v.dot))
        return None
    if kind == "eq" and _is_const_str(atom[2]):
        v = _view(atom[1], root)
        if v is None:
            return None
        c = atom[2][1]
        if any(ch in v.chars for ch in c) and v.dot != "[^\\n]":
            return False
        return v.wrap(re.escape(c))
    return None


def _const_chars(atom, out):
    if isinstance(atom, tuple):
        if _is_const_str(atom):
            out.update(atom[1])
            return
        for x in atom:
            _const_chars(x, out)


def _subject(atom):
    """The term an atom observes (before views are peeled), or None."""
    kind = atom[0]
    if kind == "contains" and _is_const_str(atom[1]):
        t = atom[2]
        if isinstance(t, tuple) and t and t[0] == "call" and isinstance(
                t[1], tuple) and t[1][0] == "attr" and t[1][2] == "split" \
                and len(t[2]) == 1:
            return t[1][1]
        return t
    if kind == "truthy":
        t = atom[1]
        if isinstance(t, tuple) and t and t[0] == "call" and isinstance(
                t[1], tuple) and t[1][0] == "attr" \
                and t[1][2] in ("startswith", "endswith"):
            return t[1][1]
        return t
    if kind == "eq" and _is_const_str(atom[2]):
        t = atom[1]
        if isinstance(t, tuple) and t and t[0] == "slice" and len(t) == 4:
            return t[1]
        return t
    return None


def _root_of(atom):
    """The string variable an atom is about: its subject with the
    split(sep, 1)[k] view peeled off."""
    x = _subject(atom)
    if x is None or not isinstance(x, tuple):
        return None
    if x and x[0] == "index" and len(x) == 3 and isinstance(x[1], tuple) \
            and x[1] and x[1][0] == "call" and isinstance(x[1][1], tuple) \
            and x[1][1][0] == "attr" and x[1][1][2] == "split":
        return x[1][1][1]
    return x


def translatable(atom):
    """Does `atom` observe one string variable (a parameter, or any one
    term) through a form this module reads as a regular language?"""
    r = _root_of(atom)
    if r is None or _is_const_str(r):
        return False
    return _atom_regex(atom, r) is not None


def _shares(a, root):
    """Does atom `a` mention the root or anything the root is made of (a
    parameter, an attribute of self)?"""
    if _mentions(a, root):
        return True
    parts = set()

    def leaves(t):
        if isinstance(t, tuple):
            if t and t[0] in ("param", "self"):
                parts.add(t)
            elif t and t[0] == "attr" and len(t) == 3 and t[1] == ("self",):
                parts.add(t)
            else:
                for x in t:
                    leaves(x)
    leaves(root)
    return any(_mentions(a, p) for p in parts)


def joint_witness(val_a, val_b):
    """val_*: dict atom -> bool.  Returns
        None            no verdict (an atom mentioning a parameter that has
                        string observations is not understood);
        False           jointly infeasible;
        dict            {param text: witness string}: an input on which both
                        valuations' string observations hold.
    Only parameters with at least one translated atom are considered."""
    merged = []
    for val in (val_a, val_b):
        for a, v in val.items():
            merged.append((a, v))
    roots = set()
    for a, _ in merged:
        if translatable(a):
            roots.add(_root_of(a))
    if not roots:
        return None
    general = [r for r in roots if not (len(r) == 2 and r[0] == "param")]
    # several variables, not all of them inputs: they may be related, so
    # only an empty language of one of them (infeasible) is concluded
    inconclusive = bool(general) and len(roots) > 1
    out = {}
    for root in sorted(roots, key=repr):
        mine = [(a, v) for a, v in merged if _shares(a, root)]
        chars = set()
        regs = []
        related = False
        for a, v in mine:
            r = _atom_regex(a, root) if _root_of(a) == root else None
            if r is None:
                # an observation related to the variable that is not read as
                # a language: leaving it out only enlarges the language, so
                # "infeasible" stays sound and "feasible" is not concluded
                related = True
                continue
            _const_chars(a, chars)
            regs.append((r, v))
        chars.discard("\n")
        ab = S.Alphabet([S.cs_of(ch) for ch in sorted(chars)])
        lang = S.lang_all(ab)
        for r, v in regs:
            d = S.lang_empty(ab) if r is False else S.lang_full(r, ab)
            lang = (lang & d) if v else (lang - d)
        w = lang.witness()
        if w is None:
            return False
        if related:
            inconclusive = True
        if len(root) == 2 and root[0] == "param":
            out["P%d" % root[1]] = w
        else:
            out["<string observed>"] = w
    if inconclusive:
        return None
    return out
