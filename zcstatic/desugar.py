"""Syntax-tree desugaring applied to every module before any analysis.

Newer spellings that mean exactly what an older spelling means are rewritten
into the older one, so that every engine (CFG, escape analysis, interpreter,
typestate) keeps one vocabulary:

* annotations carry no behaviour: parameter / return annotations are
  dropped, `x: T = v` is `x = v`, a bare `x: T` is `pass`;
* `if (m := e): ...` is `m = e; if m: ...` when the assignment expression is
  the first thing the test evaluates and is evaluated unconditionally (the
  same for the value of an assignment, a `return` and an expression
  statement); any other placement is left alone (and stays outside the
  vocabulary of the engines that meet it);
* a `match` statement whose patterns are literals, dotted constants,
  `None/True/False`, alternatives of those (also `... as name`), a final
  wildcard or a bare capture is the `if/elif/else` chain Python defines it to be (`==` for
  values, `is` for singletons; the subject is evaluated once).

* `with contextlib.suppress(A, B): body` is `try: body / except (A, B): pass`.

Nothing here depends on the repository; a construct that does not fit is
returned unchanged.
"""
import ast


def _simple(e):
    """An expression whose evaluation has no effect and cannot be affected by
    the assignment being hoisted over it (names other than the target are
    checked by the caller)."""
    if isinstance(e, ast.Constant):
        return True
    if isinstance(e, ast.Name):
        return True
    if isinstance(e, ast.Attribute):
        return _simple(e.value)
    return False


def _names(e):
    return {n.id for n in ast.walk(e) if isinstance(n, ast.Name)}


def _first_walrus(e, before):
    """The NamedExpr that is evaluated first and unconditionally in `e`,
    provided everything evaluated before it is simple; `before` collects the
    simple expressions passed on the way.  Returns (parent, field, index,
    node) or None."""
    if isinstance(e, ast.NamedExpr):
        return ("self", None, None, e)
    if isinstance(e, ast.UnaryOp):
        return _wrap(e, "operand", None, before)
    if isinstance(e, ast.BoolOp):
        return _wrap(e, "values", 0, before)
    if isinstance(e, ast.Compare):
        r = _wrap(e, "left", None, before)
        if r or not _simple(e.left) or len(e.comparators) != 1:
            return r
        before.append(e.left)
        return _wrap(e, "comparators", 0, before)
    if isinstance(e, ast.BinOp):
        r = _wrap(e, "left", None, before)
        if r or not _simple(e.left):
            return r
        before.append(e.left)
        return _wrap(e, "right", None, before)
    if isinstance(e, ast.Attribute):
        return _wrap(e, "value", None, before)
    if isinstance(e, ast.Subscript):
        return _wrap(e, "value", None, before)
    if isinstance(e, ast.Call):
        r = _wrap(e, "func", None, before)
        if r or not _simple(e.func):
            return r
        before.append(e.func)
        for i, a in enumerate(e.args):
            if isinstance(a, ast.Starred):
                return None
            r = _wrap(e, "args", i, before)
            if r or not _simple(a):
                return r
            before.append(a)
        return None
    return None


def _wrap(parent, field, index, before):
    child = getattr(parent, field)
    if index is not None:
        child = child[index]
    r = _first_walrus(child, before)
    if r is None:
        return None
    if r[0] == "self":
        return (parent, field, index, r[3])
    return r


def _hoist(expr):
    """(prefix statements, new expression) for `expr` with leading assignment
    expressions hoisted; ([], expr) when there is nothing to hoist."""
    pre = []
    for _ in range(4):
        before = []
        if isinstance(expr, ast.NamedExpr):
            w = ("top", None, None, expr)
        else:
            w = _first_walrus(expr, before)
        if w is None:
            break
        parent, field, index, node = w
        tgt = node.target.id
        if any(tgt in _names(b) for b in before):
            break
        asg = ast.Assign(targets=[ast.Name(id=tgt, ctx=ast.Store())],
                         value=node.value)
        ast.copy_location(asg, node)
        ast.copy_location(asg.targets[0], node)
        ast.fix_missing_locations(asg)
        use = ast.copy_location(ast.Name(id=tgt, ctx=ast.Load()), node)
        pre.append(asg)
        if parent == "top":
            expr = use
        elif index is None:
            setattr(parent, field, use)
        else:
            getattr(parent, field)[index] = use
    return pre, expr


def _pattern_test(pat, subj):
    """The test a pattern stands for, or None when it is outside the
    vocabulary; ('capture', name) / ('wild',) for irrefutable patterns."""
    if isinstance(pat, ast.MatchValue):
        if not (isinstance(pat.value, ast.Constant) or _simple(pat.value)
                or (isinstance(pat.value, ast.UnaryOp)
                    and isinstance(pat.value.operand, ast.Constant))):
            return None
        return ast.Compare(left=subj(), ops=[ast.Eq()],
                           comparators=[pat.value])
    if isinstance(pat, ast.MatchSingleton):
        return ast.Compare(left=subj(), ops=[ast.Is()],
                           comparators=[ast.Constant(value=pat.value)])
    if isinstance(pat, ast.MatchOr):
        parts = [_pattern_test(p, subj) for p in pat.patterns]
        if any(p is None or isinstance(p, tuple) for p in parts):
            return None
        return ast.BoolOp(op=ast.Or(), values=parts)
    if isinstance(pat, ast.MatchAs) and pat.pattern is None:
        return ("wild",) if pat.name is None else ("capture", pat.name)
    if isinstance(pat, ast.MatchAs) and pat.name is not None:
        # `case P as name`: the test of P; the body starts with name = subject
        inner = _pattern_test(pat.pattern, subj)
        if inner is None or isinstance(inner, tuple):
            return None
        return ("as", inner, pat.name)
    return None


class Desugar(ast.NodeTransformer):
    def __init__(self):
        self.counter = 0
        self.changed = []

    # ------------------------------------------------------- annotations
    def _strip_args(self, node):
        a = node.args
        for arg in a.posonlyargs + a.args + a.kwonlyargs:
            arg.annotation = None
        if a.vararg:
            a.vararg.annotation = None
        if a.kwarg:
            a.kwarg.annotation = None
        node.returns = None

    def visit_FunctionDef(self, node):
        self._strip_args(node)
        self.generic_visit(node)
        return node

    visit_AsyncFunctionDef = visit_FunctionDef

    def visit_AnnAssign(self, node):
        self.generic_visit(node)
        if node.value is None:
            return ast.copy_location(ast.Pass(), node)
        tgt = node.target
        new = ast.Assign(targets=[tgt], value=node.value)
        ast.copy_location(new, node)
        return self._hoist_stmt(new, "value")

    # ------------------------------------------- assignment expressions
    def _hoist_stmt(self, node, field):
        e = getattr(node, field)
        if e is None:
            return node
        pre, e2 = _hoist(e)
        if not pre:
            return node
        setattr(node, field, e2)
        self.changed.append("walrus")
        return pre + [node]

    def visit_If(self, node):
        self.generic_visit(node)
        return self._hoist_stmt(node, "test")

    def visit_Assign(self, node):
        self.generic_visit(node)
        return self._hoist_stmt(node, "value")

    def visit_Return(self, node):
        self.generic_visit(node)
        return self._hoist_stmt(node, "value")

    def visit_Expr(self, node):
        self.generic_visit(node)
        return self._hoist_stmt(node, "value")

    # ------------------------------------------- contextlib.suppress(...)
    def visit_With(self, node):
        self.generic_visit(node)
        if len(node.items) != 1 or node.items[0].optional_vars is not None:
            return node
        ce = node.items[0].context_expr
        if not (isinstance(ce, ast.Call) and ce.args and not ce.keywords):
            return node
        f = ce.func
        name = f.id if isinstance(f, ast.Name) else (
            "%s.%s" % (f.value.id, f.attr) if isinstance(f, ast.Attribute)
            and isinstance(f.value, ast.Name) else None)
        if name not in ("contextlib.suppress", "suppress"):
            return node
        # with suppress(A, B): body   is   try: body / except (A, B): pass
        typ = ce.args[0] if len(ce.args) == 1 else ast.Tuple(
            elts=list(ce.args), ctx=ast.Load())
        h = ast.ExceptHandler(type=typ, name=None,
                              body=[ast.copy_location(ast.Pass(), node)])
        t = ast.Try(body=node.body, handlers=[h], orelse=[], finalbody=[])
        for x in (h, t):
            ast.copy_location(x, node)
        ast.fix_missing_locations(t)
        self.changed.append("suppress")
        return t

    # ------------------------------------------------------------ match
    def visit_Match(self, node):
        self.generic_visit(node)
        pre = []
        if _simple(node.subject):
            subject = node.subject
        else:
            self.counter += 1
            name = "_match_subject_%d" % self.counter
            asg = ast.Assign(targets=[ast.Name(id=name, ctx=ast.Store())],
                             value=node.subject)
            ast.copy_location(asg, node)
            pre.append(asg)
            subject = ast.Name(id=name, ctx=ast.Load())
            ast.copy_location(subject, node)

        def subj():
            import copy
            return copy.deepcopy(subject)
        arms = []
        for case in node.cases:
            t = _pattern_test(case.pattern, subj)
            if t is None:
                return node
            body = list(case.body)
            if isinstance(t, tuple) and t[0] == "as":
                if case.guard is not None and t[2] in _names(case.guard):
                    return node
                b = ast.Assign(targets=[ast.Name(id=t[2], ctx=ast.Store())],
                               value=subj())
                ast.copy_location(b, case.pattern)
                body = [b] + body
                test = t[1] if case.guard is None else ast.BoolOp(
                    op=ast.And(), values=[t[1], case.guard])
            elif isinstance(t, tuple):
                if t[0] == "capture":
                    b = ast.Assign(
                        targets=[ast.Name(id=t[1], ctx=ast.Store())],
                        value=subj())
                    ast.copy_location(b, case.pattern)
                    if case.guard is not None:
                        # the capture is visible to the guard: outside
                        # the vocabulary
                        return node
                    body = [b] + body
                test = case.guard
            else:
                test = t if case.guard is None else ast.BoolOp(
                    op=ast.And(), values=[t, case.guard])
            arms.append((test, body, case))
        # build the chain from the last arm backwards
        orelse = []
        for test, body, case in reversed(arms):
            if test is None:
                orelse = body
                continue
            n = ast.If(test=test, body=body, orelse=orelse)
            ast.copy_location(n, case.pattern)
            orelse = [n]
        if not orelse:
            orelse = [ast.copy_location(ast.Pass(), node)]
        for st in pre + orelse:
            ast.fix_missing_locations(st)
        self.changed.append("match")
        return pre + orelse


def desugar(tree):
    d = Desugar()
    tree = d.visit(tree)
    ast.fix_missing_locations(tree)
    return tree, d.changed
