"""E7 -- resource typestate over the CFG.

Producers: calls whose result is an open stream or an object wrapping one.
For every producer call site, on every CFG path from the call to every exit of
the enclosing function (normal and exceptional) the value must be
  (a) the context expression of a `with` (closed by the with-exit on all exits),
  (b) closed by `x.close()` (typically in a `finally`),
  (c) returned, or wrapped into a producer call's result that is itself tracked
      (transfer of ownership).
The analysis is a may-be-open forward dataflow on the CFG of cfg.py: a fact is
(variable, producer site); an exit reached with a live fact is a leak and the
report carries a path.
"""
import ast

from . import cfg as cfgmod
from .model import dotted, src, walk_shallow

SEED_EXTERNAL = {
    "urllib.request.urlopen", "urllib.parse.urlopen", "io.StringIO",
    "io.BytesIO", "builtins.open", "io.open", "os.fdopen", "codecs.open",
}


class Producers:
    """Discovers producer functions by resolution: seeds are the external
    stream constructors; a repository function is a producer when some return
    statement returns a producer call's result (directly or through a local);
    a repository class is a wrapper when its constructor stores a parameter
    into a field that its `close` method closes."""

    def __init__(self, program):
        self.P = program
        self.m = program.model
        self.wrappers = {}   # class qual -> index of wrapped ctor parameter
        self.producers = set()  # fn qualnames returning an open resource
        self._find_wrappers()
        self._fixpoint()

    def _find_wrappers(self):
        for cq, c in self.m.classes.items():
            close = c.methods.get("close")
            init = c.methods.get("__init__")
            if close is None or init is None:
                continue
            closed_fields = set()
            selfn = close.params[0]
            for n in ast.walk(close.node):
                if isinstance(n, ast.Call) and isinstance(n.func, ast.Attribute) \
                        and n.func.attr == "close":
                    v = n.func.value
                    if isinstance(v, ast.Attribute) and isinstance(
                            v.value, ast.Name) and v.value.id == selfn:
                        closed_fields.add(v.attr)
            if not closed_fields:
                continue
            iself = init.params[0]
            for n in ast.walk(init.node):
                if isinstance(n, ast.Assign) and isinstance(n.value, ast.Name) \
                        and n.value.id in init.params:
                    for t in n.targets:
                        if isinstance(t, ast.Attribute) and isinstance(
                                t.value, ast.Name) and t.value.id == iself \
                                and t.attr in closed_fields:
                            self.wrappers[cq] = init.params.index(
                                n.value.id) - 1

    def is_producer_call(self, fi, call):
        """Returns None or a dict describing the producer call."""
        cs = self.P.resolve_call(fi, call)
        for c in cs:
            if c.kind == "external" and c.name in SEED_EXTERNAL:
                return {"what": c.name, "wraps": None}
            if c.kind == "repo":
                if c.fn.qualname in self.producers:
                    return {"what": c.fn.qualname, "wraps": None}
                if c.how == "ctor" and c.fn.cls is not None:
                    for k in self.m.mro(c.fn.cls.qualname):
                        if k in self.wrappers:
                            return {"what": k, "wraps": self.wrappers[k]}
        return None

    # ---------------------------------------------------------- consumers
    BOUND = ("cha", "method", "bound", "byname", "field", "ctor", "super")

    def consumes(self, fn, pname):
        """Does repository function `fn` take ownership of the resource passed
        as parameter `pname`: on every CFG path to its *normal* exit the
        parameter has been closed, entered by a `with`, returned, wrapped into
        a tracked producer result, or handed to another consumer.  (Paths on
        which `fn` raises before the hand-over are not part of the summary:
        the wrapped result is itself a producer site of `fn`, analysed on all
        exits there.)"""
        key = (fn.qualname, pname)
        memo = self.__dict__.setdefault("_consumes", {})
        if key in memo:
            return memo[key]
        memo[key] = False          # recursion: assume not
        if pname not in fn.params:
            return False
        try:
            _, leaks, g, _ = analyse_function(fn, self.P, self,
                                              initial=(pname,))
        except Exception:
            return False
        # (a function that never returns normally consumes nothing)
        ok = g.exit.id in g.reachable and not any(
            lk["site_line"] == 0 and lk["exit"] == "normal" for lk in leaks)
        def entering_its_own_with(lk):
            # the exceptional edge of `with p:` / `with closing(p):` itself
            # (entering cannot leave p open: nothing has been done with it)
            if len(lk.get("path", ())) != 1 or not str(
                    lk["path"][0]).endswith(":with_enter"):
                return False
            line = int(str(lk["path"][0])[1:].split(":")[0])
            for n in ast.walk(fn.node):
                if isinstance(n, ast.With) and n.lineno == line:
                    for it in n.items:
                        ce = it.context_expr
                        if (isinstance(ce, ast.Name) and ce.id == pname) or (
                                isinstance(ce, ast.Call) and len(ce.args) == 1
                                and isinstance(ce.args[0], ast.Name)
                                and ce.args[0].id == pname):
                            return True
            return False
        if ok and any(lk["site_line"] == 0 and lk["exit"] != "normal"
                      and not entering_its_own_with(lk)
                      for lk in leaks) and self._closes_directly(fn, pname):
            # a callee that closes the resource itself (close() / with) is
            # the resource's last owner: it must do so however it ends.  One
            # that closes on its normal path only leaves the resource open
            # when it raises -- it does not take ownership, the caller stays
            # responsible (and is reported if it has no with / finally)
            ok = False
        memo[key] = ok
        return ok

    @staticmethod
    def _closes_directly(fn, pname):
        for n in ast.walk(fn.node):
            if isinstance(n, ast.Call) and isinstance(n.func, ast.Attribute) \
                    and n.func.attr == "close" and isinstance(
                        n.func.value, ast.Name) and n.func.value.id == pname:
                return True
            if isinstance(n, ast.With):
                for it in n.items:
                    ce = it.context_expr
                    if isinstance(ce, ast.Name) and ce.id == pname:
                        return True
                    if isinstance(ce, ast.Call) and len(ce.args) == 1 \
                            and isinstance(ce.args[0], ast.Name) \
                            and ce.args[0].id == pname:
                        return True
        return False

    def consumed_args(self, fi, call):
        """Indices of the positional arguments of `call` whose ownership the
        callee takes (all resolved callees are repository functions that
        consume the corresponding parameter)."""
        if not call.args or any(isinstance(a, ast.Starred)
                                for a in call.args):
            return set()
        cs = self.P.resolve_call(fi, call)
        if not cs or any(c.kind != "repo" for c in cs):
            return set()
        out = None
        for c in cs:
            ps = list(c.fn.params)
            if c.fn.cls is not None and c.how in self.BOUND and ps:
                ps = ps[1:]
            mine = set()
            for i, a in enumerate(call.args):
                if i < len(ps) and self.consumes(c.fn, ps[i]):
                    mine.add(i)
            out = mine if out is None else (out & mine)
        return out or set()

    def _fixpoint(self):
        changed = True
        while changed:
            changed = False
            for fi in self.m.functions.values():
                if fi.qualname in self.producers:
                    continue
                if self._returns_resource(fi):
                    self.producers.add(fi.qualname)
                    changed = True

    def _returns_resource(self, fi):
        prod_vars = set()
        for n in walk_shallow(fi.node):
            if isinstance(n, ast.Assign) and isinstance(n.value, ast.Call) \
                    and self.is_producer_call(fi, n.value):
                for t in n.targets:
                    if isinstance(t, ast.Name):
                        prod_vars.add(t.id)
        for n in walk_shallow(fi.node):
            if isinstance(n, ast.Return) and n.value is not None:
                v = n.value
                if isinstance(v, ast.Call) and self.is_producer_call(fi, v):
                    return True
                if isinstance(v, ast.Name) and v.id in prod_vars:
                    return True
        return False


def analyse_function(fi, program, producers, initial=()):
    """Returns (sites, leaks, cfg).  sites: list of dicts (one per producer
    call site); leaks: list of dicts with a witness path."""
    P = program

    def may_raise(node):
        if isinstance(node, ast.stmt) or isinstance(node, ast.expr):
            pass
        for n in ast.walk(node):
            if isinstance(n, (ast.Raise, ast.Assert, ast.Subscript)):
                return True
            if isinstance(n, ast.Call):
                cs = P.resolve_call(fi, n)
                tot = bool(cs)
                for c in cs:
                    if not (c.kind == "repo" and not c.ambiguous
                            and P.is_total(c.fn)) and not (
                            c.kind == "external"
                            and c.name == "builtins.object"):
                        tot = False
                if not tot:
                    return True
                if not all(not may_raise(a) for a in n.args):
                    return True
        return False

    def is_noreturn(call):
        from .excflow import is_noreturn_call
        return is_noreturn_call(P, fi, call)

    g = cfgmod.CFG(fi.node, may_raise=may_raise, is_noreturn=is_noreturn)

    sites = []
    site_by_call = {}
    for n in walk_shallow(fi.node):
        if isinstance(n, ast.Call):
            d = producers.is_producer_call(fi, n)
            if d:
                d = dict(d, call=n, lineno=n.lineno, text=src(n))
                site_by_call[id(n)] = d
                sites.append(d)

    # transfer function --------------------------------------------------
    def top_call(e):
        return e if isinstance(e, ast.Call) and id(e) in site_by_call else None

    def wrapped_vars(call):
        """variables whose ownership moves into the result of producer `call`."""
        d = site_by_call.get(id(call))
        out = set()
        if d and d["wraps"] is not None:
            i = d["wraps"]
            if i < len(call.args) and isinstance(call.args[i], ast.Name):
                out.add(call.args[i].id)
        elif d:
            # a producer function handed a tracked stream wraps it when its
            # own body wraps that parameter; conservatively: any tracked Name
            # argument of a producer call moves into the result.
            for a in call.args:
                if isinstance(a, ast.Name):
                    out.add(a.id)
        return out

    def flow(node, facts, label):
        """facts: frozenset of (var, site lineno, site text)."""
        facts = set(facts)
        a = node.ast

        def kill(var):
            for f in list(facts):
                if f[0] == var:
                    facts.discard(f)

        def gen(var, call):
            d = site_by_call[id(call)]
            facts.add((var, d["lineno"], d["text"]))

        # a producer call in any position other than the ones the transfer
        # function follows (with-header, right-hand side of an assignment,
        # returned value, expression statement, argument of a wrapping
        # producer): the resource goes where this analysis cannot see it
        # being closed (an argument of some other call, an element of a
        # display, ...) -- tracked under a name nothing can kill
        if label != "exc" and a is not None and node.kind in (
                "stmt", "test", "for_iter", "with_enter"):
            if node.kind == "with_enter":
                root, tops = a.context_expr, [a.context_expr]
            elif node.kind == "stmt" and isinstance(
                    a, (ast.Assign, ast.Return, ast.Expr, ast.AnnAssign)):
                root, tops = a, [a.value]
            elif node.kind == "for_iter":
                root, tops = getattr(a, "iter", a), []
            elif node.kind == "test":
                root = a.test if isinstance(a, (ast.If, ast.While)) else a
                tops = []
            else:
                root, tops = a, []
            if not isinstance(root, (ast.FunctionDef, ast.ClassDef,
                                     ast.AsyncFunctionDef)):
                ok = {id(t) for t in tops if t is not None}
                for n in ast.walk(root):
                    if isinstance(n, ast.Call) and id(n) not in site_by_call:
                        # arguments a consuming callee takes ownership of
                        for i in producers.consumed_args(fi, n):
                            ok.add(id(n.args[i]))
                for n in ast.walk(root):
                    if isinstance(n, ast.Call) and id(n) in site_by_call:
                        # arguments of a producer call move into its result
                        for arg in list(n.args) + [k.value
                                                   for k in n.keywords]:
                            ok.add(id(arg))
                for n in ast.walk(root):
                    if isinstance(n, ast.Call) and id(n) in site_by_call \
                            and id(n) not in ok:
                        gen("<passed on at line %d>" % n.lineno, n)
        if node.kind == "with_enter":
            e = a.context_expr
            pc = top_call(e)
            if label == "exc":
                return frozenset(facts)
            if pc is not None:
                for v in wrapped_vars(pc):
                    kill(v)
                gen("<with@%d>" % node.lineno, pc)
            elif isinstance(e, ast.Name):
                pass  # already tracked under its own name; with-exit closes it
            return frozenset(facts)
        if node.kind == "with_exit":
            e = a.context_expr
            kill("<with@%d>" % node.lineno)
            if isinstance(e, ast.Name):
                kill(e.id)
            if isinstance(e, ast.Call):  # contextlib.closing(x)
                for arg in e.args:
                    if isinstance(arg, ast.Name):
                        kill(arg.id)
            return frozenset(facts)
        if node.kind != "stmt" or a is None:
            return frozenset(facts)
        # x.close()
        for n in ast.walk(a) if not isinstance(a, (ast.FunctionDef,
                                                   ast.ClassDef)) else ():
            if isinstance(n, ast.Call) and isinstance(n.func, ast.Attribute) \
                    and n.func.attr == "close" \
                    and isinstance(n.func.value, ast.Name):
                kill(n.func.value.id)
            elif isinstance(n, ast.Call) and facts \
                    and any(isinstance(x, ast.Name)
                            and any(f[0] == x.id for f in facts)
                            for x in n.args):
                # a tracked variable handed to a consuming callee
                for i in producers.consumed_args(fi, n):
                    if isinstance(n.args[i], ast.Name):
                        kill(n.args[i].id)
        if label == "exc":
            return frozenset(facts)
        if isinstance(a, ast.Assign):
            pc = top_call(a.value)
            if pc is not None:
                for v in wrapped_vars(pc):
                    kill(v)
            for t in a.targets:
                if isinstance(t, ast.Name):
                    if pc is not None:
                        # rebinding a live variable would lose it: keep the old
                        # fact under a shadow name so the leak is reported
                        for f in list(facts):
                            if f[0] == t.id:
                                facts.discard(f)
                                facts.add(("<overwritten %s>" % t.id,) + f[1:])
                        gen(t.id, pc)
                    else:
                        for f in list(facts):
                            if f[0] == t.id:
                                facts.discard(f)
                                facts.add(("<overwritten %s>" % t.id,) + f[1:])
                elif pc is not None:
                    # stored straight into an attribute / container
                    gen("<stored %s>" % src(t), pc)
        elif isinstance(a, ast.Return) and a.value is not None:
            pc = top_call(a.value)
            if pc is not None:
                for v in wrapped_vars(pc):
                    kill(v)
            elif isinstance(a.value, ast.Name):
                kill(a.value.id)
        elif isinstance(a, ast.Expr):
            pc = top_call(a.value)
            if pc is not None:
                for v in wrapped_vars(pc):
                    kill(v)
                gen("<discarded@%d>" % node.lineno, pc)
        return frozenset(facts)

    # worklist --------------------------------------------------------------
    IN = {g.entry.id: frozenset((p, 0, "<parameter %s>" % p)
                                for p in initial)}
    origin = {}   # (node id, fact) -> (pred node id, pred fact) for witness
    todo = [g.entry]
    while todo:
        n = todo.pop()
        cur = IN.get(n.id, frozenset())
        for label, s in n.succ:
            out = flow(n, cur, label)
            old = IN.get(s.id)
            new = out if old is None else (old | out)
            if new != old:
                for f in new - (old or frozenset()):
                    origin.setdefault((s.id, f), n.id)
                IN[s.id] = new
                todo.append(s)

    leaks = []
    for ex in (g.exit, g.raise_exit):
        for f in sorted(IN.get(ex.id, ())):
            # witness path: walk origins back
            path = []
            nid, guard = ex.id, 0
            while nid is not None and guard < 200:
                guard += 1
                node = g.nodes[nid]
                if node.lineno:
                    path.append("L%d:%s" % (node.lineno, node.kind))
                nid = origin.get((nid, f))
                if nid is None:
                    break
                # follow any fact with same site upstream
                node = g.nodes[nid]
                # the fact may have been renamed upstream; stop at the site
                if node.lineno == f[1] and node.kind in ("stmt", "with_enter"):
                    path.append("L%d:produced" % node.lineno)
                    break
            leaks.append({"var": f[0], "site_line": f[1], "site": f[2],
                          "exit": "normal" if ex is g.exit else "exceptional",
                          "path": list(reversed(path))})
    n_paths_exits = sum(1 for ex in (g.exit, g.raise_exit)
                        if ex.id in g.reachable)
    return sites, leaks, g, n_paths_exits
