"""E6 -- ownership / who-may-write for schema-owned state.

Mutator methods are discovered, not listed: a method of a schema class is a
mutator when its body stores into a field of `self` (attribute store, item or
slice store on self.<field>, or append/extend/insert/update/setdefault/pop/
clear/remove/sort/reverse on self.<field>).

Receiver provenance at a call site of a mutator method:
  fresh               constructed in this activation (constructor call, or a
                      repository factory that returns a constructor result,
                      copy.copy)
  under-construction  the builder's own schema object (self._schema and what
                      the builder pushed on its own stack)
  looked-up           obtained from a type table (gettype / subscript of a
                      table that a derived schema shares with its base)
  param / other       anything else
"""
import ast

from .model import dotted, src, walk_shallow

MUTATING_METHODS = {"append", "extend", "insert", "update", "setdefault",
                    "pop", "popitem", "clear", "remove", "sort", "reverse",
                    "add", "discard"}


def field_writes(fi):
    """Fields of self written by method fi: list of (field, node, how)."""
    if fi.cls is None or not fi.params:
        return []
    selfn = fi.params[0]
    out = []

    def self_field(e):
        if isinstance(e, ast.Attribute) and isinstance(e.value, ast.Name) \
                and e.value.id == selfn:
            return e.attr
        return None
    for n in walk_shallow(fi.node):
        if isinstance(n, (ast.Assign, ast.AugAssign, ast.AnnAssign)):
            targets = n.targets if isinstance(n, ast.Assign) else [n.target]
            for t in targets:
                for tt in (t.elts if isinstance(t, ast.Tuple) else [t]):
                    f = self_field(tt)
                    if f:
                        out.append((f, n, "rebind"))
                    elif isinstance(tt, ast.Subscript):
                        f = self_field(tt.value)
                        if f:
                            out.append((f, n, "item-store"))
        elif isinstance(n, ast.Delete):
            for t in n.targets:
                if isinstance(t, ast.Subscript):
                    f = self_field(t.value)
                    if f:
                        out.append((f, n, "del-item"))
        elif isinstance(n, ast.Call) and isinstance(n.func, ast.Attribute) \
                and n.func.attr in MUTATING_METHODS:
            f = self_field(n.func.value)
            if f:
                out.append((f, n, n.func.attr))
            elif isinstance(n.func.value, ast.Subscript):
                f = self_field(n.func.value.value)
                if f:
                    out.append((f, n, n.func.attr + " on element"))
    return out


def mutators(model, class_quals, skip_init=True):
    """{function qualname: [(field, how)]} for the given classes."""
    out = {}
    for cq in class_quals:
        c = model.classes.get(cq)
        if c is None:
            continue
        for name, fi in c.methods.items():
            if skip_init and name == "__init__":
                continue
            w = field_writes(fi)
            if w:
                out[fi.qualname] = sorted({(f, how) for f, _, how in w})
    return out


def provenance(ctx, fi, expr, depth=5, _follow=2):
    """Set of provenance classes of a receiver expression."""
    m, P, F = ctx.model, ctx.program, ctx.flow
    kinds = set()
    for o in F.origins(fi, expr, depth=depth):
        n = o.node
        if o.kind == "call" and isinstance(n, ast.Call):
            d = dotted(n.func) or src(n.func)
            r = m.resolve(o.fi.module, n.func) if o.fi else None
            if r in m.classes or d in ("copy.copy", "copy.deepcopy"):
                kinds.add("fresh")
                continue
            last = d.split(".")[-1]
            if last in ("gettype", "getsubtype", "getinfo", "getsectioninfo"):
                kinds.add("looked-up")
                continue
            if last in ("pop",):
                kinds.add("under-construction")
                continue
            if r in m.functions and _follow > 0:
                # the search depth ran out at a call of a repository
                # function: what it returns, with a fresh budget
                rf = m.functions[r]
                rets = [x.value for x in walk_shallow(rf.node)
                        if isinstance(x, ast.Return) and x.value is not None]
                if rets:
                    for rv in rets:
                        kinds |= provenance(ctx, rf, rv, depth=3,
                                            _follow=_follow - 1)
                    continue
            kinds.add("other:" + d)
        elif o.kind == "attr":
            t = src(n)
            if t.endswith("._schema") or t.endswith(".schema") \
                    or t.endswith("._base_schema") or t.endswith("._parent"):
                kinds.add("under-construction")
            else:
                kinds.add("other:" + t)
        elif o.kind == "subscript":
            t = src(n)
            if "_stack" in t or "_prefixes" in t:
                kinds.add("under-construction")
            elif "_types" in t or "_subtypes" in t or "_keymap" in t \
                    or "_children" in t or "_attrmap" in t:
                kinds.add("looked-up")
            else:
                kinds.add("other:" + t)
        elif o.kind == "param":
            kinds.add("param")
        elif o.kind == "const":
            continue
        elif o.kind == "display":
            kinds.add("fresh")
        else:
            kinds.add("other:" + o.kind)
    return kinds


def transitive_mutators(model, program, class_quals):
    """Mutators plus methods of the same classes that call a mutator on self."""
    mut = dict(mutators(model, class_quals))
    changed = True
    while changed:
        changed = False
        for cq in class_quals:
            c = model.classes.get(cq)
            if c is None:
                continue
            for name, fi in c.methods.items():
                if fi.qualname in mut or name == "__init__" or not fi.params:
                    continue
                for call, cs in program.calls_in(fi):
                    f = call.func
                    if isinstance(f, ast.Attribute) and isinstance(
                            f.value, ast.Name) and f.value.id == fi.params[0]:
                        hit = [x.fn.qualname for x in cs if x.kind == "repo"
                               and x.fn.qualname in mut]
                        if hit:
                            mut[fi.qualname] = [("via", hit[0])]
                            changed = True
                            break
    return mut


def nearest_definition(fi, call, name):
    """The value last assigned to `name` before `call` in the same block (a
    trivially dominating definition), or None."""
    st = call
    while st is not None and not isinstance(st, ast.stmt):
        st = getattr(st, "_parent", None)
    while st is not None and st is not fi.node:
        parent = getattr(st, "_parent", None)
        for field in ("body", "orelse", "finalbody"):
            block = getattr(parent, field, None)
            if isinstance(block, list) and st in block:
                for prev in reversed(block[:block.index(st)]):
                    if isinstance(prev, ast.Assign):
                        for t in prev.targets:
                            if isinstance(t, ast.Name) and t.id == name:
                                return prev.value
                    # a compound statement that may rebind the name stops
                    # the search
                    if any(isinstance(x, ast.Name) and x.id == name
                           and isinstance(x.ctx, ast.Store)
                           for x in ast.walk(prev)):
                        return None
        st = parent
    return None


def receiver_provenance(ctx, fi, call):
    recv = call.func.value
    if isinstance(recv, ast.Name):
        v = nearest_definition(fi, call, recv.id)
        if v is not None:
            return provenance(ctx, fi, v)
    return provenance(ctx, fi, recv)
