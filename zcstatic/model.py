"""E0 -- source model and resolver for the ZConfig repository.

Parses every non-test module under <root>/src/ZConfig with `ast`, builds the
import tables, the class table (bases, C3 MRO, methods, class attributes,
subclass closure) and a constant folder.  Nothing of the repository is ever
imported or executed.
"""
import ast
import builtins
import os

from .report import AnalysisError

MIN_MODULES = 26  # confirmed by hand on the pinned tree; fewer => exit 2


class Unfoldable(Exception):
    pass


class Module:
    def __init__(self, name, path, source):
        self.name = name
        self.path = path
        self.source = source
        self.tree = ast.parse(source, filename=path)
        from .desugar import desugar
        self.tree, self.desugared = desugar(self.tree)
        self.imports = {}      # local name -> dotted target
        self.assigns = {}      # module-level name -> [value expr, ...]
        self.functions = {}    # name -> FunctionInfo
        self.classes = {}      # name -> ClassInfo
        for n in ast.walk(self.tree):
            for c in ast.iter_child_nodes(n):
                c._parent = n
        self.tree._parent = None


class FunctionInfo:
    def __init__(self, qualname, node, module, cls=None, outer=None):
        self.qualname = qualname
        self.node = node
        self.module = module
        self.cls = cls
        self.outer = outer
        self.name = node.name

    @property
    def params(self):
        a = self.node.args
        return [x.arg for x in a.posonlyargs + a.args]

    def loc(self, node=None):
        node = node or self.node
        return "%s:%d" % (self.module.path, getattr(node, "lineno", 0))

    def __repr__(self):
        return "<fn %s>" % self.qualname


class ClassInfo:
    def __init__(self, qualname, node, module):
        self.qualname = qualname
        self.node = node
        self.module = module
        self.name = node.name
        self.base_exprs = node.bases
        self.bases = []        # resolved qualnames (repo) or "builtins.X" / dotted
        self.methods = {}      # name -> FunctionInfo
        self.attrs = {}        # class-level name -> [value expr]
        self.fields = {}       # self.x -> [(value expr, FunctionInfo)]

    def __repr__(self):
        return "<class %s>" % self.qualname


def dotted(expr):
    """a.b.c -> 'a.b.c' or None."""
    parts = []
    while isinstance(expr, ast.Attribute):
        parts.append(expr.attr)
        expr = expr.value
    if isinstance(expr, ast.Name):
        parts.append(expr.id)
        return ".".join(reversed(parts))
    return None


def src(node):
    """Normalised source text of a node (used for keys and messages)."""
    try:
        return ast.unparse(node)
    except Exception:  # pragma: no cover
        return "<%s>" % type(node).__name__


def _is_private(n):
    return n.startswith("_") and not n.startswith("__")


def private_members(tree):
    """{'' (module) | class name: {'functions'|'methods': [...],
    'globals'|'fields': [...]}}: private names in definition order."""
    out = {"": {"functions": [], "globals": [], "arity": {}}}
    for st in tree.body:
        if isinstance(st, (ast.FunctionDef, ast.AsyncFunctionDef)) \
                and _is_private(st.name):
            out[""]["functions"].append(st.name)
            out[""]["arity"][st.name] = len(st.args.args)
        elif isinstance(st, ast.Assign):
            for t in st.targets:
                if isinstance(t, ast.Name) and _is_private(t.id) \
                        and t.id not in out[""]["globals"]:
                    out[""]["globals"].append(t.id)
        elif isinstance(st, ast.ClassDef):
            d = {"methods": [], "fields": [], "arity": {}, "callers": {},
                 "consts": []}
            for b in st.body:
                if isinstance(b, (ast.FunctionDef, ast.AsyncFunctionDef)):
                    for n in ast.walk(b):
                        if isinstance(n, ast.Call) and isinstance(
                                n.func, ast.Attribute) and _is_private(
                                    n.func.attr) and isinstance(
                                    n.func.value, ast.Name):
                            d["callers"].setdefault(n.func.attr, [])
                            if b.name not in d["callers"][n.func.attr]:
                                d["callers"][n.func.attr].append(b.name)
            for b in st.body:
                if isinstance(b, (ast.FunctionDef, ast.AsyncFunctionDef)):
                    if _is_private(b.name):
                        d["methods"].append(b.name)
                        d["arity"][b.name] = len(b.args.args)
                    selfn = b.args.args[0].arg if b.args.args else None
                    for n in ast.walk(b):
                        tgts = []
                        if isinstance(n, ast.Assign):
                            tgts = n.targets
                        elif isinstance(n, (ast.AugAssign, ast.AnnAssign)):
                            tgts = [n.target]
                        for t in tgts:
                            for x in ast.walk(t):
                                if isinstance(x, ast.Attribute) \
                                        and isinstance(x.value, ast.Name) \
                                        and x.value.id == selfn \
                                        and _is_private(x.attr) \
                                        and x.attr not in d["fields"]:
                                    d["fields"].append(x.attr)
                elif isinstance(b, ast.Assign):
                    for t in b.targets:
                        if isinstance(t, ast.Name) and _is_private(t.id) \
                                and t.id not in d["consts"]:
                            d["consts"].append(t.id)
                        if isinstance(t, ast.Name) and _is_private(t.id) \
                                and t.id not in d["fields"]:
                            d["fields"].append(t.id)
            out[st.name] = d
    return out


class Model:
    def __init__(self, root="/repo", normalise=True):
        self.root = os.path.abspath(root)
        self.renamed = {}      # live private name -> the name the references
                               # are written against
        self.pkgdir = os.path.join(self.root, "src", "ZConfig")
        if not os.path.isdir(self.pkgdir):
            raise AnalysisError("no package directory %s" % self.pkgdir)
        self.modules = {}
        self.classes = {}
        self.functions = {}
        self._load()
        if normalise:
            self._inline_context_managers()
            self._relocate_class_constants()
            self._alpha_normalise()
        self._index()
        self._mro_cache = {}
        if normalise:
            self._attribute_setup_helpers()

    def _attribute_setup_helpers(self):
        """A method split into itself plus a private helper that only it
        calls (`__init__` + `self._setup(...)`, `importSchemaComponent` +
        `self._extensible_schema()`) still does what it did: field writes of
        such a helper (one the references and rules do not know) are
        attributed to its single caller, and `owner(fi)` names that caller."""
        from .absint import spec_vocabulary
        vocab = spec_vocabulary()
        self.helper_owner = {}
        for c in self.classes.values():
            for name, h in list(c.methods.items()):
                if not _is_private(name) or name in vocab:
                    continue
                callers = set()
                for mn, mf in c.methods.items():
                    if mf is h:
                        continue
                    for n in ast.walk(mf.node):
                        if isinstance(n, ast.Call) and isinstance(
                                n.func, ast.Attribute) and n.func.attr == name:
                            callers.add(mn)
                if len(callers) != 1:
                    continue
                self.helper_owner[h.qualname] = c.methods[callers.pop()]

    def owner(self, fi):
        """The function a helper's work is attributed to (itself for
        anything that is not a single-caller private helper)."""
        seen = set()
        while fi is not None and fi.qualname in getattr(
                self, "helper_owner", {}) and fi.qualname not in seen:
            seen.add(fi.qualname)
            fi = self.helper_owner[fi.qualname]
        return fi

    # --------------------------------------------- private context managers
    def _inline_context_managers(self):
        """`with _helper(a, b): BODY` for a private generator helper decorated
        with contextlib.contextmanager that neither the references nor the
        rules know is what the helper's text says: its statements with the
        single `yield` replaced by BODY (parameters bound to fresh locals).
        Rewriting the syntax tree that way lets every engine -- CFG, escape
        sets, typestate, interpreter -- see the try/except/finally the helper
        wraps around the body.  Only module-level functions and methods of
        the enclosing class called on its receiver are expanded, only with
        positional / keyword arguments that bind plainly, and only when the
        helper has exactly one `yield`, as a statement, and no `return`."""
        import copy
        from .absint import spec_vocabulary
        vocab = spec_vocabulary()
        counter = [0]

        def is_cm(fn):
            for d in fn.decorator_list:
                txt = ast.unparse(d)
                if txt.endswith("contextmanager"):
                    return True
            return False

        def yields(fn):
            ys = [n for n in ast.walk(fn) if isinstance(n, (ast.Yield,
                                                            ast.YieldFrom))]
            return ys

        for mod in self.modules.values():
            funcs = {st.name: st for st in mod.tree.body
                     if isinstance(st, ast.FunctionDef) and is_cm(st)}
            meths = {}
            for st in mod.tree.body:
                if isinstance(st, ast.ClassDef):
                    for b in st.body:
                        if isinstance(b, ast.FunctionDef) and is_cm(b):
                            meths[(st.name, b.name)] = b
            if not funcs and not meths:
                continue
            changed = False
            for owner in [n for n in ast.walk(mod.tree)
                          if isinstance(n, (ast.FunctionDef,
                                            ast.AsyncFunctionDef))]:
                if is_cm(owner):
                    continue
                cls = getattr(owner, "_parent", None)
                cls = cls if isinstance(cls, ast.ClassDef) else None
                again = True
                while again:
                    again = False
                    for w in [n for n in ast.walk(owner)
                              if isinstance(n, ast.With)]:
                        if len(w.items) != 1:
                            # with a, b: -> with a: with b:
                            inner = ast.With(items=w.items[1:], body=w.body)
                            ast.copy_location(inner, w)
                            w.items = w.items[:1]
                            w.body = [inner]
                            again = True
                            break
                        it = w.items[0]
                        c = it.context_expr
                        if not isinstance(c, ast.Call):
                            continue
                        helper = recv = None
                        if isinstance(c.func, ast.Name) \
                                and c.func.id in funcs:
                            helper = funcs[c.func.id]
                        elif isinstance(c.func, ast.Attribute) \
                                and isinstance(c.func.value, ast.Name) \
                                and cls is not None and owner.args.args \
                                and c.func.value.id == owner.args.args[0].arg \
                                and (cls.name, c.func.attr) in meths:
                            helper = meths[(cls.name, c.func.attr)]
                            recv = c.func.value
                        if helper is None or helper.name in vocab \
                                or not helper.name.startswith("_"):
                            continue
                        ys = yields(helper)
                        if len(ys) != 1 or isinstance(ys[0], ast.YieldFrom) \
                                or not isinstance(getattr(ys[0], "_parent",
                                                          None), ast.Expr) \
                                or any(isinstance(n, ast.Return)
                                       for n in ast.walk(helper)) \
                                or helper.args.vararg or helper.args.kwarg \
                                or helper.args.kwonlyargs \
                                or any(isinstance(a, ast.Starred)
                                       for a in c.args) \
                                or any(k.arg is None for k in c.keywords):
                            continue
                        params = [a.arg for a in helper.args.args]
                        vals = list(c.args)
                        if recv is not None:
                            vals = [recv] + vals
                        bind = {}
                        kw = {k.arg: k.value for k in c.keywords}
                        nd = len(helper.args.defaults)
                        okb = True
                        for i, pn in enumerate(params):
                            if i < len(vals):
                                bind[pn] = vals[i]
                            elif pn in kw:
                                bind[pn] = kw[pn]
                            elif i >= len(params) - nd:
                                bind[pn] = helper.args.defaults[
                                    i - (len(params) - nd)]
                            else:
                                okb = False
                        if not okb or len(vals) > len(params):
                            continue
                        counter[0] += 1
                        tag = "__cm%d_" % counter[0]
                        pre = []
                        ren = {}
                        direct = {}
                        stored_in_helper = {
                            n.id for n in ast.walk(helper)
                            if isinstance(n, ast.Name)
                            and isinstance(n.ctx, ast.Store)}
                        stored_in_body = {
                            n.id for st in w.body for n in ast.walk(st)
                            if isinstance(n, ast.Name)
                            and isinstance(n.ctx, (ast.Store, ast.Del))}
                        for pn in params:
                            v = bind[pn]
                            if recv is not None and pn == params[0]:
                                ren[pn] = recv.id      # the same receiver
                                continue
                            simple = isinstance(v, ast.Constant) or (
                                isinstance(v, ast.Name)
                                and v.id not in stored_in_body) or (
                                isinstance(v, ast.Attribute)
                                and isinstance(v.value, ast.Name)
                                and v.value.id not in stored_in_body)
                            if simple and pn not in stored_in_helper:
                                # the argument expression itself (it cannot
                                # change between the call and its uses)
                                direct[pn] = v
                                continue
                            ren[pn] = tag + pn
                            asg = ast.Assign(
                                targets=[ast.Name(id=tag + pn,
                                                  ctx=ast.Store())],
                                value=copy.deepcopy(v))
                            ast.copy_location(asg, w)
                            pre.append(asg)
                        body = copy.deepcopy(helper.body)
                        holder = ast.Module(body=body, type_ignores=[])
                        # locals of the helper get the tag too
                        local = set(params)
                        for n in ast.walk(holder):
                            if isinstance(n, ast.Name) and isinstance(
                                    n.ctx, ast.Store):
                                local.add(n.id)
                            elif isinstance(n, ast.ExceptHandler) and n.name:
                                local.add(n.name)
                        for n in list(ast.walk(holder)):
                            if isinstance(n, ast.Name) and n.id in direct:
                                repl = copy.deepcopy(direct[n.id])
                                ast.copy_location(repl, n)
                                n.__class__ = repl.__class__
                                n.__dict__.clear()
                                n.__dict__.update(repl.__dict__)
                            elif isinstance(n, ast.Name) and n.id in local:
                                n.id = ren.get(n.id, tag + n.id)
                            elif isinstance(n, ast.ExceptHandler) \
                                    and n.name in local:
                                n.name = tag + n.name
                        # replace the yield statement by the with body

                        def subst(stmts):
                            out = []
                            for st in stmts:
                                if isinstance(st, ast.Expr) and isinstance(
                                        st.value, ast.Yield):
                                    if it.optional_vars is not None:
                                        yv = st.value.value or ast.Constant(
                                            value=None)
                                        a2 = ast.Assign(
                                            targets=[it.optional_vars],
                                            value=yv)
                                        ast.copy_location(a2, w)
                                        out.append(a2)
                                    out.extend(w.body)
                                    continue
                                for fld in ("body", "orelse", "finalbody"):
                                    if isinstance(getattr(st, fld, None),
                                                  list):
                                        setattr(st, fld,
                                                subst(getattr(st, fld)))
                                if isinstance(st, ast.Try):
                                    for h in st.handlers:
                                        h.body = subst(h.body)
                                out.append(st)
                            return out
                        new = pre + subst(body)
                        if new and isinstance(new[len(pre)], ast.Expr) \
                                and isinstance(new[len(pre)].value,
                                               ast.Constant):
                            del new[len(pre)]       # the docstring
                        for st in new:
                            ast.fix_missing_locations(st)
                            for n in ast.walk(st):
                                if not hasattr(n, "lineno") or True:
                                    pass
                        par = w._parent
                        done = False
                        for fld in ("body", "orelse", "finalbody"):
                            lst = getattr(par, fld, None)
                            if isinstance(lst, list) and w in lst:
                                i = lst.index(w)
                                lst[i:i + 1] = new
                                done = True
                        if not done and isinstance(par, ast.Try):
                            for h in par.handlers:
                                if w in h.body:
                                    i = h.body.index(w)
                                    h.body[i:i + 1] = new
                                    done = True
                        if not done:
                            continue
                        for n in ast.walk(par):
                            for ch in ast.iter_child_nodes(n):
                                ch._parent = n
                        changed = True
                        again = True
                        self.renamed["%s.%s (context manager)"
                                     % (mod.name, helper.name)] = \
                            "expanded in " + owner.name
                        break
            if changed:
                # an expanded helper nothing refers to any more is dead code
                for name, h in list(funcs.items()) + [
                        (k[1], v) for k, v in meths.items()]:
                    used = any(
                        (isinstance(n, ast.Name) and n.id == name
                         and isinstance(n.ctx, ast.Load))
                        or (isinstance(n, ast.Attribute) and n.attr == name)
                        for n in ast.walk(mod.tree))
                    if not used and name.startswith("_") \
                            and name not in vocab:
                        par = h._parent
                        if h in getattr(par, "body", []):
                            par.body.remove(h)
                for n in ast.walk(mod.tree):
                    for ch in ast.iter_child_nodes(n):
                        ch._parent = n
                    if isinstance(n, (ast.stmt, ast.expr)) and not hasattr(
                            n, "lineno"):
                        n.lineno = 0
                        n.col_offset = 0
                        n.end_lineno = 0
                        n.end_col_offset = 0
                mod.tree._parent = None

    # ------------------------------------------- relocated class constants
    def _relocate_class_constants(self):
        """A private class-level constant moved out of its class to module
        level (`BaseParser._cdata_tags` -> `_CDATA_TAGS`) is moved back in the
        syntax trees, when that is unambiguous: the class no longer defines a
        private name the table lists, the module has exactly one new private
        global of the same name up to case and underscores that neither the
        table, the references nor the rules know, it is assigned once, and
        every use of it is inside a method (with a receiver parameter) or the
        body of that class or of a class of the same module derived from it.
        Otherwise nothing is touched and the rules report a vanished anchor."""
        import copy
        import json
        path = os.path.join(os.path.dirname(os.path.dirname(
            os.path.abspath(__file__))), "spec", "names.json")
        try:
            with open(path) as f:
                table = json.load(f)
        except OSError:
            return
        from .absint import spec_vocabulary
        vocab = spec_vocabulary()
        known = set()
        for d in table.values():
            for k, v in d.items():
                if k not in ("arity", "callers"):
                    known.update(v)

        def key(n):
            return n.replace("_", "").lower()
        for modname, mod in self.modules.items():
            live = private_members(mod.tree)
            want_globals = set(table.get(modname, {}).get("globals", []))
            classes = {st.name: st for st in mod.tree.body
                       if isinstance(st, ast.ClassDef)}
            for cname, cnode in classes.items():
                want = table.get(modname + "." + cname)
                if want is None:
                    continue
                have = set(live.get(cname, {}).get("fields", []))
                # class-level constants only (instance fields are not
                # candidates for a move to module level)
                gone = [f for f in want.get("consts", []) if f not in have]
                fresh = [g for g in live[""]["globals"]
                         if g not in want_globals and g not in vocab
                         and g not in known]
                pairs = []
                for fld in list(gone):
                    cands = [g for g in fresh if key(g) == key(fld)]
                    if len(cands) == 1:
                        pairs.append((fld, cands[0]))
                        gone.remove(fld)
                        fresh.remove(cands[0])
                if len(gone) == 1 and len(fresh) == 1:
                    # one constant vanished, one unknown global appeared
                    pairs.append((gone[0], fresh[0]))
                for fld, g in pairs:
                    # a constant some class still (re)defines, or instances
                    # assign, is looked up dynamically: moving it to module
                    # level changed what those see -- not undone here
                    redefined = False
                    for m2 in self.modules.values():
                        for n in ast.walk(m2.tree):
                            if isinstance(n, ast.Attribute) and n.attr == fld \
                                    and isinstance(n.ctx, (ast.Store,
                                                           ast.Del)):
                                redefined = True
                            elif isinstance(n, ast.ClassDef):
                                for b in n.body:
                                    if isinstance(b, ast.Assign) and any(
                                            isinstance(t, ast.Name)
                                            and t.id == fld
                                            for t in b.targets):
                                        redefined = True
                    if redefined:
                        continue
                    assigns = [st for st in mod.tree.body
                               if isinstance(st, ast.Assign) and any(
                                   isinstance(t, ast.Name) and t.id == g
                                   for t in st.targets)]
                    if len(assigns) != 1 or len(assigns[0].targets) != 1:
                        continue
                    # classes of this module derived from cname
                    family = {cname}
                    grew = True
                    while grew:
                        grew = False
                        for n2, c2 in classes.items():
                            if n2 not in family and any(
                                    isinstance(b, ast.Name) and b.id in family
                                    for b in c2.bases):
                                family.add(n2)
                                grew = True
                    uses, ok = [], True
                    for n in ast.walk(mod.tree):
                        if isinstance(n, ast.Name) and n.id == g \
                                and n is not assigns[0].targets[0]:
                            uses.append(n)
                    plan = []
                    for n in uses:
                        p = getattr(n, "_parent", None)
                        fn = cls = None
                        while p is not None:
                            if fn is None and cls is None and isinstance(
                                    p, (ast.FunctionDef,
                                        ast.AsyncFunctionDef)):
                                fn = p
                            if isinstance(p, ast.ClassDef):
                                cls = p
                                break
                            p = getattr(p, "_parent", None)
                        if cls is None or cls.name not in family \
                                or not isinstance(n.ctx, ast.Load):
                            ok = False
                            break
                        if fn is None:
                            plan.append((n, None, cls))
                        else:
                            decos = {getattr(d, "id", getattr(d, "attr", ""))
                                     for d in fn.decorator_list}
                            if "staticmethod" in decos or not fn.args.args \
                                    or getattr(fn, "_parent", None) \
                                    is not cls:
                                ok = False
                                break
                            plan.append((n, fn.args.args[0].arg, cls))
                    if not ok or not uses:
                        continue
                    # move the assignment into the class, first in its body
                    mod.tree.body.remove(assigns[0])
                    new = ast.Assign(
                        targets=[ast.Name(id=fld, ctx=ast.Store())],
                        value=assigns[0].value, lineno=assigns[0].lineno)
                    ast.copy_location(new, assigns[0])
                    ast.fix_missing_locations(new)
                    pos = 0
                    if cnode.body and isinstance(cnode.body[0], ast.Expr) \
                            and isinstance(getattr(cnode.body[0], "value",
                                                   None), ast.Constant):
                        pos = 1
                    cnode.body.insert(pos, new)
                    new._parent = cnode
                    for n, recv, cls in plan:
                        par = n._parent
                        if recv is not None:
                            repl = ast.Attribute(
                                value=ast.Name(id=recv, ctx=ast.Load()),
                                attr=fld, ctx=ast.Load())
                        elif cls is cnode:
                            repl = ast.Name(id=fld, ctx=ast.Load())
                        else:
                            repl = ast.Attribute(
                                value=ast.Name(id=cname, ctx=ast.Load()),
                                attr=fld, ctx=ast.Load())
                        ast.copy_location(repl, n)
                        ast.fix_missing_locations(repl)
                        repl._parent = par
                        for child in ast.iter_child_nodes(repl):
                            child._parent = repl
                        for fname, val in ast.iter_fields(par):
                            if val is n:
                                setattr(par, fname, repl)
                            elif isinstance(val, list):
                                for i, x in enumerate(val):
                                    if x is n:
                                        val[i] = repl
                    self.renamed["%s.%s" % (modname, g)] = \
                        "%s.%s (class constant)" % (cname, fld)

    # ------------------------------------------------------- alpha-renaming
    def _alpha_normalise(self):
        """Undo a consistent rename of private members.  spec/names.json
        lists, per class and module, the private names (by kind, in
        definition order) the references are written against.  Where the live
        code has the same number of members of a kind, the unchanged ones in
        the same places, and the changed ones are names that neither the
        table nor any reference or rule knows, the live names are mapped
        back in the syntax trees (every attribute access and definition of
        that name).  Anything else (members added, removed or reordered) is
        left alone: the rules then report a vanished anchor."""
        import json
        path = os.path.join(os.path.dirname(os.path.dirname(
            os.path.abspath(__file__))), "spec", "names.json")
        try:
            with open(path) as f:
                table = json.load(f)
        except OSError:
            return
        from .absint import spec_vocabulary
        vocab = spec_vocabulary()
        known = set()
        for d in table.values():
            for v in d.values():
                known.update(v)
        scoped = {}    # (module, class) -> renames applied inside it only
        amap = {}      # attribute / method renames (global)
        gmap = {}      # module name -> {global or function rename}
        for modname, mod in self.modules.items():
            live = private_members(mod.tree)
            for cname, kinds in live.items():
                want = table.get(modname + ("." + cname if cname else ""))
                if want is None:
                    continue
                for kind, names in kinds.items():
                    if kind in ("arity", "callers", "consts"):
                        continue
                    old = want.get(kind, [])
                    if old == names:
                        continue
                    if len(old) != len(names) and kind in ("methods",
                                                           "functions"):
                        # helpers were added or removed as well: a vanished
                        # function is matched with the one unknown function
                        # of the same arity, if there is exactly one
                        gone = [o for o in old if o not in names]
                        fresh = [n for n in names if n not in old
                                 and n not in vocab and n not in known]
                        la, oa = kinds.get("arity", {}), want.get("arity", {})
                        lc, oc = kinds.get("callers", {}), want.get(
                            "callers", {})
                        for o in gone:
                            cands = [n for n in fresh
                                     if la.get(n) == oa.get(o)
                                     and (not cname or sorted(lc.get(n, []))
                                          == sorted(oc.get(o, [])))]
                            others = [g for g in gone if g != o
                                      and oa.get(g) == oa.get(o)]
                            if len(cands) == 1 and not others:
                                if cname:
                                    amap[cands[0]] = o
                                else:
                                    gmap.setdefault(modname, {})[
                                        cands[0]] = o
                        continue
                    if len(old) != len(names):
                        continue
                    pairs = [(o, n) for o, n in zip(old, names) if o != n]
                    if any(o in names or n in old for o, n in pairs):
                        continue
                    if kind in ("methods", "functions"):
                        # a renamed function keeps its arity and (for
                        # methods) the methods that call it
                        la, oa = kinds.get("arity", {}), want.get("arity", {})
                        lc, oc = kinds.get("callers", {}), want.get(
                            "callers", {})
                        if any(la.get(n) != oa.get(o) or (
                                cname and sorted(lc.get(n, []))
                                != sorted(oc.get(o, [])))
                               for o, n in pairs):
                            continue
                    for o, n in pairs:
                        if n in vocab or n in known:
                            # the new name means something elsewhere too:
                            # map it back inside this class only
                            if cname:
                                scoped.setdefault((modname, cname), {})[n] = o
                            continue
                        if cname:
                            amap[n] = o
                        else:
                            gmap.setdefault(modname, {})[n] = o
        for (modname, cname), ren in scoped.items():
            for st in self.modules[modname].tree.body:
                if isinstance(st, ast.ClassDef) and st.name == cname:
                    for n in ast.walk(st):
                        if isinstance(n, ast.Attribute) and n.attr in ren \
                                and isinstance(n.value, ast.Name) \
                                and n.value.id == "self":
                            n.attr = ren[n.attr]
                        elif isinstance(n, (ast.FunctionDef,
                                            ast.AsyncFunctionDef)) \
                                and n.name in ren:
                            n.name = ren[n.name]
            self.renamed.update({"%s.%s.%s" % (modname, cname, k): v
                                 for k, v in ren.items()})
        if not amap and not gmap:
            return
        for modname, mod in self.modules.items():
            for n in ast.walk(mod.tree):
                if isinstance(n, ast.Attribute) and n.attr in amap:
                    n.attr = amap[n.attr]
                elif isinstance(n, (ast.FunctionDef, ast.AsyncFunctionDef)) \
                        and n.name in amap:
                    n.name = amap[n.name]
                elif isinstance(n, ast.Name) and n.id in amap and isinstance(
                        getattr(n, "_parent", None), ast.ClassDef):
                    n.id = amap[n.id]
            for mname, ren in gmap.items():
                for n in ast.walk(mod.tree):
                    if modname == mname:
                        if isinstance(n, ast.Name) and n.id in ren:
                            n.id = ren[n.id]
                        elif isinstance(n, (ast.FunctionDef,
                                            ast.AsyncFunctionDef)) \
                                and n.name in ren:
                            n.name = ren[n.name]
                    if isinstance(n, ast.Attribute) and n.attr in ren \
                            and (dotted(n.value) or "").endswith(
                                mname.rsplit(".", 1)[-1]):
                        n.attr = ren[n.attr]
                    if isinstance(n, ast.alias) and n.name in ren:
                        n.name = ren[n.name]
        self.renamed.update(amap)
        for ren in gmap.values():
            self.renamed.update(ren)

    # ------------------------------------------------------------------ load
    def _load(self):
        for dirpath, dirnames, filenames in os.walk(self.pkgdir):
            dirnames[:] = sorted(d for d in dirnames
                                 if d not in ("tests", "__pycache__"))
            for fn in sorted(filenames):
                if not fn.endswith(".py"):
                    continue
                path = os.path.join(dirpath, fn)
                rel = os.path.relpath(path, os.path.join(self.root, "src"))
                parts = rel[:-3].split(os.sep)
                if parts[-1] == "__init__":
                    parts = parts[:-1]
                name = ".".join(parts)
                with open(path, encoding="utf-8") as f:
                    source = f.read()
                try:
                    self.modules[name] = Module(name, path, source)
                except SyntaxError as e:
                    raise AnalysisError("cannot parse %s: %s" % (path, e))
        if len(self.modules) < MIN_MODULES:
            raise AnalysisError(
                "only %d modules parsed under %s (floor %d): %s"
                % (len(self.modules), self.pkgdir, MIN_MODULES,
                   sorted(self.modules)))

    def _index(self):
        for m in self.modules.values():
            self._index_imports(m)
            for st in m.tree.body:
                self._index_stmt(m, st)
        for c in self.classes.values():
            c.bases = [self.resolve(c.module, b) or ("?" + src(b))
                       for b in c.base_exprs]

    def _index_imports(self, m):
        for n in ast.walk(m.tree):
            if isinstance(n, ast.Import):
                for a in n.names:
                    if a.asname:
                        m.imports[a.asname] = a.name
                    else:
                        head = a.name.split(".")[0]
                        m.imports[head] = head
            elif isinstance(n, ast.ImportFrom):
                mod = n.module or ""
                if n.level:
                    base = m.name.split(".")
                    if not m.path.endswith("__init__.py"):
                        base = base[:-1]
                    base = base[:len(base) - (n.level - 1)]
                    mod = ".".join(base + ([mod] if mod else []))
                for a in n.names:
                    m.imports[a.asname or a.name] = mod + "." + a.name

    def _index_stmt(self, m, st):
        if isinstance(st, (ast.FunctionDef, ast.AsyncFunctionDef)):
            fi = FunctionInfo(m.name + "." + st.name, st, m)
            m.functions[st.name] = fi
            self.functions[fi.qualname] = fi
            self._index_nested(fi)
        elif isinstance(st, ast.ClassDef):
            ci = ClassInfo(m.name + "." + st.name, st, m)
            m.classes[st.name] = ci
            self.classes[ci.qualname] = ci
            for b in st.body:
                if isinstance(b, (ast.FunctionDef, ast.AsyncFunctionDef)):
                    fi = FunctionInfo(ci.qualname + "." + b.name, b, m, ci)
                    ci.methods[b.name] = fi
                    self.functions[fi.qualname] = fi
                    self._index_nested(fi)
                elif isinstance(b, ast.Assign):
                    for t in b.targets:
                        for nm in _target_names(t):
                            ci.attrs.setdefault(nm, []).append(b.value)
                elif isinstance(b, ast.AnnAssign) and b.value is not None:
                    for nm in _target_names(b.target):
                        ci.attrs.setdefault(nm, []).append(b.value)
            for fi in ci.methods.values():
                if not fi.params:
                    continue
                selfname = fi.params[0]
                for n in ast.walk(fi.node):
                    if isinstance(n, (ast.Assign, ast.AugAssign, ast.AnnAssign)):
                        targets = n.targets if isinstance(n, ast.Assign) \
                            else [n.target]
                        for t in targets:
                            for tt in _flatten_targets(t):
                                if (isinstance(tt, ast.Attribute)
                                        and isinstance(tt.value, ast.Name)
                                        and tt.value.id == selfname):
                                    ci.fields.setdefault(tt.attr, []).append(
                                        (n, fi))
        elif isinstance(st, ast.Assign):
            for t in st.targets:
                for nm in _target_names(t):
                    m.assigns.setdefault(nm, []).append(st.value)
        elif isinstance(st, ast.AnnAssign) and st.value is not None:
            for nm in _target_names(st.target):
                m.assigns.setdefault(nm, []).append(st.value)
        elif isinstance(st, (ast.If, ast.Try)):
            # module-level conditional definitions (e.g. DEFAULT_HOST)
            for field in ("body", "orelse", "finalbody"):
                for sub in getattr(st, field, []) or []:
                    if isinstance(sub, ast.stmt):
                        self._index_stmt(m, sub)
            for h in getattr(st, "handlers", []) or []:
                for sub in h.body:
                    self._index_stmt(m, sub)

    def _index_nested(self, outer):
        for n in ast.walk(outer.node):
            if n is outer.node:
                continue
            if isinstance(n, (ast.FunctionDef, ast.AsyncFunctionDef)):
                # only direct nesting level naming; deeper ones get full chain
                p = n._parent
                while p is not None and not isinstance(
                        p, (ast.FunctionDef, ast.AsyncFunctionDef)):
                    p = p._parent
                if p is outer.node:
                    fi = FunctionInfo(outer.qualname + ".<locals>." + n.name,
                                      n, outer.module, outer.cls, outer)
                    self.functions[fi.qualname] = fi
                    self._index_nested(fi)

    # --------------------------------------------------------------- resolve
    def resolve(self, module, expr):
        """Resolve a Name/Attribute expression to a qualified name:
        a repo class/function/module-level name, or 'builtins.X', or an
        external dotted name such as 'urllib.request.urlopen'.  None if the
        expression is not a dotted name."""
        d = dotted(expr) if not isinstance(expr, str) else expr
        if d is None:
            return None
        return self.resolve_dotted(module, d)

    def resolve_dotted(self, module, d):
        parts = d.split(".")
        head = parts[0]
        if head in module.classes or head in module.functions \
                or head in module.assigns:
            full = module.name + "." + d
        elif head in module.imports:
            full = ".".join([module.imports[head]] + parts[1:])
        elif hasattr(builtins, head):
            return "builtins." + d
        else:
            return None
        return self._canon(full)

    def _canon(self, full):
        """Follow module-level aliases (loadConfig = ZConfig.loader.loadConfig)."""
        seen = set()
        while full not in seen:
            seen.add(full)
            if full in self.classes or full in self.functions \
                    or full in self.modules:
                return full
            # module attribute?
            modname, _, attr = full.rpartition(".")
            # find the longest module prefix
            parts = full.split(".")
            for i in range(len(parts) - 1, 0, -1):
                mn = ".".join(parts[:i])
                if mn in self.modules:
                    m = self.modules[mn]
                    rest = parts[i:]
                    if rest[0] in m.imports and rest[0] not in m.assigns \
                            and rest[0] not in m.classes \
                            and rest[0] not in m.functions:
                        full = ".".join([m.imports[rest[0]]] + rest[1:])
                        break
                    if len(rest) == 1 and rest[0] in m.assigns:
                        vals = m.assigns[rest[0]]
                        if len(vals) == 1:
                            r = self.resolve(m, vals[0])
                            if r and r != full:
                                full = r
                                break
                    return full
            else:
                return full
        return full

    def cls(self, qualname):
        try:
            return self.classes[qualname]
        except KeyError:
            raise AnalysisError("anchor vanished: class %s" % qualname)

    def fn(self, qualname):
        try:
            return self.functions[qualname]
        except KeyError:
            pass
        # a method that was moved to a base class / mixin (or whose override
        # was removed) is still what the class does: the *effective* method
        # along the MRO is the anchor, and the evidence says so
        cq, _, name = qualname.rpartition(".")
        if cq in self.classes:
            f = self.lookup_method(cq, name)
            if f is not None:
                if not hasattr(self, "effective_anchors"):
                    self.effective_anchors = {}
                self.effective_anchors[qualname] = f.qualname
                return f
        raise AnalysisError("anchor vanished: function %s" % qualname)

    def has_fn(self, qualname):
        return qualname in self.functions

    # ------------------------------------------------------------------- MRO
    def mro(self, cq):
        if cq in self._mro_cache:
            return self._mro_cache[cq]
        c = self.classes.get(cq)
        if c is None:
            return [cq]
        seqs = [self.mro(b) for b in c.bases if b in self.classes]
        seqs.append([b for b in c.bases if b in self.classes])
        res = [cq]
        seqs = [list(s) for s in seqs if s]
        while seqs:
            for s in seqs:
                cand = s[0]
                if not any(cand in t[1:] for t in seqs):
                    break
            else:
                raise AnalysisError("inconsistent MRO for %s" % cq)
            res.append(cand)
            seqs = [[x for x in s if x != cand] for s in seqs]
            seqs = [s for s in seqs if s]
        self._mro_cache[cq] = res
        return res

    def all_bases(self, cq):
        """Transitive bases incl. builtins, as qualified names."""
        out, todo = [], [cq]
        while todo:
            x = todo.pop(0)
            if x in out:
                continue
            out.append(x)
            c = self.classes.get(x)
            if c is not None:
                todo.extend(c.bases)
            elif x.startswith("builtins."):
                obj = getattr(builtins, x[9:], None)
                if isinstance(obj, type):
                    todo.extend("builtins." + b.__name__ for b in obj.__bases__)
        return out

    def is_subclass(self, a, b):
        return b in self.all_bases(a)

    def subclasses(self, cq):
        return [c for c in self.classes if cq in self.mro(c)]

    def lookup_method(self, cq, name):
        """The repository method `name` an instance of cq effectively has, or
        None -- also None when a class of the standard library that comes
        *earlier* in the linearisation defines the attribute (a mixin listed
        after the library base class does not override it)."""
        for k in self.full_mro(cq):
            c = self.classes.get(k)
            if c is not None:
                if name in c.methods:
                    return c.methods[name]
                continue
            obj = self._stdlib_class(k)
            if obj is not None and name in vars(obj):
                return None
        return None

    def _stdlib_class(self, dotted_name):
        """The class object for a dotted name of the standard library (never
        of the repository), or None."""
        import importlib
        import sys
        cache = self.__dict__.setdefault("_stdlib_cache", {})
        if dotted_name in cache:
            return cache[dotted_name]
        obj = None
        parts = dotted_name.split(".")
        if parts[0] in getattr(sys, "stdlib_module_names", ()) \
                or parts[0] == "builtins":
            for i in range(len(parts) - 1, 0, -1):
                try:
                    mod = importlib.import_module(".".join(parts[:i]))
                except Exception:
                    continue
                o = mod
                try:
                    for a in parts[i:]:
                        o = getattr(o, a)
                except AttributeError:
                    o = None
                if isinstance(o, type):
                    obj = o
                break
        cache[dotted_name] = obj
        return obj

    def full_mro(self, cq):
        """C3 linearisation including classes of the standard library (with
        their real MRO); other external bases stand for themselves."""
        cache = self.__dict__.setdefault("_full_mro_cache", {})
        if cq in cache:
            return cache[cq]
        c = self.classes.get(cq)
        if c is None:
            obj = self._stdlib_class(cq)
            if obj is not None:
                res = []
                for k in obj.__mro__:
                    nm = "%s.%s" % (k.__module__, k.__qualname__)
                    res.append(cq if k is obj else nm)
                cache[cq] = res
                return res
            cache[cq] = [cq]
            return [cq]
        bases = [b for b in c.bases if b and not b.startswith("?")]
        seqs = [list(self.full_mro(b)) for b in bases] + [list(bases)]
        res = [cq]
        seqs = [s for s in seqs if s]
        while seqs:
            for s_ in seqs:
                cand = s_[0]
                if not any(cand in t[1:] for t in seqs):
                    break
            else:
                # inconsistent with the library's own order: fall back to
                # the repository-only linearisation
                cache[cq] = self.mro(cq)
                return cache[cq]
            res.append(cand)
            seqs = [[x for x in s_ if x != cand] for s_ in seqs]
            seqs = [s_ for s_ in seqs if s_]
        cache[cq] = res
        return res

    def lookup_class_attr(self, cq, name):
        for k in self.mro(cq):
            c = self.classes.get(k)
            if c is not None and name in c.attrs:
                return c, c.attrs[name]
        return None, None

    # --------------------------------------------------------------- folding
    def fold(self, module, expr, cls=None, env=None, _depth=0):
        """Fold a constant expression to a Python value (str/int/tuple/dict/...).
        Raises Unfoldable."""
        if _depth > 30:
            raise Unfoldable("depth")
        f = lambda e: self.fold(module, e, cls, env, _depth + 1)
        if isinstance(expr, ast.Constant):
            return expr.value
        if isinstance(expr, ast.Tuple):
            return tuple(f(e) for e in expr.elts)
        if isinstance(expr, ast.List):
            return [f(e) for e in expr.elts]
        if isinstance(expr, ast.Set):
            return frozenset(f(e) for e in expr.elts)
        if isinstance(expr, ast.Dict):
            if any(k is None for k in expr.keys):
                raise Unfoldable("dict splat")
            return {f(k): f(v) for k, v in zip(expr.keys, expr.values)}
        if isinstance(expr, ast.JoinedStr):
            out = []
            for v in expr.values:
                if isinstance(v, ast.Constant):
                    out.append(str(v.value))
                elif isinstance(v, ast.FormattedValue):
                    if v.format_spec is not None or v.conversion not in (-1,):
                        raise Unfoldable("format spec")
                    out.append(str(f(v.value)))
                else:
                    raise Unfoldable("joinedstr")
            return "".join(out)
        if isinstance(expr, ast.BinOp):
            l, r = f(expr.left), f(expr.right)
            try:
                if isinstance(expr.op, ast.Add):
                    return l + r
                if isinstance(expr.op, ast.Mod):
                    return l % r
                if isinstance(expr.op, ast.Mult):
                    return l * r
                if isinstance(expr.op, ast.Sub):
                    return l - r
            except Exception as e:
                raise Unfoldable(str(e))
            raise Unfoldable("binop")
        if isinstance(expr, ast.UnaryOp) and isinstance(expr.op, ast.USub):
            return -f(expr.operand)
        if isinstance(expr, ast.Name):
            if env and expr.id in env:
                return env[expr.id]
            if cls is not None:
                c, vals = self.lookup_class_attr(cls.qualname, expr.id) \
                    if False else (None, None)
            vals = module.assigns.get(expr.id)
            if vals is not None:
                if len(vals) != 1:
                    raise Unfoldable("name %s assigned %d times"
                                     % (expr.id, len(vals)))
                return f(vals[0])
            raise Unfoldable("name " + expr.id)
        if isinstance(expr, ast.Attribute):
            d = dotted(expr)
            if d is None:
                raise Unfoldable("attr")
            head, _, attr = d.rpartition(".")
            # Class.attr
            tgt = self.resolve_dotted(module, head)
            if tgt in self.classes:
                c, vals = self.lookup_class_attr(tgt, attr)
                if vals and len(vals) == 1:
                    return self.fold(c.module, vals[0], c, None, _depth + 1)
            if tgt in self.modules:
                m = self.modules[tgt]
                vals = m.assigns.get(attr)
                if vals and len(vals) == 1:
                    return self.fold(m, vals[0], None, None, _depth + 1)
            raise Unfoldable("attribute " + d)
        if isinstance(expr, ast.Call) and isinstance(expr.func, ast.Name) \
                and expr.func.id in ("frozenset", "set", "tuple", "list") \
                and not expr.keywords and len(expr.args) <= 1:
            # frozenset((...)) / set([...]) / tuple([...]) of literals
            if not expr.args:
                return {"frozenset": frozenset(), "set": frozenset(),
                        "tuple": (), "list": []}[expr.func.id]
            v = f(expr.args[0])
            try:
                if expr.func.id in ("frozenset", "set"):
                    return frozenset(v)
                return tuple(v) if expr.func.id == "tuple" else list(v)
            except TypeError as e:
                raise Unfoldable(str(e))
        raise Unfoldable(type(expr).__name__)

    def fold_class_attr(self, cq, name):
        c, vals = self.lookup_class_attr(cq, name)
        if not vals:
            raise AnalysisError("anchor vanished: class attribute %s.%s"
                                % (cq, name))
        if len(vals) != 1:
            raise AnalysisError("class attribute %s.%s assigned %d times"
                                % (cq, name, len(vals)))
        try:
            return self.fold(c.module, vals[0], c)
        except Unfoldable as e:
            raise AnalysisError("cannot fold %s.%s: %s" % (cq, name, e))

    def fold_module_name(self, modname, name):
        m = self.modules.get(modname)
        if m is None:
            raise AnalysisError("anchor vanished: module %s" % modname)
        vals = m.assigns.get(name)
        if not vals:
            raise AnalysisError("anchor vanished: %s.%s" % (modname, name))
        if len(vals) != 1:
            raise AnalysisError("%s.%s assigned %d times"
                                % (modname, name, len(vals)))
        try:
            return self.fold(m, vals[0])
        except Unfoldable as e:
            raise AnalysisError("cannot fold %s.%s: %s" % (modname, name, e))

    # ------------------------------------------------------------- utilities
    def rel(self, path):
        return os.path.relpath(path, self.root)

    def loc(self, fi_or_module, node):
        m = fi_or_module.module if isinstance(fi_or_module, FunctionInfo) \
            else fi_or_module
        return "%s:%d" % (self.rel(m.path), getattr(node, "lineno", 0))

    def data_path(self, *parts):
        p = os.path.join(self.root, *parts)
        if not os.path.exists(p):
            raise AnalysisError("anchor vanished: data file %s" % p)
        return p


def _target_names(t):
    if isinstance(t, ast.Name):
        return [t.id]
    if isinstance(t, (ast.Tuple, ast.List)):
        out = []
        for e in t.elts:
            out.extend(_target_names(e))
        return out
    return []


def _flatten_targets(t):
    if isinstance(t, (ast.Tuple, ast.List)):
        out = []
        for e in t.elts:
            out.extend(_flatten_targets(e))
        return out
    if isinstance(t, ast.Starred):
        return _flatten_targets(t.value)
    return [t]


def enclosing_function(node):
    p = getattr(node, "_parent", None)
    while p is not None and not isinstance(
            p, (ast.FunctionDef, ast.AsyncFunctionDef)):
        p = getattr(p, "_parent", None)
    return p


def walk_shallow(node):
    """ast.walk that does not descend into nested function/class/lambda bodies."""
    todo = [node]
    first = True
    while todo:
        n = todo.pop()
        if not first and isinstance(n, (ast.FunctionDef, ast.AsyncFunctionDef,
                                        ast.ClassDef, ast.Lambda)):
            continue
        first = False
        yield n
        todo.extend(ast.iter_child_nodes(n))
