"""E2b -- exception flow: which exception classes can leave a function.

escapes(f) is a dict  (class qualname, raise site) -> info  computed as a
fixpoint over the resolved call graph:
  * explicit `raise C(...)`, `raise` / `raise e` inside a handler (re-raises the
    handler's caught set), `raise <expr>` typed by the light type inference;
  * calls: the callee's escape set (repository callees), a frozen table for
    external callees, {ValueError, DatatypeOwnError} for calls through a
    datatype slot (a callable stored in an attribute / passed as a value);
  * each filtered by the enclosing handlers using the resolved class hierarchy.
Implicit raisers (IndexError, KeyError, AttributeError...) are not modelled
here; the rules that bound some of them are separate (C07.R4/R5/R8).
"""
import ast

from .model import dotted, src, walk_shallow
from .report import AnalysisError

PSEUDO_OWN = "pseudo.DatatypeOwnError"
UNKNOWN = "pseudo.UnknownException"

# external callee -> exception classes attributed to it (DESIGN appendix A6)
EXTERNAL_RAISES = {
    "builtins.int": ["builtins.ValueError"],
    "builtins.float": ["builtins.ValueError"],
    "urllib.request.urlopen": ["urllib.error.URLError", "builtins.OSError"],
    "urllib.parse.urlopen": ["builtins.AttributeError"],
    "urllib.request.urljoin": ["builtins.ValueError"],
    "urllib.parse.urljoin": ["builtins.ValueError"],
    "urllib.parse.urldefrag": ["builtins.ValueError"],
    "urllib.request.urlunparse": [],
    "socket.inet_pton": ["builtins.OSError"],
    "locale.setlocale": ["locale.Error"],
    "builtins.__import__": ["builtins.ImportError"],
}
# external classes and their bases (for handler subsumption)
EXTERNAL_BASES = {
    "urllib.error.URLError": ["builtins.OSError"],
    "urllib.request.URLError": ["builtins.OSError"],
    "locale.Error": ["builtins.Exception"],
    "xml.sax.SAXException": ["builtins.Exception"],
    PSEUDO_OWN: ["builtins.Exception"],
    UNKNOWN: ["builtins.Exception"],
}
EXTERNAL_ALIASES = {"urllib.request.URLError": "urllib.error.URLError"}

# attribute-call names that are *not* datatype slots (callbacks into
# application code or stdlib objects); calls through them raise nothing the
# analysis attributes.  One line of reason each.
NON_DATATYPE_SLOTS = {
    "f": "CompositeHandler callback supplied by the application",
    "reopen": "logging handler method looked up with getattr",
    "factory": "handler-class partial built in FileHandlerFactory",
    "get_data": "PEP 302 loader; OSError attributed explicitly",
}
SLOT_EXTRA = {"get_data": ["builtins.OSError"]}


class ExcFlow:
    def __init__(self, program, extra_external=None):
        self.P = program
        self.m = program.model
        self.external = dict(EXTERNAL_RAISES)
        if extra_external:
            self.external.update(extra_external)
        self.esc = {q: {} for q in self.m.functions}
        self.handler_log = {}
        self._noret = {}
        self._solve()

    # ------------------------------------------------------------ hierarchy
    def bases(self, cls):
        cls = EXTERNAL_ALIASES.get(cls, cls)
        out, todo = [], [cls]
        while todo:
            x = todo.pop(0)
            x = EXTERNAL_ALIASES.get(x, x)
            if x in out:
                continue
            out.append(x)
            if x in EXTERNAL_BASES:
                todo.extend(EXTERNAL_BASES[x])
            elif x in self.m.classes:
                todo.extend(self.m.classes[x].bases)
            elif x.startswith("builtins."):
                import builtins
                obj = getattr(builtins, x[9:], None)
                if isinstance(obj, type):
                    todo.extend("builtins." + b.__name__
                                for b in obj.__bases__)
        return out

    def is_sub(self, a, b):
        b = EXTERNAL_ALIASES.get(b, b)
        return b in self.bases(a)

    # ---------------------------------------------------------------- solve
    def _solve(self):
        fns = list(self.m.functions.values())
        for it in range(40):
            changed = False
            for fi in fns:
                self.handler_log[fi.qualname] = []
                new = self._function(fi)
                if set(new) != set(self.esc[fi.qualname]):
                    changed = True
                self.esc[fi.qualname] = new
            if not changed:
                break
        else:
            raise AnalysisError("exception-flow fixpoint did not converge")
        self.iterations = it + 1

    def escapes(self, fi):
        return self.esc[fi.qualname]

    def classes_escaping(self, fi):
        return sorted({k[0] for k in self.esc[fi.qualname]})

    def chain(self, fi, key):
        """Call chain from fi to the raise site of key."""
        out = []
        cur = fi
        guard = 0
        while cur is not None and guard < 60:
            guard += 1
            info = self.esc[cur.qualname].get(key)
            if info is None:
                break
            via = info.get("via")
            if via is None:
                out.append("%s raises %s at %s" % (cur.qualname, key[0],
                                                   key[1]))
                break
            callee, line = via
            out.append("%s:%s calls %s" % (cur.qualname, line, callee))
            cur = self.m.functions.get(callee)
            if cur is None:
                out.append("%s -> %s at %s" % (callee, key[0], key[1]))
        return out

    # ------------------------------------------------------------- noreturn
    def is_noreturn(self, fi):
        q = fi.qualname
        if q not in self._noret:
            self._noret[q] = False
            body = [s for s in fi.node.body]
            has_return = any(isinstance(n, ast.Return)
                             for n in walk_shallow(fi.node))
            has_yield = any(isinstance(n, (ast.Yield, ast.YieldFrom))
                            for n in walk_shallow(fi.node))
            last = body[-1] if body else None
            ok = False
            if not has_return and not has_yield and last is not None:
                if isinstance(last, ast.Raise):
                    ok = True
                elif isinstance(last, ast.Expr) and isinstance(last.value,
                                                               ast.Call):
                    ok = is_noreturn_call(self.P, fi, last.value, self)
            self._noret[q] = ok
        return self._noret[q]

    # ------------------------------------------------------------- function
    def _function(self, fi):
        self._fi = fi
        return self._block(fi.node.body, None)

    def _loc(self, node):
        return "%s:%d" % (self.m.rel(self._fi.module.path),
                          getattr(node, "lineno", 0))

    def _block(self, stmts, cur):
        out = {}
        for st in stmts:
            out.update(self._stmt(st, cur))
        return out

    def _stmt(self, st, cur):
        if isinstance(st, (ast.FunctionDef, ast.AsyncFunctionDef,
                           ast.ClassDef)):
            return {}
        if isinstance(st, ast.Try):
            return self._try(st, cur)
        if isinstance(st, ast.Raise):
            out = {}
            if st.exc is not None:
                out.update(self._expr(st.exc))
            out.update(self._raise(st, cur))
            return out
        if isinstance(st, (ast.If, ast.While)):
            out = self._expr(st.test)
            out.update(self._block(st.body, cur))
            out.update(self._block(st.orelse, cur))
            return out
        if isinstance(st, (ast.For, ast.AsyncFor)):
            out = self._expr(st.iter)
            out.update(self._iter_protocol(st.iter))
            out.update(self._block(st.body, cur))
            out.update(self._block(st.orelse, cur))
            return out
        if isinstance(st, (ast.With, ast.AsyncWith)):
            out = {}
            for it in st.items:
                out.update(self._expr(it.context_expr))
            out.update(self._block(st.body, cur))
            return out
        out = {}
        for ch in ast.iter_child_nodes(st):
            if isinstance(ch, ast.expr):
                out.update(self._expr(ch))
        return out

    def _iter_protocol(self, e):
        """`for x in obj` calls obj.__iter__ of repository classes."""
        out = {}
        for tag in self.P.type_of(self._fi, self._fi.module, e):
            if tag.startswith("C:"):
                meth = self.m.lookup_method(tag[2:], "__iter__")
                if meth is not None:
                    for k, info in self.esc[meth.qualname].items():
                        out[k] = {"via": (meth.qualname, e.lineno),
                                  "amb": info.get("amb", False)}
        return out

    def _expr(self, e):
        out = {}
        for n in walk_shallow(e) if not isinstance(e, ast.Lambda) else ():
            if isinstance(n, ast.Call):
                out.update(self._call(n))
        return out

    def _call(self, call):
        fi = self._fi
        out = {}
        callees = self.P.resolve_call(fi, call)
        for c in callees:
            if c.kind == "repo":
                for k, info in self.esc[c.fn.qualname].items():
                    out[k] = {"via": (c.fn.qualname, call.lineno),
                              "amb": c.ambiguous or info.get("amb", False)}
            elif c.kind == "external":
                for cls in self.external.get(c.name, ()):
                    out[(cls, self._loc(call) + " " + c.name)] = {
                        "via": None, "amb": c.ambiguous, "external": c.name}
            elif c.kind == "slot":
                if c.name in NON_DATATYPE_SLOTS:
                    for cls in SLOT_EXTRA.get(c.name, ()):
                        out[(cls, self._loc(call) + " slot " + c.name)] = {
                            "via": None, "amb": False, "slot": c.name}
                    continue
                site = self._loc(call) + " slot " + src(call.func)
                out[("builtins.ValueError", site)] = {
                    "via": None, "amb": False, "slot": c.name}
                out[(PSEUDO_OWN, site)] = {
                    "via": None, "amb": False, "slot": c.name}
        for cb in self.P.callback_targets(fi, call, callees):
            for k, info in self.esc[cb.qualname].items():
                out[k] = {"via": (cb.qualname, call.lineno),
                          "amb": info.get("amb", False)}
        return out

    def _raise(self, st, cur):
        fi = self._fi
        if st.exc is None:
            if cur is None:
                return {(UNKNOWN, self._loc(st) + " bare raise"): {
                    "via": None, "amb": True}}
            return {k: dict(v, reraised=self._loc(st))
                    for k, v in cur["items"].items()}
        e = st.exc
        if isinstance(e, ast.Name) and cur is not None \
                and e.id == cur.get("name"):
            return {k: dict(v, reraised=self._loc(st))
                    for k, v in cur["items"].items()}
        classes = self._exc_classes(e)
        site = self._loc(st)
        if not classes:
            return {(UNKNOWN, site + " " + src(e)[:60]): {"via": None,
                                                          "amb": True}}
        return {(c, site): {"via": None, "amb": False, "raise": src(e)[:80]}
                for c in classes}

    def _exc_classes(self, e):
        fi = self._fi
        tags = self.P.type_of(fi, fi.module, e)
        out = set()
        for t in tags:
            if t.startswith("C:") or t.startswith("T:"):
                out.add(t[2:])
            elif t.startswith("XI:") or t.startswith("X:"):
                out.add(t.split(":", 1)[1])
        if not out and isinstance(e, ast.Call):
            # e.g. v.with_traceback(tb) / self.initerror(kind(message))
            f = e.func
            if isinstance(f, ast.Attribute) and f.attr == "with_traceback":
                return self._exc_classes(f.value)
            for a in e.args:
                out |= self._exc_classes(a)
        if not out:
            d = dotted(e.func if isinstance(e, ast.Call) else e)
            if d:
                r = self.m.resolve_dotted(fi.module, d)
                if r:
                    out.add(r)
        # keep only exception-like classes
        return {c for c in out if self.is_sub(c, "builtins.BaseException")
                or c in EXTERNAL_BASES}

    def handler_classes(self, h):
        fi = self._fi
        if h.type is None:
            return ["builtins.BaseException"]
        types = h.type.elts if isinstance(h.type, ast.Tuple) else [h.type]
        out = []
        for t in types:
            r = self.m.resolve(fi.module, t)
            if r is None:
                raise AnalysisError("cannot resolve handler type %s at %s"
                                    % (src(t), self._loc(h)))
            out.append(EXTERNAL_ALIASES.get(r, r))
        return out

    def _try(self, st, cur):
        body = self._block(st.body, cur)
        remaining = dict(body)
        out = {}
        for h in st.handlers:
            hcls = self.handler_classes(h)
            caught = {}
            for k, v in list(remaining.items()):
                full = any(self.is_sub(k[0], hc) for hc in hcls)
                part = any(self.is_sub(hc, k[0]) for hc in hcls)
                if full or part:
                    caught[k] = v
                if full:
                    del remaining[k]
            hctx = {"name": h.name, "items": caught, "classes": hcls}
            hb = self._block(h.body, hctx)
            self.handler_log[self._fi.qualname].append({
                "handler": h, "try": st, "classes": hcls, "caught": caught,
                "out": hb})
            out.update(hb)
        out.update(remaining)
        out.update(self._block(st.orelse, cur))
        out.update(self._block(st.finalbody, cur))
        return out


def is_noreturn_call(P, fi, call, ef=None):
    cs = P.resolve_call(fi, call)
    if not cs:
        return False
    for c in cs:
        if c.kind != "repo" or c.ambiguous:
            return False
        if not _noreturn_fn(P, c.fn, set()):
            return False
    return True


def _noreturn_fn(P, fi, stack):
    if fi.qualname in stack:
        return False
    cache = P.__dict__.setdefault("_noreturn_cache", {})
    if fi.qualname in cache:
        return cache[fi.qualname]
    stack = stack | {fi.qualname}
    ok = False
    body = fi.node.body
    has_return = any(isinstance(n, ast.Return) for n in walk_shallow(fi.node))
    has_yield = any(isinstance(n, (ast.Yield, ast.YieldFrom))
                    for n in walk_shallow(fi.node))
    last = body[-1] if body else None
    if not has_return and not has_yield and last is not None:
        if isinstance(last, ast.Raise):
            ok = True
        elif isinstance(last, ast.Expr) and isinstance(last.value, ast.Call):
            cs = P.resolve_call(fi, last.value)
            ok = bool(cs) and all(
                c.kind == "repo" and not c.ambiguous
                and _noreturn_fn(P, c.fn, stack) for c in cs)
    cache[fi.qualname] = ok
    return ok
