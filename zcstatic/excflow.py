"""E2b -- exception flow: which exception classes can leave a function.

escapes(f) is a dict  (class qualname, raise site) -> info  computed as a
fixpoint over the resolved call graph:
  * explicit `raise C(...)`, `raise` / `raise e` inside a handler (re-raises the
    handler's caught set), `raise <expr>` typed by the light type inference;
  * calls: the callee's escape set (repository callees), a frozen table for
    external callees, {ValueError, DatatypeOwnError} for calls through a
    datatype slot (a callable stored in an attribute / passed as a value);
  * each filtered by the enclosing handlers using the resolved class hierarchy.
Implicit raisers (IndexError, KeyError, AttributeError...) are not modelled
here; the rules that bound some of them are separate (C07.R4/R5/R8).
"""
import ast

from .model import dotted, src, walk_shallow
from .report import AnalysisError

PSEUDO_OWN = "pseudo.DatatypeOwnError"
UNKNOWN = "pseudo.UnknownException"

# external callee -> exception classes attributed to it (DESIGN appendix A6)
EXTERNAL_RAISES = {
    "builtins.int": ["builtins.ValueError"],
    "builtins.float": ["builtins.ValueError"],
    # URLError/OSError for transport failures, ValueError for an unknown URL
    # type or a malformed URL, http.client.InvalidURL (an HTTPException, not
    # an OSError) for an http URL with a blank or control character or a
    # non-numeric port -- raised before any connection is attempted
    "urllib.request.urlopen": ["urllib.error.URLError", "builtins.OSError",
                               "builtins.ValueError",
                               "http.client.InvalidURL"],
    "urllib.request.urljoin": ["builtins.ValueError"],
    "urllib.parse.urljoin": ["builtins.ValueError"],
    "urllib.parse.urldefrag": ["builtins.ValueError"],
    # "Invalid IPv6 URL" for an unbalanced '[' in the network location,
    # "netloc ... contains invalid characters under NFKC normalization"
    "urllib.parse.urlsplit": ["builtins.ValueError"],
    "urllib.parse.urlparse": ["builtins.ValueError"],
    "urllib.request.urlsplit": ["builtins.ValueError"],
    "urllib.request.urlparse": ["builtins.ValueError"],
    "urllib.request.urlunparse": [],
    "socket.inet_pton": ["builtins.OSError"],
    # a duration outside datetime's range, or an infinite component
    "datetime.timedelta": ["builtins.OverflowError"],
    "locale.setlocale": ["locale.Error"],
    # ImportError for a name that cannot be imported; ValueError for the
    # empty name ("Empty module name")
    "builtins.__import__": ["builtins.ImportError", "builtins.ValueError"],
}
# external classes and their bases (for handler subsumption)
EXTERNAL_BASES = {
    "urllib.error.URLError": ["builtins.OSError"],
    "urllib.request.URLError": ["builtins.OSError"],
    "locale.Error": ["builtins.Exception"],
    "http.client.InvalidURL": ["http.client.HTTPException"],
    "http.client.HTTPException": ["builtins.Exception"],
    "xml.sax.SAXException": ["builtins.Exception"],
    PSEUDO_OWN: ["builtins.Exception"],
    UNKNOWN: ["builtins.Exception"],
}
EXTERNAL_ALIASES = {"urllib.request.URLError": "urllib.error.URLError"}

# Names of attributes / variables through which the repository calls a
# datatype conversion (confirmed by reading; a call through one of them raises
# ValueError for a bad value or whatever the datatype itself raises).
DATATYPE_SLOTS = {
    "datatype", "keytype", "valuetype", "_conversion", "conversion",
    "_basic_key", "_identifier", "_convert", "convert", "_dt",
}

# attribute-call names that are *not* datatype slots (callbacks into
# application code or stdlib objects); calls through them raise nothing the
# analysis attributes.  One line of reason each.
NON_DATATYPE_SLOTS = {
    "f": "CompositeHandler callback supplied by the application",
    "reopen": "logging handler method looked up with getattr",
    "factory": "handler-class partial built in FileHandlerFactory",
    "get_data": "PEP 302 loader; OSError attributed explicitly",
}
SLOT_EXTRA = {"get_data": ["builtins.OSError"],
              # bytes.decode(<codec>): the bytes of a resource need not be
              # valid in that codec
              "decode": ["builtins.UnicodeDecodeError"]}


class ExcFlow:
    """Escape sets per *identity* (function qualname, receiver class).  The
    receiver class specialises `self.m(...)` calls inside inherited methods:
    BaseLoader.loadURL analysed for a SchemaLoader receiver resolves
    self.loadResource to SchemaLoader.loadResource only (object sensitivity of
    depth 1 on self).  Identities are discovered on demand from the roots
    asked for."""

    def __init__(self, program, extra_external=None):
        self.P = program
        self.m = program.model
        self.external = dict(EXTERNAL_RAISES)
        if extra_external:
            self.external.update(extra_external)
        self.tab = {}            # identity -> {key: info}
        self.handler_log = {}    # identity -> [handler records]
        self._noret = {}
        self.iterations = 0
        self.skip_call = None    # hook: (fi, call, callee ident) -> bool

    # ------------------------------------------------------------ hierarchy
    def bases(self, cls):
        cls = EXTERNAL_ALIASES.get(cls, cls)
        out, todo = [], [cls]
        while todo:
            x = todo.pop(0)
            x = EXTERNAL_ALIASES.get(x, x)
            if x in out:
                continue
            out.append(x)
            if x in EXTERNAL_BASES:
                todo.extend(EXTERNAL_BASES[x])
            elif x in self.m.classes:
                todo.extend(self.m.classes[x].bases)
            elif x.startswith("builtins."):
                import builtins
                obj = getattr(builtins, x[9:], None)
                if isinstance(obj, type):
                    todo.extend("builtins." + b.__name__
                                for b in obj.__bases__)
        return out

    def is_sub(self, a, b):
        b = EXTERNAL_ALIASES.get(b, b)
        return b in self.bases(a)

    # ---------------------------------------------------------------- solve
    def ident(self, fi, rc=None):
        if rc is None and fi.cls is not None:
            rc = fi.cls.qualname
        if fi.cls is None:
            rc = None
        return (fi.qualname, rc)

    def _ensure(self, ident):
        if ident not in self.tab:
            self.tab[ident] = {}
            self._dirty = True

    def _solve(self, roots):
        for r in roots:
            self._ensure(r)
        for it in range(60):
            self._dirty = False
            changed = False
            for ident in list(self.tab):
                fi = self.m.functions[ident[0]]
                self.handler_log[ident] = []
                new = self._function(fi, ident[1])
                if set(new) != set(self.tab[ident]):
                    changed = True
                elif any(new[k].get("depth", 0) != self.tab[ident][k].get(
                        "depth", 0) for k in new):
                    changed = True
                self.tab[ident] = new
            self.iterations += 1
            if not changed and not self._dirty:
                return
        raise AnalysisError("exception-flow fixpoint did not converge")

    def escapes(self, fi, rc=None):
        ident = self.ident(fi, rc)
        if ident not in self.tab:
            self._solve([ident])
        return self.tab[ident]

    def classes_escaping(self, fi, rc=None):
        return sorted({k[0] for k in self.escapes(fi, rc)})

    def chain(self, fi, key, rc=None):
        """Call chain from fi to the raise site of key."""
        out = []
        ident = self.ident(fi, rc)
        guard = 0
        while ident is not None and guard < 60:
            guard += 1
            info = self.tab.get(ident, {}).get(key)
            if info is None:
                break
            name = ident[0] if ident[1] is None or ident[0].startswith(
                ident[1]) else "%s[self:%s]" % (ident[0],
                                                ident[1].split(".")[-1])
            if info.get("patched_here"):
                out.append("%s: handler sets %s and re-raises"
                           % (name, ",".join(info["patched_here"])))
            via = info.get("via")
            if via is None:
                out.append("%s raises %s at %s" % (name, key[0], key[1]))
                break
            callee, line, ckey = via
            out.append("%s:%s calls %s" % (name, line, callee[0]))
            ident = callee
            key = ckey
        return out

    # ------------------------------------------------------------- noreturn
    def is_noreturn(self, fi):
        q = fi.qualname
        if q not in self._noret:
            self._noret[q] = False
            body = [s for s in fi.node.body]
            has_return = any(isinstance(n, ast.Return)
                             for n in walk_shallow(fi.node))
            has_yield = any(isinstance(n, (ast.Yield, ast.YieldFrom))
                            for n in walk_shallow(fi.node))
            last = body[-1] if body else None
            ok = False
            if not has_return and not has_yield and last is not None:
                if isinstance(last, ast.Raise):
                    ok = True
                elif isinstance(last, ast.Expr) and isinstance(last.value,
                                                               ast.Call):
                    ok = is_noreturn_call(self.P, fi, last.value, self)
            self._noret[q] = ok
        return self._noret[q]

    # ------------------------------------------------------------- function
    def _function(self, fi, rc):
        self._fi = fi
        self._rc = rc
        self._ident = (fi.qualname, rc)
        return self._block(fi.node.body, None)

    def _callee_ident(self, c, call):
        """Identity of a resolved repository callee, specialising calls on
        `self` to the receiver class of the current identity."""
        fi = self._fi
        fn = c.fn
        if fn.cls is None:
            return (fn.qualname, None)
        f = call.func
        on_self = (isinstance(f, ast.Attribute)
                   and isinstance(f.value, ast.Name) and fi.params
                   and fi.cls is not None and f.value.id == fi.params[0])
        if self._rc is not None and on_self and c.how == "cha":
            return "SELF"
        if c.how == "basecall" and call.args and isinstance(
                call.args[0], ast.Name) and fi.params \
                and call.args[0].id == fi.params[0] and self._rc is not None:
            return (fn.qualname, self._rc)
        rc = c.recv or fn.cls.qualname
        return (fn.qualname, rc)

    def _self_targets(self, name):
        """Methods `self.<name>` can denote for the current receiver class."""
        m = self.m
        rc = self._rc
        out = []
        meth = m.lookup_method(rc, name)
        if meth is not None:
            out.append((meth.qualname, rc))
        for sub in m.subclasses(rc):
            if sub == rc:
                continue
            sm = m.classes[sub].methods.get(name)
            if sm is not None:
                out.append((sm.qualname, sub))
        return out

    def _loc(self, node):
        return "%s:%d" % (self.m.rel(self._fi.module.path),
                          getattr(node, "lineno", 0))

    @staticmethod
    def _merge(out, new):
        for k, v in new.items():
            if k not in out or v.get("depth", 0) < out[k].get("depth", 0):
                out[k] = v

    def _block(self, stmts, cur):
        out = {}
        for st in stmts:
            self._merge(out, self._stmt(st, cur))
        return out

    def _stmt(self, st, cur):
        if isinstance(st, (ast.FunctionDef, ast.AsyncFunctionDef,
                           ast.ClassDef)):
            return {}
        if isinstance(st, ast.Try):
            return self._try(st, cur)
        if isinstance(st, ast.Raise):
            out = {}
            if st.exc is not None:
                self._merge(out, self._expr(st.exc))
            self._merge(out, self._raise(st, cur))
            return out
        if isinstance(st, (ast.If, ast.While)):
            out = self._expr(st.test)
            self._merge(out, self._block(st.body, cur))
            self._merge(out, self._block(st.orelse, cur))
            return out
        if isinstance(st, (ast.For, ast.AsyncFor)):
            out = self._expr(st.iter)
            self._merge(out, self._iter_protocol(st.iter))
            self._merge(out, self._block(st.body, cur))
            self._merge(out, self._block(st.orelse, cur))
            return out
        if isinstance(st, (ast.With, ast.AsyncWith)):
            out = {}
            for it in st.items:
                self._merge(out, self._expr(it.context_expr))
            self._merge(out, self._block(st.body, cur))
            return out
        out = {}
        for ch in ast.iter_child_nodes(st):
            if isinstance(ch, ast.expr):
                self._merge(out, self._expr(ch))
        return out

    def _from_callee(self, out, ident, line, amb=False):
        self._ensure(ident)
        for k, info in self.tab[ident].items():
            self._merge(out, {k: {
                "via": (ident, line, k),
                "depth": info.get("depth", 0) + 1,
                "amb": amb or info.get("amb", False)}})

    def _iter_protocol(self, e):
        """`for x in obj` calls obj.__iter__ of repository classes."""
        out = {}
        for tag in self.P.type_of(self._fi, self._fi.module, e):
            if tag.startswith("C:"):
                meth = self.m.lookup_method(tag[2:], "__iter__")
                if meth is not None:
                    self._from_callee(out, (meth.qualname, tag[2:]), e.lineno)
        return out

    def _expr(self, e):
        out = {}
        for n in walk_shallow(e) if not isinstance(e, ast.Lambda) else ():
            if isinstance(n, ast.Call):
                self._merge(out, self._call(n))
                self._merge(out, self._none_in_join(n))
            elif isinstance(n, ast.BinOp) and isinstance(n.op, ast.Add):
                self._merge(out, self._none_in_concat(n))
        return out

    # -------------------------------------------- None in str-only operations
    # Implicit raise sites: `sep.join(xs)` where the inferred element types of
    # xs include None, and `text + x` where x may be None, raise TypeError.
    # The type inference is flow-insensitive, so a site is attributed only
    # when nothing in the function tests the operand before the site (a test
    # that mentions it -- `if x`, `x is None`, `x is not None`, an assert --
    # is read as the guard it almost always is: the rule may miss, it does
    # not alarm on guarded code).
    def _elem_types(self, e):
        fi = self._fi
        if isinstance(e, ast.BinOp) and isinstance(e.op, ast.Add):
            return self._elem_types(e.left) | self._elem_types(e.right)
        if isinstance(e, (ast.List, ast.Tuple, ast.Set)):
            out = set()
            for el in e.elts:
                if isinstance(el, ast.Starred):
                    out |= self._elem_types(el.value)
                else:
                    out |= {(t, src(el)) for t in self.P.type_of(
                        fi, fi.module, el)}
            return out
        if isinstance(e, ast.Call) and isinstance(e.func, ast.Name) \
                and e.func.id in ("list", "tuple", "sorted", "reversed") \
                and len(e.args) == 1:
            return self._elem_types(e.args[0])
        return {(t, src(e)) for t in self.P.elem_type_of(fi, fi.module, e)}

    def _tested_before(self, text, node):
        """Some test at or above the site's line looks at `text` the way a
        None guard does: its truth value, a comparison with None, or (for a
        container) a membership test of None."""
        fn = self._fi.node
        line = getattr(node, "lineno", 0)

        def guards(t):
            if src(t) == text:
                return True
            if isinstance(t, ast.UnaryOp) and isinstance(t.op, ast.Not):
                return guards(t.operand)
            if isinstance(t, ast.BoolOp):
                return any(guards(v) for v in t.values)
            if isinstance(t, ast.Compare) and len(t.ops) == 1:
                a, b = t.left, t.comparators[0]
                isnone = lambda x: isinstance(x, ast.Constant) \
                    and x.value is None
                if isinstance(t.ops[0], (ast.Is, ast.IsNot, ast.Eq,
                                         ast.NotEq)):
                    return (src(a) == text and isnone(b)) or (
                        src(b) == text and isnone(a))
                if isinstance(t.ops[0], (ast.In, ast.NotIn)):
                    return isnone(a) and src(b) == text
            if isinstance(t, ast.Call) and isinstance(t.func, ast.Name) \
                    and t.func.id in ("all", "any", "isinstance") and t.args:
                return text in src(t.args[0])
            return False
        for n in ast.walk(fn):
            tests = []
            if isinstance(n, (ast.If, ast.While, ast.IfExp, ast.Assert)):
                tests = [n.test]
            elif isinstance(n, ast.comprehension):
                tests = list(n.ifs)
            for t in tests:
                if getattr(t, "lineno", 0) <= line and guards(t):
                    return True
        return False

    def _none_in_join(self, call):
        f = call.func
        if not (isinstance(f, ast.Attribute) and f.attr == "join"
                and len(call.args) == 1 and not call.keywords):
            return {}
        fi = self._fi
        if self.P.type_of(fi, fi.module, f.value) != {"str"}:
            return {}
        arg = call.args[0]
        if isinstance(arg, (ast.GeneratorExp, ast.ListComp)):
            return {}
        culprits = sorted({txt for t, txt in self._elem_types(arg)
                           if t == "none"})
        culprits = [c for c in culprits if not self._tested_before(c, call)]
        if not culprits:
            return {}
        site = "%s str.join(%s): element %s may be None" % (
            self._loc(call), src(arg), ", ".join(culprits))
        return {("builtins.TypeError", site, ()): {
            "via": None, "amb": False, "implicit": "join"}}

    def _none_in_concat(self, n):
        fi = self._fi
        out = {}
        for a, b in ((n.left, n.right), (n.right, n.left)):
            if self.P.type_of(fi, fi.module, a) != {"str"}:
                continue
            if isinstance(b, ast.BinOp):
                continue
            tb = self.P.type_of(fi, fi.module, b)
            if "none" in tb and not self._tested_before(src(b), n):
                site = "%s %s: %s may be None in a string concatenation" % (
                    self._loc(n), src(n)[:60], src(b))
                out[("builtins.TypeError", site, ())] = {
                    "via": None, "amb": False, "implicit": "concat"}
        return out

    def _call(self, call):
        fi = self._fi
        out = {}
        callees = self.P.resolve_call(fi, call)
        done_self = False
        for c in callees:
            if c.kind == "repo":
                ident = self._callee_ident(c, call)
                if ident == "SELF":
                    if not done_self:
                        done_self = True
                        for t in self._self_targets(call.func.attr):
                            self._from_callee(out, t, call.lineno)
                    continue
                if self.skip_call is not None and self.skip_call(fi, call,
                                                                 ident):
                    continue
                self._from_callee(out, ident, call.lineno, c.ambiguous)
            elif c.kind == "external":
                for cls in self.external.get(c.name, ()):
                    if c.name == "builtins.__import__" \
                            and cls == "builtins.ValueError" \
                            and self._nonempty_import_name(fi, call):
                        continue
                    out[(cls, self._loc(call) + " " + c.name, ())] = {
                        "via": None, "amb": c.ambiguous, "external": c.name}
            elif c.kind == "builtin-method":
                # methods of built-in objects: only the ones listed raise
                # something the analysis attributes
                for cls in SLOT_EXTRA.get(c.name.rsplit(".", 1)[-1], ()) \
                        if c.name.rsplit(".", 1)[-1] == "decode" else ():
                    out[(cls, self._loc(call) + " ." + c.name.rsplit(
                        ".", 1)[-1], ())] = {"via": None, "amb": False,
                                             "external": c.name}
            elif c.kind == "slot":
                if c.name not in DATATYPE_SLOTS:
                    for cls in SLOT_EXTRA.get(c.name, ()):
                        out[(cls, self._loc(call) + " slot " + c.name, ())] = {
                            "via": None, "amb": False, "slot": c.name}
                    continue
                site = self._loc(call) + " slot " + src(call.func)
                out[("builtins.ValueError", site, ())] = {
                    "via": None, "amb": False, "slot": c.name}
                out[(PSEUDO_OWN, site, ())] = {
                    "via": None, "amb": False, "slot": c.name}
        # a call through a datatype slot always carries the slot's exceptions,
        # whatever subset of converters the type inference happened to see
        fname = call.func.attr if isinstance(call.func, ast.Attribute) else (
            call.func.id if isinstance(call.func, ast.Name) else None)
        if fname in DATATYPE_SLOTS and not any(
                c.kind == "slot" or (c.kind == "repo" and c.how in (
                    "cha", "byname", "basecall")) for c in callees):
            site = self._loc(call) + " slot " + src(call.func)
            out[("builtins.ValueError", site, ())] = {
                "via": None, "amb": False, "slot": fname}
            out[(PSEUDO_OWN, site, ())] = {
                "via": None, "amb": False, "slot": fname}
        for cb in self.P.callback_targets(fi, call, callees):
            self._from_callee(out, (cb.qualname, cb.cls.qualname
                                    if cb.cls else None), call.lineno)
        return out

    def _raise(self, st, cur):
        fi = self._fi
        if st.exc is None:
            if cur is None:
                return {(UNKNOWN, self._loc(st) + " bare raise", ()): {
                    "via": None, "amb": True}}
            return self._reraise(st, cur)
        e = st.exc
        if isinstance(e, ast.Name) and cur is not None \
                and e.id == cur.get("name"):
            return self._reraise(st, cur)
        classes = self._exc_classes(e)
        site = self._loc(st)
        if not classes:
            return {(UNKNOWN, site + " " + src(e)[:60], ()): {"via": None,
                                                              "amb": True}}
        return {(c, site, ()): {"via": None, "amb": False,
                                "raise": src(e)[:80]}
                for c in classes}

    def _reraise(self, st, cur):
        """Re-raise of the handler's caught set; attributes the handler body
        assigns on the exception variable are recorded in the key."""
        patched = cur.get("patches", ())
        out = {}
        for k, v in cur["items"].items():
            nk = (k[0], k[1], tuple(sorted(set(k[2]) | set(patched))))
            info = dict(v, reraised=self._loc(st))
            if patched:
                info["patched_here"] = tuple(patched)
                # keep the pre-patch key reachable for chain()
                info["pre_key"] = k
            # (two caught keys can map to the same patched key: keep the
            # shorter chain, as everywhere else)
            self._merge(out, {nk: info})
        return out

    def _exc_classes(self, e):
        fi = self._fi
        tags = self.P.type_of(fi, fi.module, e)
        out = set()
        for t in tags:
            if t.startswith("C:") or t.startswith("T:"):
                out.add(t[2:])
            elif t.startswith("XI:") or t.startswith("X:"):
                out.add(t.split(":", 1)[1])
        if not out and isinstance(e, ast.Call) \
                and getattr(self, "_ec_depth", 0) < 3:
            # raise helper(...): what the helper (a nested function, a
            # private function) returns
            try:
                callees = self.P.resolve_call(fi, e)
            except Exception:
                callees = []
            for c in callees:
                if c.kind != "repo" or c.fn is None or c.how == "ctor":
                    continue
                saved = self._fi
                self._fi = c.fn
                self._ec_depth = getattr(self, "_ec_depth", 0) + 1
                try:
                    for r in walk_shallow(c.fn.node):
                        if isinstance(r, ast.Return) and r.value is not None:
                            out |= self._exc_classes(r.value)
                finally:
                    self._fi = saved
                    self._ec_depth -= 1
        if not out and isinstance(e, ast.Call):
            # e.g. v.with_traceback(tb) / self.initerror(kind(message))
            f = e.func
            if isinstance(f, ast.Attribute) and f.attr == "with_traceback":
                return self._exc_classes(f.value)
            for a in e.args:
                out |= self._exc_classes(a)
        if not out:
            d = dotted(e.func if isinstance(e, ast.Call) else e)
            if d:
                r = self.m.resolve_dotted(fi.module, d)
                if r:
                    out.add(r)
        # keep only exception-like classes
        return {c for c in out if self.is_sub(c, "builtins.BaseException")
                or c in EXTERNAL_BASES}

    def handler_classes(self, h):
        fi = self._fi
        if h.type is None:
            return ["builtins.BaseException"]
        types = h.type.elts if isinstance(h.type, ast.Tuple) else [h.type]
        out = []
        for t in types:
            r = self.m.resolve(fi.module, t)
            if r is None:
                raise AnalysisError("cannot resolve handler type %s at %s"
                                    % (src(t), self._loc(h)))
            out.append(EXTERNAL_ALIASES.get(r, r))
        return out

    def _nonempty_import_name(self, fi, call):
        """__import__(x) raises ValueError for a name with an empty component
        ('' itself, '.os', 'a..b').  True when every path to the call has
        established `'' not in x.split('.')`: a condition that holds on all
        paths, read off the CFG, so and/or/not and either branch polarity are
        covered.  (That the name is non-empty is not enough: '.os'.)"""
        if not call.args:
            return False
        from . import cfg as cfgmod
        arg = src(call.args[0])
        splits = {arg}
        for n in walk_shallow(fi.node):
            if isinstance(n, ast.Assign) and isinstance(
                    n.value, ast.Call) and isinstance(
                    n.value.func, ast.Attribute) and n.value.func.attr \
                    == "split" and src(n.value.func.value) == arg:
                for t in n.targets:
                    splits.add(src(t))
        try:
            g = cfgmod.CFG(fi.node)
        except Exception:
            return False
        for cn in g.node_containing(call):
            ok = False
            for t, pol in g.path_conditions(cn):
                a = t.ast
                if isinstance(a, ast.Compare) and len(a.ops) == 1 \
                        and isinstance(a.left, ast.Constant) \
                        and a.left.value == "" and (
                            src(a.comparators[0]) in splits
                            or src(a.comparators[0]).startswith(
                                arg + ".split(")):
                    if (isinstance(a.ops[0], ast.In) and not pol) or (
                            isinstance(a.ops[0], ast.NotIn) and pol):
                        ok = True
            if not ok:
                return False
        return True

    def _patched_by_callee(self, call, excname, depth, fi=None):
        """Attributes of the caught exception assigned by a helper that the
        handler hands the exception to (`self._add_position(e)`)."""
        fi = fi or self._fi
        pos = [i for i, a in enumerate(call.args)
               if isinstance(a, ast.Name) and a.id == excname]
        kw = [k.arg for k in call.keywords
              if isinstance(k.value, ast.Name) and k.value.id == excname]
        if not pos and not kw:
            return []
        out = []
        try:
            callees = self.P.resolve_call(fi, call)
        except Exception:
            return []
        for c in callees:
            if c.kind != "repo" or c.fn is None:
                continue
            params = list(c.fn.params)
            if c.fn.cls is not None and c.how in (
                    "cha", "method", "bound", "byname", "field", "ctor",
                    "super") and params \
                    and ".<locals>." not in c.fn.qualname:
                params = params[1:]
            names = [params[i] for i in pos if i < len(params)] + [
                k for k in kw if k in params]
            for pn in names:
                for n in ast.walk(c.fn.node):
                    if isinstance(n, ast.Assign):
                        for t in n.targets:
                            if isinstance(t, ast.Attribute) and isinstance(
                                    t.value, ast.Name) and t.value.id == pn:
                                out.append(t.attr)
                    elif isinstance(n, ast.Call) and depth > 1:
                        out.extend(self._patched_by_callee(n, pn, depth - 1,
                                                           c.fn))
        return out

    def _try(self, st, cur):
        body = self._block(st.body, cur)
        remaining = dict(body)
        out = {}
        for h in st.handlers:
            hcls = self.handler_classes(h)
            caught = {}
            for k, v in list(remaining.items()):
                full = any(self.is_sub(k[0], hc) for hc in hcls)
                part = any(self.is_sub(hc, k[0]) for hc in hcls)
                if full or part:
                    caught[k] = v
                if full:
                    del remaining[k]
            patches = []
            if h.name:
                for n in ast.walk(h):
                    if isinstance(n, ast.Assign):
                        for t in n.targets:
                            if isinstance(t, ast.Attribute) and isinstance(
                                    t.value, ast.Name) \
                                    and t.value.id == h.name:
                                patches.append(t.attr)
                    elif isinstance(n, ast.Call):
                        patches.extend(self._patched_by_callee(n, h.name, 2))
            hctx = {"name": h.name, "items": caught, "classes": hcls,
                    "patches": tuple(sorted(set(patches)))}
            hb = self._block(h.body, hctx)
            self.handler_log[self._ident].append({
                "handler": h, "try": st, "classes": hcls, "caught": caught,
                "out": hb})
            self._merge(out, hb)
        self._merge(out, remaining)
        self._merge(out, self._block(st.orelse, cur))
        self._merge(out, self._block(st.finalbody, cur))
        return out


def is_noreturn_call(P, fi, call, ef=None):
    cs = P.resolve_call(fi, call)
    if not cs:
        return False
    for c in cs:
        if c.kind != "repo" or c.ambiguous:
            return False
        if not _noreturn_fn(P, c.fn, set()):
            return False
    return True


def _noreturn_fn(P, fi, stack):
    if fi.qualname in stack:
        return False
    cache = P.__dict__.setdefault("_noreturn_cache", {})
    if fi.qualname in cache:
        return cache[fi.qualname]
    stack = stack | {fi.qualname}
    ok = False
    body = fi.node.body
    has_return = any(isinstance(n, ast.Return) for n in walk_shallow(fi.node))
    has_yield = any(isinstance(n, (ast.Yield, ast.YieldFrom))
                    for n in walk_shallow(fi.node))
    last = body[-1] if body else None
    if not has_return and not has_yield and last is not None:
        if isinstance(last, ast.Raise):
            ok = True
        elif isinstance(last, ast.Expr) and isinstance(last.value, ast.Call):
            cs = P.resolve_call(fi, last.value)
            ok = bool(cs) and all(
                c.kind == "repo" and not c.ambiguous
                and _noreturn_fn(P, c.fn, stack) for c in cs)
    cache[fi.qualname] = ok
    return ok
