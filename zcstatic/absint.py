"""E5 -- finite decision tables by predicate abstraction.

A small path-sensitive abstract interpreter over *terms*.  Program values are
uninterpreted terms (parameters, constants, attribute reads, call results,
slices with affine integer bounds); every branch condition is reduced to atomic
predicates over terms (equality with a constant, three-way ordering,
truthiness, `is None`, isinstance, opaque call results).  All consistent
valuations of the atoms that a function actually consults are enumerated
(depth-first over decision sequences); each valuation yields one *path* with
its outcome (return term / raised class / fall-through) and its ordered list of
effects (stores and calls).  Atoms are opaque: nothing is handed to a solver;
consistency is a handful of built-in rules (a term equals at most one constant;
truthiness agrees with the constant it equals; `is None` implies falsy; one
ordering per pair).

Rules compare the resulting table with a reference written from the docs.
Terms print with parameters by position (P0, P1, ...) and locals inlined, so a
rename of locals or parameters does not change any atom.
"""
import ast
import itertools

from .model import dotted, src, walk_shallow
from .report import AnalysisError

MAX_PATHS = 20000


# ------------------------------------------------------------------ terms

def aff(base, k):
    if base is not None and base[0] == "aff":
        return aff(base[1], base[2] + k)
    if base is not None and base[0] == "const" and isinstance(base[1], int) \
            and not isinstance(base[1], bool):
        return ("const", base[1] + k)
    if k == 0 and base is not None:
        return base
    if base is None:
        return ("const", k)
    return ("aff", base, k)


def _add_parts(t):
    if t[0] == "binop" and t[1] == "Add":
        return _add_parts(t[2]) + _add_parts(t[3])
    return [t]


def mk_add(l, r):
    """`l + r` in canonical form: the chain is flattened (+ is associative
    for every type that has it), adjacent string constants are merged, empty
    strings dropped, and the result re-nested to the left."""
    parts = []
    for p in _add_parts(l) + _add_parts(r):
        if p[0] == "const" and isinstance(p[1], str):
            if p[1] == "" :
                continue
            if parts and parts[-1][0] == "const" and isinstance(
                    parts[-1][1], str):
                parts[-1] = ("const", parts[-1][1] + p[1])
                continue
        parts.append(p)
    if not parts:
        return ("const", "")
    out = parts[0]
    for p in parts[1:]:
        out = ("binop", "Add", out, p)
    return out


def _range_len(x):
    return ("call", ("global", "builtins.range"),
            (("call", ("global", "builtins.len"), (x,), ()),), ())


def mk_index(base, idx):
    """base[idx]; x[a:][k] is x[a+k] for non-negative constants; x[i] for the
    representative index i of range(len(x)) is the representative element
    of x."""
    if idx[0] in ("elem", "elem2") and idx[1] == _range_len(base):
        return (idx[0], base)
    if idx[0] == "const" and isinstance(idx[1], int) \
            and not isinstance(idx[1], bool):
        # a literal sequence indexed by a literal position: that element
        if base[0] in ("tuple", "list") and -len(base[1]) <= idx[1] < len(
                base[1]):
            return base[1][idx[1]]
        if base[0] == "const" and isinstance(base[1], tuple) \
                and -len(base[1]) <= idx[1] < len(base[1]):
            v = base[1][idx[1]]
            if isinstance(v, (str, int, float, bool, tuple, type(None),
                              frozenset, bytes)):
                return ("const", v)
    if base[0] == "call" and base[1][0] == "attr" \
            and base[1][2] == "partition" and len(base[2]) == 1 \
            and not base[3] and idx in (("const", 0), ("const", 2)):
        # x.partition(s)[0] is x.split(s, 1)[0]; [2] is x.split(s, 1)[1]
        # wherever s occurs in x (the only case in which the latter is
        # evaluated by the other spelling)
        sp = ("call", ("attr", base[1][1], "split"),
              (base[2][0], ("const", 1)), ())
        return ("index", sp, ("const", 0 if idx[1] == 0 else 1))
    if base[0] == "call" and base[1][0] == "attr" \
            and base[1][2] == "rpartition" and len(base[2]) == 1 \
            and not base[3] and idx in (("const", 0), ("const", 2)):
        # x.rpartition(s)[0] is x.rsplit(s, 1)[0]; [2] is x.rsplit(s, 1)[1]
        # wherever s occurs in x (as for partition)
        sp = ("call", ("attr", base[1][1], "rsplit"),
              (base[2][0], ("const", 1)), ())
        return ("index", sp, ("const", 0 if idx[1] == 0 else 1))
    if base[0] == "slice" and base[3] is None and idx[0] == "const" \
            and isinstance(idx[1], int) and idx[1] >= 0 \
            and base[2] is not None and base[2][0] == "const" \
            and isinstance(base[2][1], int) and base[2][1] >= 0:
        return ("index", base[1], ("const", base[2][1] + idx[1]))
    if base[0] == "binop" and base[1] == "Add" and idx[0] == "const" \
            and isinstance(idx[1], int) and idx[1] >= 0:
        first = _add_parts(base)[0]
        if first[0] == "slice" and first[2] is None and first[3] is not None \
                and first[3][0] == "const" and isinstance(first[3][1], int) \
                and idx[1] < first[3][1]:
            # (x[:h] + ...)[k] is x[k] for k < h (x at least h long, as the
            # other spelling of the same update requires)
            return ("index", first[1], idx)
    return ("index", base, idx)


def _percent_format(fmt_, arg):
    """'..%s..%r..' % arg as a concatenation (only %s, %r and %% specs)."""
    import re as _re
    pieces = _re.split(r"(%[sr%])", fmt_)
    if _re.search(r"%(?![sr%])", fmt_.replace("%%", "")):
        return None
    nholes = sum(1 for p in pieces if p in ("%s", "%r"))
    if arg[0] == "tuple":
        args = list(arg[1])
    else:
        args = [arg]
    if nholes != len(args):
        return None
    out = ("const", "")
    for p in pieces:
        if p == "%%":
            out = mk_add(out, ("const", "%"))
        elif p == "%s":
            out = mk_add(out, ("call", ("global", "builtins.str"),
                               (args.pop(0),), ()))
        elif p == "%r":
            out = mk_add(out, ("call", ("global", "builtins.repr"),
                               (args.pop(0),), ()))
        elif p:
            out = mk_add(out, ("const", p))
    return out


# results of standard-library calls that are named tuples: field -> index
NAMED_FIELDS = {
    "urllib.parse.urlparse": ("scheme", "netloc", "path", "params", "query",
                              "fragment"),
    "urllib.parse.urlsplit": ("scheme", "netloc", "path", "query",
                              "fragment"),
}


def const(v):
    return ("const", v)


def is_const(t):
    return t[0] == "const"


def fmt(t):
    """Stable, rename-robust text of a term."""
    if t is None:
        return "None"
    k = t[0]
    if k == "const":
        return repr(t[1])
    if k == "param":
        return "P%d" % t[1]
    if k == "self":
        return "self"
    if k == "free":
        return t[1]
    if k == "attr":
        return "%s.%s" % (fmt(t[1]), t[2])
    if k == "call":
        args = [fmt(a) for a in t[2]] + ["%s=%s" % (n, fmt(v))
                                         for n, v in t[3]]
        return "%s(%s)" % (fmt(t[1]), ", ".join(args))
    if k == "aff":
        return "%s%+d" % (fmt(t[1]), t[2])
    if k == "slice":
        return "%s[%s:%s]" % (fmt(t[1]), "" if t[2] is None else fmt(t[2]),
                              "" if t[3] is None else fmt(t[3]))
    if k == "index":
        return "%s[%s]" % (fmt(t[1]), fmt(t[2]))
    if k == "tuple":
        return "(%s)" % ", ".join(fmt(x) for x in t[1])
    if k == "list":
        return "[%s]" % ", ".join(fmt(x) for x in t[1])
    if k == "dict":
        return "{%s}" % ", ".join("%s: %s" % (fmt(a), fmt(b))
                                  for a, b in t[1])
    if k == "binop":
        return "(%s %s %s)" % (fmt(t[2]), t[1], fmt(t[3]))
    if k == "unop":
        return "(%s %s)" % (t[1], fmt(t[2]))
    if k == "fresh":
        return "<%s>" % t[1]
    if k == "get":
        return "%s[%s]" % (fmt(t[1]), fmt(t[2]))
    if k == "elem":
        return "%s[*]" % fmt(t[1])
    if k == "elem2":
        return "%s[*']" % fmt(t[1])
    if k == "copyof":
        return "copy(%s)" % fmt(t[1])
    if k == "newlist":
        return "[]#%d" % t[1]
    if k == "newdict":
        return "{}#%d" % t[1]
    if k == "ifexp":
        return "(%s if %s else %s)" % (fmt(t[2]), fmt_atom(t[1]), fmt(t[3]))
    if k == "bool":
        return fmt_atom(t[1])
    if k == "fstr":
        return "f'%s'" % "".join(x if isinstance(x, str) else "{%s}" % fmt(x)
                                 for x in t[1])
    if k == "global":
        return t[1]
    if k == "lambda":
        return "<lambda@%d>" % t[1]
    if k == "closure":
        try:
            body = "; ".join(ast.unparse(x) for x in t[2].body)
        except Exception:
            body = "?"
        return "<def: %s>" % body      # (the nested function's name is
        #                                   not behaviour)
    return repr(t)


def fmt_atom(a):
    k = a[0]
    if k == "eq":
        return "%s == %s" % (fmt(a[1]), fmt(a[2]))
    if k == "ord":
        return "ord(%s, %s)" % (fmt(a[1]), fmt(a[2]))
    if k == "truthy":
        return "bool(%s)" % fmt(a[1])
    if k == "isnone":
        return "%s is None" % fmt(a[1])
    if k == "is":
        return "%s is %s" % (fmt(a[1]), fmt(a[2]))
    if k == "isinstance":
        return "isinstance(%s, %s)" % (fmt(a[1]), a[2])
    if k == "contains":
        return "%s in %s" % (fmt(a[1]), fmt(a[2]))
    if k == "raises":
        return "raises(%s)" % fmt(a[1])
    if k == "loop":
        if len(a) > 2:
            return "loop(%s %s)" % (a[1], fmt(a[2]))
        return "loop(%s)" % a[1]
    return repr(a)


# ------------------------------------------------------------ boolean forms
# A condition is a tree: ('atom', atom) | ('not', c) | ('and', [c]) |
# ('or', [c]) | ('lit', bool) | ('ord3', atom, set-of-allowed)

def _is_message_term(t):
    """A string built from literal text (a message), as opposed to a value
    handed to the exception (a source text, a name)."""
    if t[0] == "const":
        return isinstance(t[1], str)
    if t[0] == "fstr":
        return any(isinstance(x, str) and x.strip() for x in t[1])
    if t[0] == "binop" and t[1] in ("Add", "Mod"):
        return _is_message_term(t[2]) or (t[1] == "Add"
                                          and _is_message_term(t[3]))
    if t[0] == "call" and t[1][0] == "attr" and t[1][2] in ("format", "join"):
        return _is_message_term(t[1][1])
    return False


def none_or_truthy(t):
    """Values that are either None or truthy: regex match objects."""
    if t[0] == "call":
        f = t[1]
        name = f[2] if f[0] == "attr" else (f[1] if f[0] == "global" else "")
        name = name.split(".")[-1]
        return name in ("match", "search", "fullmatch") or name.endswith(
            "_match")
    return False


def c_not(c):
    if c[0] == "lit":
        return ("lit", not c[1])
    if c[0] == "not":
        return c[1]
    return ("not", c)


class Infeasible(Exception):
    pass


class Abort(Exception):
    pass


class _Body:
    """A statement list presented as a handler-less try body."""

    def __init__(self, body):
        self.body = body
        self.handlers = []


class _EnvRef:
    """The defining environment of a nested function, by reference (late
    binding) and hashable, so that terms mentioning the closure can key
    dictionaries."""
    __slots__ = ("env",)

    def __init__(self, env):
        self.env = env

    def __repr__(self):
        return "<env>"

    # a closure is identified by its definition (every replay of a path
    # creates a new environment object for the same definition)
    def __eq__(self, other):
        return isinstance(other, _EnvRef)

    def __hash__(self):
        return 0


class Path:
    def __init__(self):
        self.valuation = {}      # atom -> value
        self.order = []          # atoms in the order consulted
        self.effects = []        # ('store', target term, value term) | ('call', term) | ...
        self.heap = {}           # location term -> value stored on this path
        self.builders = {}       # fresh list number -> elements appended so
                                 # far (None once a mutation is not tracked)
        self.outcome = None      # ('return', term) | ('raise', cls, args) | ('fall',)
        self.env = None

    def holds(self, atom, value=True):
        return self.valuation.get(atom) == value

    def cond_text(self):
        return ", ".join("%s=%s" % (fmt_atom(a), self.valuation[a])
                         for a in self.order)

    def outcome_text(self):
        o = self.outcome
        if o is None:
            return "?"
        if o[0] == "return":
            return "return " + fmt(o[1])
        if o[0] == "raise":
            return "raise %s" % o[1]
        return o[0]


class _Return(Exception):
    def __init__(self, term):
        self.term = term


class _Raise(Exception):
    def __init__(self, cls, args, node=None):
        self.cls = cls
        self.args_ = args
        self.node = node


class _Break(Exception):
    pass


class _Continue(Exception):
    pass


class Interp:
    """Enumerates the paths of one function.

    Parameters
      fi          FunctionInfo
      program     calls.Program (for callee resolution / no-return summaries)
      inline      predicate(FunctionInfo) -> bool: execute the callee inline
      loop_policy callable(for/while node) -> 'once' | 'skip' | 'zero-or-once'
      pure_calls  call results that are not recorded as effects
      max_inline  inlining depth
    """

    PURE_METHODS = {"lower", "upper", "strip", "rstrip", "lstrip", "split",
                    "rsplit", "partition", "rpartition", "startswith", "endswith", "find", "rfind",
                    "get", "keys", "items", "values", "group", "end", "start",
                    "match", "join", "replace", "format", "copy",
                    "isabstract", "issection", "ismulti", "allowUnnamed"}
    PURE_FUNCS = {"len", "str", "repr", "int", "float", "isinstance", "list",
                  "tuple", "dict", "getattr", "hasattr", "sorted", "range",
                  "bool", "callable", "min", "max", "iter", "type",
                  "reversed", "enumerate", "zip", "set", "frozenset", "any",
                  "all", "sum", "abs", "ord", "chr", "id", "hash", "super"}

    def __init__(self, fi, program, inline=None, loop_policy=None,
                 noreturn=None, assume=None, max_inline=3, bind=None,
                 try_raises=True, extra_pure=(), self_class=None,
                 exact_loops=False, virtual=None, rewrite=None):
        self.fi = fi
        # a rule's checked data-structure invariant, as a rewrite of
        # attribute terms (e.g. "the name of a child's info is its key")
        self.rewrite = rewrite
        # methods of the receiver that exist only in the reference (a private
        # helper the live code has inlined): name -> reference function
        self.virtual = virtual or {}
        self.P = program
        self.m = program.model
        self._exc_qual = {}   # short name of a caught class -> qualname
        user_inline = inline or (lambda f: False)
        self.inline = lambda f: user_inline(f) or is_unknown_helper(f)
        self.loop_policy = loop_policy or (lambda node: "once")
        self.assume = assume or {}
        self.max_inline = max_inline
        self.bind = bind or {}
        self.try_raises = try_raises
        self.extra_pure = set(extra_pure)
        # the class of the receiver when a method is analysed for a
        # particular (sub)class: its class-level constants fold
        self.self_class = self_class
        # bounded-exact reading of loops: a path with one (two) rounds of a
        # loop stands for a run over exactly one (two) elements, so lists
        # built inside keep their exact contents
        self.exact_loops = exact_loops
        from . import excflow
        self._noreturn = noreturn or (
            lambda f, call: excflow.is_noreturn_call(self.P, f, call))
        self.fresh_counter = 0

    def _super_for_receiver(self, fi, name):
        """The method `super().name` denotes inside `fi` when the receiver is
        an instance of self.self_class (None when no receiver class is set,
        or fi's class is not on its MRO)."""
        cq = self.self_class
        if cq is None or fi.cls is None or fi is not self.fi:
            return None
        mro = self.m.mro(cq)
        own = getattr(fi.cls, "qualname", None)
        if own not in mro or own == cq:
            return None
        for k in mro[mro.index(own) + 1:]:
            c = self.m.classes.get(k)
            if c is None:
                return None
            if name in c.methods:
                return c.methods[name]
        return None

    # ----------------------------------------------------------- enumeration
    def paths(self):
        """All consistent paths (depth-first over decision sequences)."""
        out = []
        prefix = []          # list of (atom, value) forced decisions
        while True:
            p = self._run(prefix)
            if p is not None:
                out.append(p)
                if len(out) > MAX_PATHS:
                    raise AnalysisError("too many paths in %s"
                                        % self.fi.qualname)
            # next prefix: flip the last decision that still has alternatives
            trail = self._trail
            while trail:
                atom, value, alts = trail.pop()
                if alts:
                    trail.append((atom, alts[0], alts[1:]))
                    break
            else:
                break
            prefix = trail
        return out

    def _run(self, prefix):
        self._trail = [(a, v, alts) for (a, v, alts) in prefix]
        self._pos = 0
        path = Path()
        self.path = path
        self.fresh_counter = 0
        env = {}
        node = self.fi.node
        a = node.args
        names = [x.arg for x in a.posonlyargs + a.args]
        for i, nme in enumerate(names):
            bound = self.fi.cls is not None and not any(
                getattr(d, "id", None) == "staticmethod"
                for d in node.decorator_list)
            if i == 0 and bound:
                env[nme] = ("self",)
            else:
                env[nme] = ("param", i - (1 if bound else 0))
        if a.vararg:
            env[a.vararg.arg] = ("free", "*" + a.vararg.arg)
        if a.kwarg:
            env[a.kwarg.arg] = ("free", "**" + a.kwarg.arg)
        env.update(self.bind)
        self.depth = 0
        self.loop_depth = 0
        self.fstack = [self.fi]
        try:
            try:
                self._block(node.body, env)
                path.outcome = ("fall",)
            except _Return as r:
                path.outcome = ("return", r.term)
            except _Raise as r:
                path.outcome = ("raise", r.cls, r.args_)
        except Infeasible:
            return None
        path.env = env
        return path

    # -------------------------------------------------------------- deciding
    def decide(self, atom, domain=(True, False)):
        """Value of an atom on this path (consulting the forced prefix first,
        then choosing the first consistent value and recording alternatives)."""
        path = self.path
        if atom in path.valuation:
            return path.valuation[atom]
        if atom in self.assume:
            v = self.assume[atom]
            path.valuation[atom] = v
            path.order.append(atom)
            return v
        if self._pos < len(self._trail):
            a, v, alts = self._trail[self._pos]
            if a != atom:
                raise AnalysisError(
                    "non-deterministic replay in %s: expected %s, got %s"
                    % (self.fi.qualname, fmt_atom(a), fmt_atom(atom)))
            self._pos += 1
            if not self._consistent(atom, v):
                raise Infeasible()
            path.valuation[atom] = v
            path.order.append(atom)
            return v
        cands = [v for v in domain if self._consistent(atom, v)]
        if not cands:
            raise Infeasible()
        v = cands[0]
        self._trail.append((atom, v, cands[1:]))
        self._pos += 1
        path.valuation[atom] = v
        path.order.append(atom)
        return v

    def _consistent(self, atom, value):
        val = self.path.valuation
        k = atom[0]
        if k in ("truthy", "isnone") and none_or_truthy(atom[1]):
            other = ("isnone" if k == "truthy" else "truthy", atom[1])
            if other in val and val[other] == value:
                return False
        if k == "eq":
            t, c = atom[1], atom[2]
            if value:
                for a2, v2 in val.items():
                    if a2[0] == "eq" and a2[1] == t and v2 and a2[2] != c:
                        return False
                    if a2[0] == "truthy" and a2[1] == t and is_const(c) \
                            and bool(c[1]) != v2:
                        return False
                    if a2[0] == "isnone" and a2[1] == t and is_const(c) \
                            and v2 != (c[1] is None):
                        return False
            else:
                for a2, v2 in val.items():
                    if a2[0] == "isnone" and a2[1] == t and v2 \
                            and c == const(None):
                        return False
        elif k == "truthy":
            t = atom[1]
            for a2, v2 in val.items():
                if a2[0] == "eq" and a2[1] == t and v2 and is_const(a2[2]) \
                        and bool(a2[2][1]) != value:
                    return False
                if a2[0] == "isnone" and a2[1] == t and v2 and value:
                    return False
        elif k == "ord" and is_const(atom[2]) and isinstance(
                atom[2][1], (int, float)):
            t, c = atom[1], atom[2][1]
            for a2, v2 in val.items():
                if a2[0] == "ord" and a2[1] == t and is_const(a2[2]) \
                        and isinstance(a2[2][1], (int, float)):
                    c2 = a2[2][1]
                    if c2 == c:
                        continue
                    # v ? c2 known, v ? c proposed
                    if c2 < c and v2 in "<=" and value != "<":
                        return False
                    if c2 > c and v2 in ">=" and value != ">":
                        return False
                    if c > c2 and value in ">=" and v2 != ">":
                        return False
                    if c < c2 and value in "<=" and v2 != "<":
                        return False
        elif k == "isnone":
            t = atom[1]
            for a2, v2 in val.items():
                if a2[0] == "truthy" and a2[1] == t and v2 and value:
                    return False
                if a2[0] == "eq" and a2[1] == t and v2 and is_const(a2[2]) \
                        and (a2[2][1] is None) != value:
                    return False
        return True

    # ---------------------------------------------------------- conditions
    def truth(self, node, env):
        """Evaluate an expression as a branch condition -> bool."""
        if isinstance(node, ast.BoolOp):
            if isinstance(node.op, ast.And):
                for v in node.values:
                    if not self.truth(v, env):
                        return False
                return True
            for v in node.values:
                if self.truth(v, env):
                    return True
            return False
        if isinstance(node, ast.UnaryOp) and isinstance(node.op, ast.Not):
            return not self.truth(node.operand, env)
        if isinstance(node, ast.Compare):
            left = self.eval(node.left, env)
            res = True
            for op, rn in zip(node.ops, node.comparators):
                right = self.eval(rn, env)
                if not self.compare(op, left, right, rn, env):
                    return False
                left = right
            return res
        if isinstance(node, ast.Constant):
            return bool(node.value)
        if isinstance(node, ast.Call) and isinstance(node.func, ast.Name) \
                and node.func.id == "isinstance" and len(node.args) == 2:
            t = self.eval(node.args[0], env)
            c = src(node.args[1]).split(".")[-1]
            known = self._caught_isinstance(t, node.args[1])
            if known is not None:
                return known
            return self.decide(("isinstance", t, c))
        t = self.eval(node, env)
        return self.term_truth(t)

    def _caught_isinstance(self, t, cnode):
        """isinstance(e, C) for a caught exception whose class is known."""
        if not (isinstance(t, tuple) and len(t) == 2 and t[0] == "fresh"
                and str(t[1]).startswith("exc:caught:")):
            return None
        q = self._exc_qual.get(str(t[1])[11:])
        if q is None:
            return None
        types = cnode.elts if isinstance(cnode, ast.Tuple) else [cnode]
        res = False
        for tn in types:
            cq = self.m.resolve(self.fstack[-1].module, tn)
            if cq is None or cq not in self.m.classes:
                return None
            if self.m.is_subclass(q, cq):
                res = True
        return res

    def _prefix_suffix_atom(self, t):
        """x.startswith(c) / x.endswith(c) with a constant c and no position
        is the same observation as x[:n] == c / x[-n:] == c."""
        if t[0] == "call" and t[1][0] == "attr" and t[1][2] in (
                "startswith", "endswith") and len(t[2]) == 1 and not t[3] \
                and is_const(t[2][0]) and isinstance(t[2][0][1], str) \
                and t[2][0][1]:
            c = t[2][0][1]
            if t[1][2] == "startswith":
                return ("eq", ("slice", t[1][1], None, const(len(c))),
                        const(c))
            return ("eq", ("slice", t[1][1], const(-len(c)), None), const(c))
        return None

    def term_truth(self, t):
        a = self._prefix_suffix_atom(t) if t[0] == "call" else None
        if a is not None:
            return self.decide(a)
        if t[0] == "call" and t[1] == ("global", "builtins.isinstance") \
                and len(t[2]) == 2 and not t[3]:
            # the value of isinstance(x, C) is the same observation as the
            # test `if isinstance(x, C)`
            return self.decide(("isinstance", t[2][0],
                                fmt(t[2][1]).split(".")[-1]))
        if t[0] == "index" and t[2] == ("const", 1) and t[1][0] == "call" \
                and t[1][1][0] == "attr" and t[1][1][2] == "partition" \
                and len(t[1][2]) == 1 and not t[1][3]:
            # bool(x.partition(s)[1])  is  s in x
            return self.decide(("contains", t[1][2][0], t[1][1][1]))
        if t[0] == "const":
            return bool(t[1])
        if t[0] == "get":
            if not self.decide(("contains", t[2], t[1])):
                return False
            return self.decide(("truthy", ("index", t[1], t[2])))
        if t[0] == "bool":
            return self.decide(t[1])
        if t[0] in ("tuple", "list", "dict"):
            return bool(t[1])
        if t[0] in ("closure", "lambda"):
            return True
        if t[0] == "binop" and t[1] == "Add" and any(
                p[0] == "const" and isinstance(p[1], str) and p[1]
                for p in _add_parts(t)):
            return True     # a string with a non-empty literal part
        if t[0] == "ifexp":
            return self.term_truth(t[2] if self.decide(t[1]) else t[3])
        return self.decide(("truthy", t))

    def compare(self, op, l, r, rnode=None, env=None):
        # len(x) compared with 0 / 1 is the truthiness of the container x
        for a, b, flip in ((l, r, False), (r, l, True)):
            if a[0] == "call" and a[1] == ("global", "builtins.len") \
                    and len(a[2]) == 1 and is_const(b) and b[1] in (0, 1) \
                    and not isinstance(b[1], bool):
                o = type(op)
                if flip and o in (ast.Lt, ast.LtE, ast.Gt, ast.GtE):
                    o = {ast.Lt: ast.Gt, ast.LtE: ast.GtE, ast.Gt: ast.Lt,
                         ast.GtE: ast.LtE}[o]
                nonempty = {(ast.Gt, 0): True, (ast.GtE, 1): True,
                            (ast.NotEq, 0): True, (ast.Eq, 0): False,
                            (ast.Lt, 1): False, (ast.LtE, 0): False}.get(
                                (o, b[1]))
                if nonempty is not None:
                    t = self.term_truth(a[2][0])
                    return t if nonempty else not t
        if isinstance(op, (ast.Eq, ast.NotEq)):
            v = self.equal(l, r)
            return v if isinstance(op, ast.Eq) else not v
        if isinstance(op, (ast.Is, ast.IsNot)):
            if r == const(None):
                v = self.is_none(l)
            elif l == const(None):
                v = self.is_none(r)
            elif l == r:
                v = True
            else:
                v = self.decide(("is",) + tuple(sorted([l, r], key=repr)))
            return v if isinstance(op, ast.Is) else not v
        if isinstance(op, (ast.In, ast.NotIn)):
            if r[0] == "get" and self.path.valuation.get(
                    ("contains", r[2], r[1])) is True:
                # d.get(k) where k is known to be in d  is  d[k]
                r = ("index", r[1], r[2])
            tbl = self._global_table(r)
            if tbl is not None:
                # membership in a module-level literal table
                r = const(tuple(tbl))
            if r[0] == "dict" and all(is_const(k) for k, _ in r[1]) \
                    and not any(loc[0] == "index" and loc[1] == r
                                for loc in self.path.heap):
                # membership in a local dict display that has not been
                # stored into: one of its literal keys
                v = any(self.equal(l, k) for k, _ in r[1])
                return v if isinstance(op, ast.In) else not v
            if r[0] in ("tuple", "list") and all(is_const(x) for x in r[1]):
                v = any(self.equal(l, x) for x in r[1])
            elif r[0] == "const" and isinstance(r[1], (tuple, frozenset,
                                                        list)):
                v = any(self.equal(l, const(x)) for x in r[1])
            elif r[0] == "const" and isinstance(r[1], str) \
                    and is_const(l):
                v = l[1] in r[1]
            else:
                v = self.decide(("contains", l, r))
            return v if isinstance(op, ast.In) else not v
        # s.find(c) compared with 0 / -1 is a containment test
        for a, b, flip in ((l, r, False), (r, l, True)):
            if a[0] == "call" and a[1][0] == "attr" and a[1][2] == "find" \
                    and len(a[2]) == 1 and is_const(b) and b[1] in (0, -1):
                inside = self.decide(("contains", a[2][0], a[1][1]))
                o = type(op)
                if flip:
                    o = {ast.Lt: ast.Gt, ast.LtE: ast.GtE, ast.Gt: ast.Lt,
                         ast.GtE: ast.LtE}[o]
                if b[1] == 0:
                    if o is ast.GtE:
                        return inside
                    if o is ast.Lt:
                        return not inside
                else:
                    if o is ast.Gt:
                        return inside
                    if o is ast.LtE:
                        return not inside
        # ordering
        if is_const(l) and is_const(r):
            try:
                return {ast.Lt: l[1] < r[1], ast.LtE: l[1] <= r[1],
                        ast.Gt: l[1] > r[1], ast.GtE: l[1] >= r[1]}[type(op)]
            except TypeError:
                raise AnalysisError("cannot order constants")
        key, flip = (l, r), False
        if is_const(l) or (not is_const(r) and repr(l) > repr(r)):
            key, flip = (r, l), True
        o = self.decide(("ord",) + key, domain=("<", "=", ">"))
        if flip:
            o = {"<": ">", ">": "<", "=": "="}[o]
        return {ast.Lt: o == "<", ast.LtE: o in "<=", ast.Gt: o == ">",
                ast.GtE: o in ">="}[type(op)]

    def equal(self, l, r):
        if l == r:
            return True
        if is_const(l) and is_const(r):
            return l[1] == r[1]
        if is_const(l):
            l, r = r, l
        if is_const(r):
            if l[0] in ("tuple",) and isinstance(r[1], tuple):
                if len(l[1]) != len(r[1]):
                    return False
                return all(self.equal(a, const(b))
                           for a, b in zip(l[1], r[1]))
            if l[0] == "bool":
                return self.decide(l[1]) == r[1]
            if r[1] is None:
                return self.is_none(l)
            if r[1] == "" and isinstance(r[1], str):
                # s == '' is `not s` for the strings it is asked of
                return not self.term_truth(l)
            if isinstance(r[1], int) and not isinstance(r[1], bool):
                return self.decide(("ord", l, r),
                                   domain=("=", "<", ">")) == "="
            return self.decide(("eq", l, r))
        if l[0] == "tuple" and r[0] == "tuple":
            if len(l[1]) != len(r[1]):
                return False
            return all(self.equal(a, b) for a, b in zip(l[1], r[1]))
        key = (l, r) if repr(l) <= repr(r) else (r, l)
        return self.decide(("ord",) + key, domain=("=", "<", ">")) == "="

    def is_none(self, t):
        if is_const(t):
            return t[1] is None
        if t[0] == "get":
            if not self.decide(("contains", t[2], t[1])):
                return True
            if t[1][0] == "newdict" and not self._stores_non_none(t[1]):
                # a mapping filled in this activation with values that may
                # be None (a caller's table copied under converted keys):
                # d.get(k) is None also when k maps to None
                return self.decide(("isnone", ("index", t[1], t[2])))
            # assumption (fields, module tables, parameters): the mapping
            # stores no None values
            return False
        if t[0] in ("tuple", "list", "dict", "bool", "closure", "fstr",
                    "newlist", "newdict", "binop", "slice", "copyof"):
            return False
        if t[0] == "call" and t[1][0] == "attr" and t[1][2] in (
                "lower", "upper", "strip", "lstrip", "rstrip", "split",
                "rsplit", "replace", "join", "format", "group", "items",
                "keys", "values", "copy", "startswith", "endswith"):
            return False      # these never return None (group() excepted
                              # for optional groups: not used with is None)
        if t[0] == "call" and t[1][0] == "global" and (
                t[1][1] in self.m.classes
                or self._is_exception_class(t[1][1])):
            return False      # an instance just constructed
        return self.decide(("isnone", t))

    def _namedtuples(self):
        """qualified name -> field names, for module-level
        `X = collections.namedtuple('X', fields)` with literal fields."""
        tab = getattr(self.m, "_namedtuple_table", None)
        if tab is None:
            tab = {}
            for mod in self.m.modules.values():
                for nm, vals in mod.assigns.items():
                    if len(vals) != 1 or not isinstance(vals[0], ast.Call):
                        continue
                    c = vals[0]
                    if src(c.func) not in ("collections.namedtuple",
                                           "namedtuple") or len(c.args) != 2:
                        continue
                    f = c.args[1]
                    fields = None
                    if isinstance(f, (ast.Tuple, ast.List)) and all(
                            isinstance(e, ast.Constant) and isinstance(
                                e.value, str) for e in f.elts):
                        fields = [e.value for e in f.elts]
                    elif isinstance(f, ast.Constant) and isinstance(
                            f.value, str):
                        fields = f.value.replace(",", " ").split()
                    if fields and not c.keywords:
                        tab[mod.name + "." + nm] = fields
            self.m._namedtuple_table = tab
        return tab

    def _nt_terms(self):
        t = getattr(self.path, "nt_terms", None)
        if t is None:
            t = self.path.nt_terms = {}
        return t

    def _namedtuple_of(self, base):
        """Field names when `base` is known to be an instance of a private
        namedtuple: built by its constructor on this path, or the result of
        a repository function all of whose returns construct it."""
        try:
            hit = self._nt_terms().get(base)
        except TypeError:
            hit = None
        if hit is not None:
            return hit
        tab = self._namedtuples()
        if not tab or base[0] != "call" or base[1][0] != "global":
            return None
        fn = self.m.functions.get(base[1][1])
        if fn is None:
            return None
        cache = getattr(self.m, "_nt_returns", None)
        if cache is None:
            cache = self.m._nt_returns = {}
        if fn.qualname not in cache:
            kinds = set()
            for n in walk_shallow(fn.node):
                if isinstance(n, ast.Return):
                    q = None
                    if isinstance(n.value, ast.Call):
                        q = self.m.resolve(fn.module, n.value.func)
                    kinds.add(q if q in tab else None)
            cache[fn.qualname] = tab[kinds.pop()] if len(kinds) == 1 \
                and None not in kinds else None
        return cache[fn.qualname]

    def _stores_non_none(self, d):
        """Every value this activation has stored into the local mapping d is
        known not to be None."""
        for e in self.path.effects:
            if e[0] == "item-store" and e[1] == d:
                v = e[3]
                if is_const(v):
                    if v[1] is None:
                        return False
                    continue
                if v[0] in ("tuple", "list", "dict", "newlist", "newdict",
                            "fstr", "closure", "binop"):
                    continue
                if v[0] == "call" and v[1][0] == "global" and (
                        v[1][1] in self.m.classes
                        or self._is_exception_class(v[1][1])):
                    continue
                return False
        return True

    # ---------------------------------------------------------- expressions
    def fresh(self, hint):
        self.fresh_counter += 1
        return ("fresh", "%s#%d" % (hint, self.fresh_counter))

    def eval(self, node, env):
        if isinstance(node, ast.Constant):
            return const(node.value)
        if isinstance(node, ast.Name):
            if node.id in env:
                return env[node.id]
            # closure / module-level / builtin
            return self.global_term(node.id)
        if isinstance(node, ast.Attribute):
            base = self.eval(node.value, env)
            if base[0] == "global":
                return ("global", base[1] + "." + node.attr)
            if base == ("self",) and self.self_class is not None \
                    and isinstance(node.ctx, ast.Load):
                c = self._class_constant(node.attr)
                if c is not None:
                    return c
            if isinstance(node.ctx, ast.Load):
                try:
                    hit = self.path.heap.get(("attr", base, node.attr))
                except TypeError:
                    hit = None
                if hit is not None:
                    return hit
            if base[0] == "call" and base[1][0] == "global" \
                    and node.attr in NAMED_FIELDS.get(base[1][1], ()):
                return ("index", base, const(
                    NAMED_FIELDS[base[1][1]].index(node.attr)))
            nt = self._namedtuple_of(base)
            if nt is not None and node.attr in nt:
                # a private namedtuple is the tuple of its fields
                return mk_index(base, const(nt.index(node.attr)))
            t = ("attr", base, node.attr)
            if self.rewrite is not None:
                t = self.rewrite(t)
            return t
        if isinstance(node, ast.Tuple):
            return ("tuple", tuple(self.eval(e, env) for e in node.elts))
        if isinstance(node, ast.List) and any(
                isinstance(e, ast.Starred) for e in node.elts):
            # [*a, x, *b] is a + [x] + b (as lists)
            out, run_ = None, []

            def flush(out):
                if run_:
                    seg = ("list", tuple(run_))
                    del run_[:]
                    return seg if out is None else mk_add(out, seg)
                return out
            for e in node.elts:
                if isinstance(e, ast.Starred):
                    out = flush(out)
                    v = self.eval(e.value, env)
                    out = v if out is None else mk_add(out, v)
                else:
                    run_.append(self.eval(e, env))
            return flush(out)
        if isinstance(node, ast.List):
            if not node.elts:
                # an empty display is a fresh mutable object: later appends
                # are effects, its truthiness is not known statically
                self.fresh_counter += 1
                self.path.builders[self.fresh_counter] = []
                return ("newlist", self.fresh_counter)
            return ("list", tuple(self.eval(e, env) for e in node.elts))
        if isinstance(node, ast.Set):
            # a set display used for membership: its elements
            return ("tuple", tuple(self.eval(e, env) for e in node.elts))
        if isinstance(node, ast.Dict):
            if not node.keys:
                self.fresh_counter += 1
                return ("newdict", self.fresh_counter)
            return ("dict", tuple((self.eval(k, env), self.eval(v, env))
                                  for k, v in zip(node.keys, node.values)))
        if isinstance(node, ast.JoinedStr):
            # f"a{x}b{y!r}" is the concatenation 'a' + x + 'b' + repr(y)
            # (plain {x} holes are taken to hold strings, as the operands of
            # the + spelling must)
            out = const("")
            for v in node.values:
                if isinstance(v, ast.Constant):
                    out = mk_add(out, const(str(v.value)))
                    continue
                t = self.eval(v.value, env)
                if v.format_spec is not None:
                    t = ("call", ("global", "builtins.format"),
                         (t, self.eval(v.format_spec, env)), ())
                elif v.conversion == ord("r"):
                    t = ("call", ("global", "builtins.repr"), (t,), ())
                elif v.conversion == ord("s"):
                    t = ("call", ("global", "builtins.str"), (t,), ())
                elif v.conversion == ord("a"):
                    t = ("call", ("global", "builtins.ascii"), (t,), ())
                out = mk_add(out, t)
            return out
        if isinstance(node, ast.Subscript):
            base = self.eval(node.value, env)
            sl = node.slice
            if isinstance(sl, ast.Slice):
                if sl.step is not None:
                    raise AnalysisError("slice step unsupported")
                lo = self.eval_int(sl.lower, env) if sl.lower else None
                hi = self.eval_int(sl.upper, env) if sl.upper else None
                if lo == const(0):
                    lo = None
                if lo is None and hi is None:
                    return ("copyof", base)
                return ("slice", base, lo, hi)
            idx = self.eval(sl, env)
            if isinstance(node.ctx, ast.Load) and base[0] == "global":
                tbl = self._global_dict(base)
                if tbl is not None and all(isinstance(
                        k, (str, int, type(None))) for k in tbl):
                    # lookup in a module-level literal table: the value of
                    # the key the path has established (KeyError otherwise)
                    for k, v in tbl.items():
                        if self.equal(idx, const(k)):
                            if isinstance(v, (str, int, float, bool,
                                              type(None), tuple)):
                                return const(v)
                            break
                    else:
                        raise _Raise("builtins.KeyError", (idx,), node)
            if isinstance(node.ctx, ast.Load) and base[0] == "dict" \
                    and all(is_const(k) for k, _ in base[1]):
                # a local dict display: the latest store whose key equals the
                # index on this path, else the literal entry
                for loc, val in reversed(list(self.path.heap.items())):
                    if loc[0] == "index" and loc[1] == base:
                        if loc[2] == idx or (not (is_const(loc[2])
                                                  and is_const(idx))
                                             and self.equal(loc[2], idx)):
                            return val
                for k, v in base[1]:
                    if self.equal(idx, k):
                        return v
                raise _Raise("builtins.KeyError", (idx,), node)
            if isinstance(node.ctx, ast.Load):
                try:
                    hit = self.path.heap.get(("index", base, idx))
                except TypeError:
                    hit = None
                if hit is not None:
                    return hit
            if is_const(idx) and isinstance(idx[1], int) \
                    and base[0] not in ("tuple", "list", "dict"):
                self.path.effects.append(("index-eval", base, idx,
                                          len(self.path.order), node))
            if base[0] == "slice" and base[3] is None and is_const(idx) \
                    and isinstance(idx[1], int) and idx[1] >= 0 \
                    and base[2] is not None and is_const(base[2]) \
                    and isinstance(base[2][1], int) and base[2][1] >= 0:
                # x[a:][k] is x[a+k]
                return ("index", base[1], const(base[2][1] + idx[1]))
            if base[0] in ("tuple", "list") and is_const(idx) \
                    and isinstance(idx[1], int):
                try:
                    return base[1][idx[1]]
                except IndexError:
                    raise _Raise("builtins.IndexError", ())
            return mk_index(base, idx)
        if isinstance(node, ast.BinOp):
            l = self.eval(node.left, env)
            r = self.eval(node.right, env)
            if isinstance(node.op, (ast.Add, ast.Sub)):
                sign = 1 if isinstance(node.op, ast.Add) else -1
                if is_const(r) and isinstance(r[1], int) \
                        and not isinstance(r[1], bool) and not (
                            is_const(l) and isinstance(l[1], str)):
                    return aff(l, sign * r[1])
                if is_const(l) and isinstance(l[1], int) and sign == 1 \
                        and not isinstance(l[1], bool) and not (
                            is_const(r) and isinstance(r[1], str)):
                    return aff(r, l[1])
            if is_const(l) and is_const(r):
                try:
                    v = {ast.Add: lambda a, b: a + b,
                         ast.Sub: lambda a, b: a - b,
                         ast.Mult: lambda a, b: a * b,
                         ast.Mod: lambda a, b: a % b}[type(node.op)](l[1],
                                                                     r[1])
                    return const(v)
                except Exception:
                    pass
            if isinstance(node.op, ast.Add):
                return mk_add(l, r)
            if isinstance(node.op, ast.Mod) and is_const(l) \
                    and isinstance(l[1], str):
                f = _percent_format(l[1], r)
                if f is not None:
                    return f
            return ("binop", type(node.op).__name__, l, r)
        if isinstance(node, ast.UnaryOp):
            v = self.eval(node.operand, env)
            if isinstance(node.op, ast.USub) and is_const(v):
                return const(-v[1])
            if isinstance(node.op, ast.Not):
                return const(not self.term_truth(v))
            return ("unop", type(node.op).__name__, v)
        if isinstance(node, ast.Compare) or isinstance(node, ast.BoolOp):
            if isinstance(node, ast.BoolOp):
                # value semantics of and/or
                vals = node.values
                for i, v in enumerate(vals):
                    t = self.eval(v, env)
                    last = i == len(vals) - 1
                    if last:
                        return t
                    tr = self.term_truth(t)
                    if isinstance(node.op, ast.And) and not tr:
                        return t
                    if isinstance(node.op, ast.Or) and tr:
                        return t
            return const(self.truth(node, env))
        if isinstance(node, ast.IfExp):
            if self.truth(node.test, env):
                return self.eval(node.body, env)
            return self.eval(node.orelse, env)
        if isinstance(node, ast.Call):
            return self.call(node, env)
        if isinstance(node, ast.Lambda):
            return ("lambda", node.lineno)
        if isinstance(node, (ast.ListComp, ast.GeneratorExp, ast.SetComp,
                             ast.DictComp)):
            return self.comprehension(node, env)
        if isinstance(node, ast.Starred):
            return ("unop", "star", self.eval(node.value, env))
        if isinstance(node, ast.NamedExpr):
            # (x := e): e's value, and x is bound to it in the function's
            # scope (a comprehension's own scope is passed through)
            v = self.eval(node.value, env)
            e2 = env
            while e2 is not None:
                e2[node.target.id] = v
                e2 = e2.get("<enclosing scope>")
            return v
        raise AnalysisError("expression %s outside the interpreter "
                            "vocabulary (%s:%d)"
                            % (type(node).__name__, self.fi.qualname,
                               getattr(node, "lineno", 0)))

    def _map_element(self, it, el, node):
        """Element of map(f, xs) for the representative element of xs."""
        f = it[2][0]
        if f[0] == "global" and f[1] in self.m.functions \
                and self.inline(self.m.functions[f[1]]) \
                and self.depth < self.max_inline:
            return self.inline_call(self.m.functions[f[1]], None, (el,), (),
                                    None, node)
        if f[0] == "attr" and f[1] == ("self",) and self.fi.cls is not None \
                and self.depth < self.max_inline:
            # map(self._helper, xs): the bound (or static) method, inline
            cq = self.self_class or getattr(self.fi.cls, "qualname", None)
            meth = self.m.lookup_method(cq, f[2]) if cq else None
            if meth is not None and self.inline(meth):
                decos = {getattr(d, "id", getattr(d, "attr", None))
                         for d in meth.node.decorator_list}
                recv = None if "staticmethod" in decos else f[1]
                return self.inline_call(meth, recv, (el,), (), None, node)
        t = ("call", f, (el,), ())
        if not self.is_pure(f):
            self.path.effects.append(("call", t, node))
        return t

    def comprehension(self, node, env, into=None):
        if isinstance(node, ast.GeneratorExp) and into is None \
                and len(node.generators) == 1 \
                and not node.generators[0].is_async \
                and isinstance(node.generators[0].iter, (ast.Tuple, ast.List)) \
                and len(node.generators[0].iter.elts) <= 4 \
                and not any(isinstance(e, ast.Starred)
                            for e in node.generators[0].iter.elts):
            # (f(x) for x in (a, b, c)) consumed as a whole (unpacked,
            # joined, ...): the tuple of the results, in order
            g = node.generators[0]
            env2 = dict(env)
            out = []
            for e in g.iter.elts:
                self.assign(g.target, self.eval(e, env2), env2, node)
                if all(self.truth(c, env2) for c in g.ifs):
                    out.append(self.eval(node.elt, env2))
            return ("tuple", tuple(out))
        if isinstance(node, (ast.ListComp, ast.GeneratorExp)) \
                and len(node.generators) >= 1 \
                and not any(g.is_async for g in node.generators) \
                and (isinstance(node, ast.ListComp) or into is not None):
            # [f(x) for x in xs if c]  is  r = []; for x in xs: if c:
            # r.append(f(x))  -- the same events in the same order (several
            # `for` clauses nest)
            env2 = dict(env)
            env2["<enclosing scope>"] = env
            if into is None:
                self.fresh_counter += 1
                res = ("newlist", self.fresh_counter)
                self.path.builders[self.fresh_counter] = None
            else:
                res = into
            first_it = self.eval(node.generators[0].iter, env2)
            twice = self.loop_policy(node) == "twice"
            # exact contents are known when every `for` clause runs over a
            # short literal sequence (fully unrolled); a clause over anything
            # else makes the result inexact (see gen below)
            exact = (first_it[0] in ("tuple", "list") and len(first_it[1]) <= 4
                     and not self.loop_depth) or (
                         self.exact_loops and len(node.generators) == 1)
            if res[0] == "newlist":
                if exact and (into is None or self.path.builders.get(
                        res[1]) is not None):
                    if into is None:
                        self.path.builders[res[1]] = []
                else:
                    self.path.builders[res[1]] = None

            def gen(i, env3):
                if i == len(node.generators):
                    v = self.eval(node.elt, env3)
                    self.path.effects.append(
                        ("call", ("call", ("attr", res, "append"), (v,), ()),
                         node))
                    if exact and res[0] == "newlist" and \
                            self.path.builders.get(res[1]) is not None:
                        self.path.builders[res[1]] = \
                            self.path.builders[res[1]] + [v]
                    return
                g = node.generators[i]
                it = first_it if i == 0 else self.eval(g.iter, env3)
                if it[0] in ("tuple", "list") and len(it[1]) <= 4:
                    elems = list(it[1])
                    rep = False
                elif it[0] == "call" and it[1] == ("global", "builtins.map") \
                        and len(it[2]) == 2 and not it[3]:
                    self.path.effects.append(("loop-enter", node.lineno,
                                              it[2][1], node))
                    elems = [self._map_element(it, ("elem", it[2][1]), node)]
                    rep = True
                else:
                    elems = [("elem", it)]
                    if twice and self.decide(("loop", "second", it)):
                        elems.append(("elem2", it))
                    self.path.effects.append(("loop-enter", node.lineno, it,
                                              node))
                    rep = True
                    if res[0] == "newlist" and not self.exact_loops:
                        self.path.builders[res[1]] = None
                self.loop_depth += 1
                try:
                    for el in elems:
                        self.assign(g.target, el, env3, node)
                        if all(self.truth(c, env3) for c in g.ifs):
                            gen(i + 1, env3)
                finally:
                    self.loop_depth -= 1
                if rep:
                    self.path.effects.append(("loop-exit", node.lineno, node))
            gen(0, env2)
            return res
        env2 = dict(env)
        gens = []
        for g in node.generators:
            it = self.eval(g.iter, env2)
            el = ("elem", it)
            self.assign(g.target, el, env2, None)
            gens.append(it)
            for cond in g.ifs:
                gens.append(self._cond_term(cond, env2))
        if isinstance(node, ast.DictComp):
            body = ("tuple", (self.eval(node.key, env2),
                              self.eval(node.value, env2)))
        else:
            body = self.eval(node.elt, env2)
        return ("call", ("global", "<comprehension>"),
                (body,) + tuple(gens), ())

    def _cond_term(self, node, env):
        """A condition as an undecided term (used for comprehension filters,
        which select elements rather than paths)."""
        if isinstance(node, ast.Compare) and len(node.ops) == 1:
            return ("binop", type(node.ops[0]).__name__,
                    self.eval(node.left, env),
                    self.eval(node.comparators[0], env))
        if isinstance(node, ast.UnaryOp) and isinstance(node.op, ast.Not):
            return ("unop", "Not", self._cond_term(node.operand, env))
        if isinstance(node, ast.BoolOp):
            return ("call", ("global", "<%s>" % type(node.op).__name__),
                    tuple(self._cond_term(v, env) for v in node.values), ())
        return self.eval(node, env)

    def eval_int(self, node, env):
        return self.eval(node, env)

    def _class_constant(self, attr):
        """Class-level constant of the receiver's class (never assigned on
        instances anywhere in its hierarchy)."""
        cq = self.self_class
        for k in self.m.mro(cq):
            c = self.m.classes.get(k)
            if c is not None and attr in c.fields:
                return None
        try:
            v = self.m.fold_class_attr(cq, attr)
        except Exception:
            return None
        if isinstance(v, (str, int, float, bool, type(None))):
            return const(v)
        return None

    def _global_dict(self, t):
        if t[0] != "global" or "." not in t[1]:
            return None
        modname, _, nm = t[1].rpartition(".")
        mod = self.m.modules.get(modname)
        if mod is None:
            for f in self.fstack:
                if f.module.name == modname:
                    mod = f.module
        if mod is None or len(mod.assigns.get(nm, ())) != 1:
            return None
        try:
            v = self.m.fold(mod, mod.assigns[nm][0])
        except Exception:
            return None
        return v if isinstance(v, dict) else None

    def _global_table(self, t):
        """Keys/elements of a module-level literal dict / list / set that a
        term names (also `<table>.keys()` / `.values()`), else None."""
        which = "keys"
        if t[0] == "call" and t[1][0] == "attr" and t[1][2] in (
                "keys", "values") and not t[2]:
            which = t[1][2]
            t = t[1][1]
        elif t[0] == "call" and t[1][0] == "global" and not t[2] \
                and t[1][1].rpartition(".")[2] in ("keys", "values"):
            which = t[1][1].rpartition(".")[2]
            t = ("global", t[1][1].rpartition(".")[0])
        if t[0] != "global" or "." not in t[1]:
            return None
        modname, _, nm = t[1].rpartition(".")
        mod = self.m.modules.get(modname)
        if mod is None:
            for f in self.fstack:
                if f.module.name == modname:
                    mod = f.module      # a reference module of /verif/spec
        if mod is None or len(mod.assigns.get(nm, ())) != 1:
            return None
        try:
            v = self.m.fold(mod, mod.assigns[nm][0])
        except Exception:
            return None
        if isinstance(v, dict):
            return list(v.keys() if which == "keys" else v.values())
        if isinstance(v, (list, set, frozenset, tuple)) and which == "keys":
            return list(v)
        return None

    def global_term(self, name):
        # nested function defined in an enclosing inlined frame is in env;
        # otherwise a module-level or builtin name
        r = self.m.resolve_dotted(self.fstack[-1].module, name)
        if r is not None:
            try:
                mod = self.fstack[-1].module
                if name in mod.assigns and len(mod.assigns[name]) == 1:
                    v = self.m.fold(mod, mod.assigns[name][0])
                    if isinstance(v, (str, int, tuple, frozenset, type(None),
                                      float, bool)):
                        return const(v)
            except Exception:
                pass
            return ("global", r)
        return ("global", "?" + name)

    # ---------------------------------------------------------------- calls
    def call(self, node, env):
        f = node.func
        if len(node.args) == 1 and not node.keywords and isinstance(
                node.args[0], (ast.GeneratorExp, ast.ListComp)) \
                and len(node.args[0].generators) >= 1:
            if isinstance(f, ast.Name) and f.id == "list" \
                    and "list" not in env:
                # list(f(x) for x in xs) is the list comprehension
                self.fresh_counter += 1
                res = ("newlist", self.fresh_counter)
                return self.comprehension(node.args[0], env, into=res)
            if isinstance(f, ast.Name) and f.id in ("any", "all") \
                    and f.id not in env \
                    and len(node.args[0].generators) == 1 \
                    and not node.args[0].generators[0].is_async:
                # any(P(x) for x in xs if c) is the search loop
                #   r = False
                #   for x in xs:
                #       if c and P(x): r = True; break
                # (all: r = True / `not P(x)` / r = False) -- the same tests
                # on the same elements in the same order
                comp = node.args[0]
                g = comp.generators[0]
                self.fresh_counter += 1
                rname = "_%s_result_%d" % (f.id, self.fresh_counter)
                want = f.id == "any"
                test = comp.elt if want else ast.UnaryOp(op=ast.Not(),
                                                         operand=comp.elt)
                if g.ifs:
                    test = ast.BoolOp(op=ast.And(),
                                      values=list(g.ifs) + [test])
                hit = ast.If(test=test, body=[
                    ast.Assign(targets=[ast.Name(id=rname, ctx=ast.Store())],
                               value=ast.Constant(value=want)),
                    ast.Break()], orelse=[])
                loop = ast.For(target=g.target, iter=g.iter, body=[hit],
                               orelse=[])
                init = ast.Assign(
                    targets=[ast.Name(id=rname, ctx=ast.Store())],
                    value=ast.Constant(value=not want))
                for st in (init, loop):
                    ast.copy_location(st, node)
                    ast.fix_missing_locations(st)
                    for x in ast.walk(st):
                        for c in ast.iter_child_nodes(x):
                            if not hasattr(c, "_parent"):
                                c._parent = x
                    st._parent = getattr(node, "_parent", None)
                env2 = dict(env)
                self._block([init, loop], env2)
                return env2[rname]
            if isinstance(f, ast.Attribute) and f.attr == "extend":
                # r.extend(f(x) for x in xs) is the appending loop
                recv = self.eval(f.value, env)
                self.comprehension(node.args[0], env, into=recv)
                return const(None)
        args = tuple(self.eval(a, env) for a in node.args)
        kws = []
        for k in node.keywords:
            v = self.eval(k.value, env)
            if k.arg is None and v[0] == "dict" and all(
                    is_const(kk) and isinstance(kk[1], str)
                    for kk, _ in v[1]):
                # f(**d) for a local dict display: its entries as keywords,
                # each with the value last stored under that key
                for kk, vv in v[1]:
                    cur = vv
                    for loc, val in self.path.heap.items():
                        if loc[0] == "index" and loc[1] == v and (
                                loc[2] == kk or (not is_const(loc[2])
                                                 and self.equal(loc[2], kk))):
                            cur = val
                    kws.append((kk[1], cur))
                continue
            kws.append((k.arg, v))
        kws = tuple(kws)
        # closures defined in this activation
        if isinstance(f, ast.Name) and f.id in env and \
                env[f.id][0] == "closure":
            fdef = env[f.id][2]
            return self.inline_call(fdef, None, args, kws,
                                    env[f.id][3].env, node)
        fi = self.fstack[-1]
        ft = None
        if isinstance(f, ast.Attribute) and isinstance(f.value, ast.Call) \
                and isinstance(f.value.func, ast.Name) \
                and f.value.func.id == "super" and not f.value.args \
                and "super" not in env and fi.params:
            # super().m(a) is Base.m(self, a) for the next definition of m
            # along the MRO of the defining class
            cs = self.P.resolve_call(fi, node)
            nxt = self._super_for_receiver(fi, f.attr)
            if nxt is not None:
                # analysed for a particular receiver class (a mixin's method
                # as a concrete subclass has it): the next definition along
                # *that* class's MRO
                ft = ("global", nxt.qualname)
                args = (self.eval(ast.Name(id=fi.params[0], ctx=ast.Load()),
                                  env),) + tuple(args)
            elif len(cs) == 1 and cs[0].kind == "repo" \
                    and cs[0].how == "super":
                ft = ("global", cs[0].fn.qualname)
                args = (self.eval(ast.Name(id=fi.params[0], ctx=ast.Load()),
                                  env),) + tuple(args)
            elif not cs and fi.cls is not None and len(fi.cls.bases) == 1 \
                    and fi.cls.bases[0] not in self.m.classes \
                    and fi.cls.bases[0]:
                # the only base is an external class (dict, Exception, ...)
                ft = ("global", "%s.%s" % (fi.cls.bases[0], f.attr))
                args = (self.eval(ast.Name(id=fi.params[0], ctx=ast.Load()),
                                  env),) + tuple(args)
        if ft is None:
            ft = self.eval(f, env)
        if ft[0] == "attr" and ft[2] in self.virtual \
                and ft[1] == ("self",) and self.depth < self.max_inline:
            return self.inline_call(self.virtual[ft[2]], ft[1], args, kws,
                                    None, node)
        if ft[0] == "call" and ft[1] == ("global", "functools.partial") \
                and ft[2]:
            # functools.partial(g, a)(b)  is  g(a, b)
            args = tuple(ft[2][1:]) + tuple(args)
            kws = tuple(k for k in ft[3] if k[0] != "<nth>") + tuple(kws)
            ft = ft[2][0]
        if ft[0] == "global" and ft[1] not in self.m.functions \
                and "." in ft[1]:
            # Class.m where m is inherited: the function that defines it
            head, _, attr = ft[1].rpartition(".")
            if head in self.m.classes:
                meth = self.m.lookup_method(head, attr)
                if meth is not None:
                    ft = ("global", meth.qualname)
        if ft == ("global", "builtins.bool") and len(args) == 1 and not kws:
            return const(self.term_truth(args[0]))
        # every shallow-copy idiom is the same operation
        if len(args) == 1 and not kws and ft in (
                ("global", "builtins.list"), ("global", "builtins.dict"),
                ("global", "copy.copy")) and args[0][0] not in (
                    "tuple", "list", "dict", "const"):
            return ("copyof", args[0])
        if ft[0] == "attr" and ft[2] == "copy" and not args and not kws:
            return ("copyof", ft[1])
        if ft[0] == "global" and ft[1].endswith(".get") and len(args) == 1 \
                and not kws:
            tbl = self._global_dict(("global", ft[1][:-4]))
            if tbl is not None and all(isinstance(
                    k, (str, int)) for k in tbl):
                # <module-level literal table>.get(k): the value under the key
                # the path has established, None when there is none
                for k, v in tbl.items():
                    if self.equal(args[0], const(k)):
                        if isinstance(v, (str, int, float, bool, type(None),
                                          tuple)):
                            return const(v)
                        break
                else:
                    return const(None)
        if ft == ("global", "builtins.dict.fromkeys") and len(args) == 2 \
                and not kws:
            keys = None
            if args[0][0] in ("tuple", "list") and all(
                    is_const(x) for x in args[0][1]):
                keys = [x for x in args[0][1]]
            else:
                t = self._global_table(args[0])
                if t is not None:
                    keys = [const(x) for x in t]
            if keys is not None:
                return ("dict", tuple((k, args[1]) for k in keys))
        if ft[0] == "attr" and ft[2] == "setdefault" and len(args) == 2 \
                and not kws:
            # d.setdefault(k, v): d[k] when k is in d, else store v and
            # give v back
            if self.decide(("contains", args[0], ft[1])):
                return mk_index(ft[1], args[0])
            self.path.effects.append(("item-store", ft[1], args[0], args[1],
                                      node))
            self._forward(("index", ft[1], args[0]), args[1])
            return args[1]
        if ft[0] == "attr" and ft[2] == "pop" and len(args) == 1 \
                and not kws and ft[1][0] in ("attr", "param", "self") \
                and args[0][0] != "unop":
            # x.pop(k) is: v = x[k]; del x[k]; v  (mapping key or list index)
            v = mk_index(ft[1], args[0])
            self.path.effects.append(("del-item", ft[1], args[0], node))
            return v
        if ft[0] == "attr" and ft[2] == "get" and len(args) == 1 and not kws \
                and ft[1][0] not in ("const",):
            # d.get(k): the value d[k], or None when k is not in d
            return ("get", ft[1], args[0])
        if ft[0] == "attr" and ft[1][0] == "newlist" \
                and ft[1][1] in self.path.builders and ft[2] not in (
                    "copy", "index", "count"):
            # a list built up locally: its contents are known as long as
            # every mutation is one we model and happens outside a loop
            b = self.path.builders
            n = ft[1][1]
            if b[n] is not None and (not self.loop_depth
                                     or self.exact_loops) and not kws:
                if ft[2] == "append" and len(args) == 1:
                    b[n] = b[n] + [args[0]]
                elif ft[2] == "extend" and len(args) == 1 \
                        and args[0][0] in ("list", "tuple"):
                    b[n] = b[n] + list(args[0][1])
                else:
                    b[n] = None
            else:
                b[n] = None
        if ft[0] == "attr" and ft[2] == "join" and len(args) == 1 \
                and not kws and is_const(ft[1]) and isinstance(ft[1][1], str):
            seq = None
            if args[0][0] == "newlist" and self.path.builders.get(
                    args[0][1]) is not None:
                seq = self.path.builders[args[0][1]]
            elif args[0][0] in ("list", "tuple"):
                seq = list(args[0][1])
            if seq is not None:
                out = const("")
                for i, el in enumerate(seq):
                    if i and ft[1][1]:
                        out = mk_add(out, ft[1])
                    out = mk_add(out, el)
                return out
        if ft[0] == "attr" and ft[2] == "group" and len(args) > 1 and not kws:
            return ("tuple", tuple(("call", ft, (a,), ()) for a in args))
        if ft[0] == "attr" and ft[2] == "close" and not args and not kws:
            self.path.effects.append(("close", ft[1], node))
            return const(None)
        if ft[0] == "attr" and ft[2] in ("reverse", "sort") and not args \
                and not kws and isinstance(f, ast.Attribute) \
                and isinstance(f.value, ast.Name) and f.value.id in env \
                and env[f.value.id][0] == "call":
            # in-place reordering of a local sequence == rebinding it to the
            # reordered copy
            fn = "builtins.reversed" if ft[2] == "reverse" else \
                "builtins.sorted"
            env[f.value.id] = ("call", ("global", fn), (env[f.value.id],), ())
            return const(None)
        if ft[0] == "attr" and ft[2] == "insert" and len(args) == 2 \
                and not kws and isinstance(f, ast.Attribute) \
                and isinstance(f.value, ast.Name) and f.value.id in env \
                and env[f.value.id][0] in ("copyof", "call", "binop") \
                and is_const(args[0]) and isinstance(args[0][1], int) \
                and args[0][1] >= 0:
            # inserting into a local copy == rebinding it to the spliced list
            x = env[f.value.id]
            i = args[0]
            env[f.value.id] = mk_add(mk_add(
                ("slice", x, None, i), ("list", (args[1],))),
                ("slice", x, i, None))
            return const(None)
        # no-return summaries: a call all of whose resolved callees always
        # raise is a raise
        callees = self.P.resolve_call(fi, node) if self.depth == 0 or True \
            else []
        if self._noreturn(fi, node):
            self.path.effects.append(("noreturn-call", ft, args, node))
            nm = ft[2] if ft[0] == "attr" else fmt(ft)
            raise _Raise("noreturn:" + nm, args, node)
        # inlining
        if self.depth < self.max_inline:
            repo = [c for c in callees if c.kind == "repo"]
            if len({id(c.fn) for c in repo}) > 1 and isinstance(
                    f, ast.Attribute) and self.eval(f.value, env) == (
                        "self",) and self.fi.cls is not None \
                    and fi is self.fi:
                # self.hook() with overrides in subclasses: the function is
                # analysed for one receiver class (the class it is compared
                # for, else its own); what that class has is what runs
                cq = self.self_class or getattr(self.fi.cls, "qualname", None)
                eff = self.m.lookup_method(cq, f.attr) if cq else None
                if eff is not None and any(c.fn is eff for c in repo):
                    repo = [c for c in repo if c.fn is eff]
                    callees = repo
            if repo and len(repo) == len(callees) and all(
                    c.fn is repo[0].fn for c in repo) \
                    and self.inline(repo[0].fn):
                c = repo[0]
                recv = None
                decos = {getattr(d, "id", getattr(d, "attr", None))
                         for d in c.fn.node.decorator_list}
                if "staticmethod" in decos:
                    recv = None
                elif c.how in ("cha", "method", "bound", "byname", "field") \
                        and isinstance(f, ast.Attribute):
                    recv = self.eval(f.value, env)
                elif c.how == "basecall":
                    recv, args = args[0], args[1:]
                elif c.how == "super" and fi.params:
                    # (the receiver was put in front of the arguments above)
                    recv, args = args[0], args[1:]
                elif c.how == "ctor":
                    recv = self.fresh("new " + c.fn.cls.name)
                r = self.inline_call(c.fn, recv, args, kws, None, node)
                if c.how == "ctor":
                    return recv
                return r
        if ft[0] == "global" and args and self._is_exception_class(ft[1]) \
                and _is_message_term(args[0]):
            # the wording of an error message is not behaviour we compare
            args = (const("<message>"),) + args[1:]
        if ft[0] == "global" and ft[1] in self._namedtuples():
            fields = self._namedtuples()[ft[1]]
            vals = list(args) + [None] * (len(fields) - len(args))
            okk = len(args) <= len(fields)
            for k, v in kws:
                if k in fields and vals[fields.index(k)] is None:
                    vals[fields.index(k)] = v
                else:
                    okk = False
            if okk and all(v is not None for v in vals):
                t = ("tuple", tuple(vals))
                self._nt_terms()[t] = fields
                return t
            if len(args) == 1 and not kws and args[0][0] == "unop" \
                    and args[0][1] == "star":
                # X(*seq): the sequence itself, read through the fields
                self._nt_terms()[args[0][2]] = fields
                return args[0][2]
        if not (isinstance(f, ast.Name) and f.id in env):
            # (a callable held in a local or parameter is resolved through
            # inferred types, which the two sides need not share)
            args, kws = self._with_defaults(callees, args, kws)
        if ft[0] == "global" and ft[1] in self.m.classes and len(args) == 1 \
                and not kws and self.m.lookup_method(ft[1], "__init__") \
                is None and "builtins.dict" in self.m.full_mro(ft[1]) \
                and not (args[0][0] == "unop"):
            # D(x) for a dict subclass without a constructor of its own is
            # d = D(); d.update(x)
            t0 = ("call", ft, (), ())
            if not self.is_pure(ft):
                self.path.effects.append(("call", t0, node))
            self.path.effects.append(
                ("call", ("call", ("attr", t0, "update"), args, ()), node))
            return t0
        t = ("call", ft, args, kws)
        if not self.is_pure(ft):
            # the n-th identical effectful call is a different event with a
            # different result (reading the next line, popping a stack)
            n = sum(1 for e in self.path.effects
                    if e[0] == "call" and e[1][1] == ft and e[1][2] == args
                    and tuple(k for k in e[1][3] if k[0] != "<nth>") == kws)
            if n:
                t = ("call", ft, args, kws + (("<nth>", const(n + 1)),))
            self.path.effects.append(("call", t, node))
        # constant folding of pure str methods on constants
        if ft[0] == "attr" and is_const(ft[1]) and isinstance(ft[1][1], str) \
                and all(is_const(a) for a in args) and not kws \
                and ft[2] in ("lower", "upper", "strip", "startswith",
                              "endswith", "split", "replace", "join",
                              "rstrip", "lstrip"):
            try:
                return const(getattr(ft[1][1], ft[2])(*[a[1] for a in args]))
            except Exception:
                pass
        if ft == ("global", "builtins.len") and len(args) == 1 \
                and args[0][0] in ("tuple", "list", "dict"):
            return const(len(args[0][1]))
        if ft == ("global", "builtins.len") and len(args) == 1 \
                and is_const(args[0]) and isinstance(
                    args[0][1], (str, tuple, frozenset, bytes)):
            return const(len(args[0][1]))
        if ft == ("global", "builtins.str") and len(args) == 1 \
                and is_const(args[0]) and isinstance(args[0][1], str):
            return args[0]
        if ft in (("global", "builtins.all"), ("global", "builtins.any")) \
                and len(args) == 1 and not kws:
            seq = None
            if args[0][0] == "newlist" and self.path.builders.get(
                    args[0][1]) is not None:
                seq = self.path.builders[args[0][1]]
            elif args[0][0] in ("list", "tuple"):
                seq = list(args[0][1])
            if seq is not None:
                if ft[1].endswith("all"):
                    return const(all(self.term_truth(x) for x in seq))
                return const(any(self.term_truth(x) for x in seq))
        if ft == ("global", "builtins.int") and len(args) == 1 and not kws \
                and is_const(args[0]) and isinstance(args[0][1], (bool, int)):
            return const(int(args[0][1]))
        return t

    def _with_defaults(self, callees, args, kws):
        """f(a) and f(a, None) are the same call when None is the default of
        the second parameter: trailing parameters left out are filled in
        with their (constant) defaults, keywords that name positional
        parameters are put in place -- when every resolved callee agrees."""
        repo = [c for c in callees if c.kind == "repo"]
        if not repo or len(repo) != len(callees) or any(
                isinstance(a, tuple) and a and a[0] == "unop"
                and a[1] == "star" for a in args):
            return args, kws
        shapes = set()
        for c in repo:
            a = c.fn.node.args
            if a.vararg or a.kwarg or a.kwonlyargs or a.posonlyargs:
                return args, kws
            names = [x.arg for x in a.args]
            bound = c.fn.cls is not None and c.how not in (
                "basecall", "func") and not any(
                    getattr(d, "id", None) == "staticmethod"
                    for d in c.fn.node.decorator_list)
            if c.how == "ctor":
                bound = True
            if c.how == "super" and args and args[0] == ("self",):
                # super().m(a) has been rewritten to Base.m(self, a)
                bound = False
            if bound:
                names = names[1:]
            defaults = list(a.defaults)
            dmap = {}
            for nme, d in zip(a.args[len(a.args) - len(defaults):],
                              defaults):
                if not isinstance(d, ast.Constant):
                    return args, kws
                dmap[nme.arg] = const(d.value)
            shapes.add((tuple(names), tuple(sorted(dmap.items(),
                                                   key=lambda kv: kv[0]))))
        if len(shapes) != 1:
            return args, kws
        names, dm = shapes.pop()
        dm = dict(dm)
        if len(args) > len(names):
            return args, kws
        out = list(args)
        kw = dict((k, v) for k, v in kws if k is not None)
        if len(kw) != len(kws):
            return args, kws
        for nme in names[len(args):]:
            if nme in kw:
                out.append(kw.pop(nme))
            elif nme in dm:
                out.append(dm[nme])
            else:
                return args, kws
        if kw:
            return args, kws
        return tuple(out), ()

    def _is_exception_class(self, qual):
        if qual in self.m.classes:
            return self.m.is_subclass(qual, "builtins.BaseException")
        if qual.startswith("builtins."):
            import builtins
            obj = getattr(builtins, qual[9:], None)
            return isinstance(obj, type) and issubclass(obj, BaseException)
        return False

    LOG_METHODS = {"debug", "info", "warning", "error", "exception",
                   "critical", "log", "isEnabledFor"}

    def _is_logger(self, t):
        """A module-level logger (name = logging.getLogger(...)) or a direct
        logging.getLogger(...) result."""
        if t[0] == "call" and t[1] == ("global", "logging.getLogger"):
            return True
        if t[0] == "global" and "." in t[1]:
            modname, _, nm = t[1].rpartition(".")
            mod = self.m.modules.get(modname)
            if mod is not None:
                vals = mod.assigns.get(nm, ())
                return len(vals) == 1 and isinstance(vals[0], ast.Call) \
                    and src(vals[0].func) in ("logging.getLogger",
                                              "getLogger")
        return False

    def is_pure(self, ft):
        # diagnostics through the logging package are not behaviour the
        # properties speak about
        if ft[0] == "global" and ft[1].rpartition(".")[2] in \
                self.LOG_METHODS and (
                    self._is_logger(("global", ft[1].rpartition(".")[0]))
                    or ft[1].rpartition(".")[0] == "logging"):
            return True
        if ft[0] == "attr" and ft[2] in self.LOG_METHODS \
                and self._is_logger(ft[1]):
            return True
        if ft == ("global", "logging.getLogger"):
            return True
        if ft == ("global", "functools.partial"):
            return True    # building the partial object calls nothing
        if ft[0] == "global" and ft[1].startswith("builtins.") \
                and ft[1][9:] in self.PURE_FUNCS:
            return True
        if ft[0] == "attr" and ft[2] in self.PURE_METHODS:
            return True
        if ft[0] == "attr" and ft[2] in self.extra_pure:
            return True
        if ft[0] == "global" and ft[1].split(".")[-1] in self.extra_pure:
            return True
        if ft[0] == "global" and "." in ft[1] and not ft[1].startswith(
                "builtins.") and ft[1].split(".")[-1] in self.PURE_METHODS \
                and ft[1].rpartition(".")[0] not in self.m.modules:
            return True    # pure method of a module-level object
        return False

    def inline_call(self, callee, recv, args, kws, closure_env, node):
        fnode = callee.node if hasattr(callee, "node") else callee
        a = fnode.args
        names = [x.arg for x in a.posonlyargs + a.args]
        env = dict(closure_env) if closure_env is not None else {}
        vals = list(args)
        if recv is not None:
            vals = [recv] + vals
        defaults = a.defaults
        nd = len(defaults)
        for i, nme in enumerate(names):
            if i < len(vals):
                env[nme] = vals[i]
            else:
                kw = dict(kws)
                if nme in kw:
                    env[nme] = kw[nme]
                elif i >= len(names) - nd:
                    env[nme] = self.eval(defaults[i - (len(names) - nd)], {})
                else:
                    raise AnalysisError("cannot bind parameter %s inlining %s"
                                        % (nme, fnode.name))
        kwd = dict(kws)
        for x, dflt in zip(a.kwonlyargs, a.kw_defaults):
            if x.arg in kwd:
                env[x.arg] = kwd[x.arg]
            elif dflt is not None:
                env[x.arg] = self.eval(dflt, {})
            else:
                raise AnalysisError("cannot bind parameter %s inlining %s"
                                    % (x.arg, fnode.name))
        if a.vararg is not None:
            env[a.vararg.arg] = ("tuple", tuple(vals[len(names):]))
        if a.kwarg is not None:
            taken = set(names) | {x.arg for x in a.kwonlyargs}
            env[a.kwarg.arg] = ("dict", tuple(
                (const(k), v) for k, v in kws
                if k is not None and k not in taken))
        self.depth += 1
        if hasattr(callee, "node"):
            self.fstack.append(callee)
        try:
            self._block(fnode.body, env)
            res = const(None)
        except _Return as r:
            res = r.term
        finally:
            self.depth -= 1
            if hasattr(callee, "node"):
                self.fstack.pop()
        return res

    # ----------------------------------------------------------- statements
    def _block(self, stmts, env):
        for st in stmts:
            self._stmt(st, env)

    def assign(self, tgt, val, env, node):
        if isinstance(tgt, ast.Name):
            env[tgt.id] = val
        elif isinstance(tgt, (ast.Tuple, ast.List)) and sum(
                isinstance(t, ast.Starred) for t in tgt.elts) == 1:
            # a, *rest, z = xs : indices from the front, a slice, indices
            # from the back
            n = len(tgt.elts)
            k = [i for i, t in enumerate(tgt.elts)
                 if isinstance(t, ast.Starred)][0]
            after = n - 1 - k
            if val[0] in ("tuple", "list") and len(val[1]) >= n - 1:
                items = list(val[1])
                for i in range(k):
                    self.assign(tgt.elts[i], items[i], env, node)
                self.assign(tgt.elts[k].value,
                            ("list", tuple(items[k:len(items) - after])),
                            env, node)
                for j in range(after):
                    self.assign(tgt.elts[k + 1 + j],
                                items[len(items) - after + j], env, node)
            else:
                for i in range(k):
                    self.assign(tgt.elts[i], mk_index(val, const(i)), env,
                                node)
                self.assign(tgt.elts[k].value,
                            ("slice", val, const(k) if k else None,
                             const(-after) if after else None), env, node)
                for j in range(after):
                    self.assign(tgt.elts[k + 1 + j],
                                mk_index(val, const(j - after)), env, node)
        elif isinstance(tgt, (ast.Tuple, ast.List)):
            if val[0] in ("tuple", "list") and len(val[1]) == len(tgt.elts):
                for t, v in zip(tgt.elts, val[1]):
                    self.assign(t, v, env, node)
            else:
                for i, t in enumerate(tgt.elts):
                    self.assign(t, mk_index(val, const(i)), env, node)
        elif isinstance(tgt, ast.Attribute):
            base = self.eval(tgt.value, env)
            self.path.effects.append(("store", ("attr", base, tgt.attr), val,
                                      node))
            self._forward(("attr", base, tgt.attr), val)
        elif isinstance(tgt, ast.Subscript):
            base = self.eval(tgt.value, env)
            if isinstance(tgt.slice, ast.Slice) and isinstance(
                    tgt.value, ast.Name) and tgt.value.id in env \
                    and env[tgt.value.id][0] in ("copyof", "call", "binop") \
                    and tgt.slice.step is None and (
                        tgt.slice.lower is not None
                        or tgt.slice.upper is not None):
                lo = self.eval_int(tgt.slice.lower, env) \
                    if tgt.slice.lower is not None else None
                hi = self.eval_int(tgt.slice.upper, env) \
                    if tgt.slice.upper is not None else None
                if (lo is None or is_const(lo)) and (hi is None
                                                     or is_const(hi)):
                    # x[a:b] = v on a local copy: rebinding it to the splice
                    x = env[tgt.value.id]
                    out = val
                    if lo is not None and lo != const(0):
                        out = mk_add(("slice", x, None, lo), out)
                    if hi is not None:
                        out = mk_add(out, ("slice", x, hi, None))
                    env[tgt.value.id] = out
                    return
            if isinstance(tgt.slice, ast.Slice):
                key = ("slice", None, None)
                self.path.effects.append(("slice-store", base, val, node))
            else:
                key = self.eval(tgt.slice, env)
                self.path.effects.append(("item-store", base, key, val, node))
                self._forward(("index", base, key), val)
        else:
            raise AnalysisError("assignment target %s unsupported"
                                % type(tgt).__name__)

    def _forward(self, loc, val):
        """Remember what this activation stored in a location, so that
        reading it back yields the stored value (d[k] = []; d[k].append(x)).
        A store through the same base with a possibly equal key forgets the
        other entries of that base."""
        h = self.path.heap
        for other in list(h) if loc[1][0] != "dict" else ():
            if other[0] == loc[0] and other[1] == loc[1] and other != loc \
                    and not (loc[0] == "index" and is_const(other[2])
                             and is_const(loc[2])) and loc[0] == "index":
                del h[other]
        try:
            h[loc] = val
        except TypeError:
            pass

    def _stmt(self, st, env):
        if isinstance(st, ast.Expr):
            if isinstance(st.value, ast.Constant):
                return
            self.eval(st.value, env)
            return
        if isinstance(st, ast.Assign):
            v = self.eval(st.value, env)
            for t in st.targets:
                self.assign(t, v, env, st)
            return
        if isinstance(st, ast.AugAssign):
            cur = self.eval(st.target, env)
            v = self.eval(st.value, env)
            if isinstance(st.op, (ast.Add, ast.Sub)) and is_const(v) \
                    and isinstance(v[1], int):
                nv = aff(cur, v[1] if isinstance(st.op, ast.Add) else -v[1])
            elif isinstance(st.op, ast.Add):
                nv = mk_add(cur, v)
            else:
                nv = ("binop", type(st.op).__name__, cur, v)
            self.assign(st.target, nv, env, st)
            return
        if isinstance(st, ast.Return):
            raise _Return(self.eval(st.value, env) if st.value is not None
                          else const(None))
        if isinstance(st, ast.Raise):
            if st.exc is None:
                raise _Raise("reraise", ())
            e = st.exc
            if isinstance(e, ast.Call) and (self._exc_name(
                    e.func, env) in self.m.functions or (
                    isinstance(e.func, ast.Name) and e.func.id in env
                    and env[e.func.id][0] == "closure")
                    or self._is_helper_method_call(e)):
                # raise helper(...): the helper builds the exception
                t = self.eval(e, env)
                raise _Raise("dynamic:" + fmt(t), (t,), st)
            if isinstance(e, ast.Call):
                args = tuple(self.eval(a, env) for a in e.args)
                cls = self._exc_name(e.func, env)
                if args and self._is_exception_class(cls) \
                        and _is_message_term(args[0]):
                    # the wording of the message is not compared
                    args = (const("<message>"),) + args[1:]
                self.path.effects.append(("raise", cls, args, st))
                raise _Raise(cls, args, st)
            t = self.eval(e, env)
            cls = self._exc_name(e, env)
            raise _Raise(cls, (t,), st)
        if isinstance(st, ast.If):
            if self.truth(st.test, env):
                self._block(st.body, env)
            else:
                self._block(st.orelse, env)
            return
        if isinstance(st, ast.Pass):
            return
        if isinstance(st, ast.Assert):
            if not self.truth(st.test, env):
                raise _Raise("builtins.AssertionError", (), st)
            return
        if isinstance(st, (ast.FunctionDef,)):
            env[st.name] = ("closure", st.name, st, _EnvRef(env))
            return
        if isinstance(st, (ast.Import, ast.ImportFrom)):
            for a in st.names:
                nm = (a.asname or a.name).split(".")[0]
                env.pop(nm, None)
            return
        if isinstance(st, ast.For):
            return self._for(st, env)
        if isinstance(st, ast.While):
            return self._while(st, env)
        if isinstance(st, ast.Try):
            return self._try(st, env)
        if isinstance(st, ast.With):
            opened = []
            for it in st.items:
                ce = it.context_expr
                if isinstance(ce, ast.Call) and len(ce.args) == 1 \
                        and not ce.keywords and self.m.resolve_dotted(
                            self.fstack[-1].module, dotted(ce.func) or "?") \
                        == "contextlib.closing":
                    # with closing(x): is "close x on the way out"
                    v = self.eval(ce.args[0], env)
                else:
                    v = self.eval(ce, env)
                opened.append(v)
                if it.optional_vars is not None:
                    self.assign(it.optional_vars, v, env, st)
            try:
                if self.try_raises:
                    # like try/finally: what the body calls may raise, and
                    # the exception passes through the exits
                    self._try_body(_Body(st.body), env, propagate=True)
                else:
                    self._block(st.body, env)
            except (_Return, _Raise, _Break, _Continue):
                for v in reversed(opened):
                    self.path.effects.append(("close", v, st))
                raise
            for v in reversed(opened):
                self.path.effects.append(("close", v, st))
            return
        if isinstance(st, ast.Delete):
            for t in st.targets:
                if isinstance(t, ast.Subscript) and isinstance(t.slice,
                                                               ast.Slice):
                    self.path.effects.append(
                        ("del-item", self.eval(t.value, env),
                         ("free", "[%s]" % src(t.slice)), st))
                elif isinstance(t, ast.Subscript):
                    self.path.effects.append(
                        ("del-item", self.eval(t.value, env),
                         self.eval(t.slice, env), st))
                elif isinstance(t, ast.Name):
                    env.pop(t.id, None)
            return
        if isinstance(st, (ast.Break,)):
            raise _Break()
        if isinstance(st, (ast.Continue,)):
            raise _Continue()
        if isinstance(st, (ast.Global, ast.Nonlocal)):
            return
        raise AnalysisError("statement %s outside the interpreter vocabulary "
                            "(%s:%d)" % (type(st).__name__, self.fi.qualname,
                                         st.lineno))

    def _is_helper_method_call(self, call):
        """`self._helper(...)` resolving to one repository method that is
        executed inline (an exception-building helper)."""
        if not isinstance(call.func, ast.Attribute):
            return False
        try:
            cs = self.P.resolve_call(self.fstack[-1], call)
        except Exception:
            return False
        repo = [c for c in cs if c.kind == "repo"]
        return bool(repo) and len(repo) == len(cs) and all(
            c.fn is repo[0].fn for c in repo) and self.inline(repo[0].fn) \
            and not self._is_exception_class(repo[0].fn.qualname)

    def _exc_name(self, f, env):
        d = dotted(f)
        if d is not None and d.split(".")[0] not in env:
            r = self.m.resolve_dotted(self.fstack[-1].module, d)
            if r:
                return r
        t = self.eval(f, env)
        return "dynamic:" + fmt(t)

    def _for(self, st, env):
        policy = self.loop_policy(st)
        it = self.eval(st.iter, env)
        if policy == "skip":
            self._block(st.orelse, env)
            return
        if policy == "zero-or-once":
            if not self.decide(("loop", "nonempty@%d" % st.lineno)):
                self._block(st.orelse, env)
                return
        if it[0] in ("tuple", "list") and (policy == "unroll" or len(
                it[1]) <= 4):
            # a literal sequence: the loop is its unrolling
            broke = False
            for el in it[1]:
                self.assign(st.target, el, env, st)
                try:
                    self._block(st.body, env)
                except _Break:
                    broke = True
                    break
                except _Continue:
                    continue
            if not broke:
                self._block(st.orelse, env)
            return
        # one representative element of the iterated sequence (the same
        # representative for every loop over the same sequence)
        el = ("elem", it)
        el2 = ("elem2", it)
        if it[0] == "call" and it[1] == ("global", "builtins.enumerate") \
                and len(it[2]) == 1 and not it[3]:
            # enumerate(x) yields (i, x[i]) for the representative index i
            x = it[2][0]
            el = ("tuple", (("elem", _range_len(x)), ("elem", x)))
            el2 = ("tuple", (("elem2", _range_len(x)), ("elem2", x)))
        self.assign(st.target, el, env, st)
        self.path.effects.append(("loop-enter", st.lineno, it, st))
        self.loop_depth += 1
        try:
            try:
                self._block(st.body, env)
            except _Break:
                self.path.effects.append(("loop-break", st.lineno, st))
                return
            except _Continue:
                pass
            lk = it
            if it[0] == "call" and it[1] == ("global", "builtins.enumerate") \
                    and len(it[2]) == 1:
                lk = it[2][0]
            elif it[0] == "call" and it[1] == ("global", "builtins.range") \
                    and len(it[2]) == 1 and it[2][0][0] == "call" \
                    and it[2][0][1] == ("global", "builtins.len"):
                lk = it[2][0][2][0]
            if policy == "twice" and self.decide(("loop", "second", lk)):
                # a second, distinct representative: what one element leaves
                # behind (a remembered candidate, a flag) meets another one
                self.assign(st.target, el2, env, st)
                try:
                    self._block(st.body, env)
                except _Break:
                    self.path.effects.append(("loop-break", st.lineno, st))
                    return
                except _Continue:
                    pass
        finally:
            self.loop_depth -= 1
        self.path.effects.append(("loop-exit", st.lineno, st))
        self._block(st.orelse, env)

    def _while(self, st, env):
        policy = self.loop_policy(st)
        if policy == "skip" or not self.truth(st.test, env):
            self._block(st.orelse, env)
            return
        self.loop_depth += 1
        try:
            try:
                self._block(st.body, env)
            except _Continue:
                pass
            if policy == "twice" and self.truth(st.test, env):
                # a second iteration: what the first one left in the locals
                # meets another round
                self.path.effects.append(("loop-second", st.lineno, st))
                try:
                    self._block(st.body, env)
                except _Continue:
                    pass
        except _Break:
            return
        finally:
            self.loop_depth -= 1
        # make the loop-carried state observable: the value of the loop test
        # after one iteration
        self.path.effects.append(("store", ("free", "<loop test after one "
                                            "iteration>"),
                                  self._test_term(st.test, env), st))

    def _test_term(self, test, env):
        if isinstance(test, ast.UnaryOp) and isinstance(test.op, ast.Not):
            return ("unop", "Not", self._test_term(test.operand, env))
        if isinstance(test, (ast.Name, ast.Attribute, ast.Subscript)):
            return self.eval(test, env)
        return ("free", src(test))

    def _try(self, st, env):
        n_eff = len(self.path.effects)
        try:
            try:
                if st.handlers and self.try_raises:
                    self._try_body(st, env)
                elif st.finalbody and self.try_raises:
                    # try/finally: what the body calls may raise; the
                    # exception passes through the finally clause (that the
                    # clean-up also happens on that way out is what the
                    # construct is for)
                    self._try_body(st, env, propagate=True)
                else:
                    self._block(st.body, env)
                self._block(st.orelse, env)
            except _Raise as r:
                if not st.handlers:
                    raise
                handled = False
                for h in st.handlers:
                    if self._handler_matches(h, r):
                        if h.name:
                            env[h.name] = ("fresh", "exc:%s" % r.cls)
                        handled = True
                        try:
                            self._block(h.body, env)
                        except _Raise as r2:
                            if r2.cls == "reraise":
                                raise _Raise(r.cls, r.args_, r.node)
                            raise
                        break
                if not handled:
                    raise
        except (_Return, _Raise, _Break, _Continue):
            # the finally clause runs on every way out
            self._block(st.finalbody, env)
            raise
        self._block(st.finalbody, env)

    def _catch_labels(self, eff, h):
        """What a call inside a try body can raise into handler `h`, as atom
        labels.  When every callee is a repository function whose escape set
        is known, the label is the set of escaping classes the handler
        catches (so `except ConfigurationError` and `except SchemaError`
        around a call that raises SchemaError only are the same observation,
        and a handler for a class the callee never raises is no observation
        at all); otherwise the handler's own class names."""
        names = self._handler_names(h)
        node = eff[2] if len(eff) > 2 else None
        if h.type is not None:
            # without a known escape set: every repository exception class
            # the handler catches is a possible arrival of its own (so that
            # a merged handler dispatching with isinstance and separate
            # handlers observe the same classes); external classes by name
            types = h.type.elts if isinstance(h.type, ast.Tuple) \
                else [h.type]
            wide = []
            for t in types:
                q = self.m.resolve(self.fstack[-1].module, t)
                if q in self.m.classes:
                    subs = sorted(k for k in self.m.classes
                                  if self.m.is_subclass(k, q))
                    for k in subs:
                        self._exc_qual[k.split(".")[-1]] = k
                        wide.append(k.split(".")[-1])
                else:
                    wide.append(src(t).split(".")[-1])
            names = wide
        if h.type is None or not isinstance(node, ast.Call):
            return names
        try:
            fi = self.fstack[-1]
            callees = self.P.resolve_call(fi, node)
            if not callees or any(c.kind != "repo" or getattr(
                    c, "ambiguous", False) for c in callees):
                return names
            ef = _excflow_for(self.P)
            esc = set()
            for c in callees:
                esc |= set(ef.classes_escaping(c.fn))
            from . import excflow as _E
            if not esc or any(e in (_E.PSEUDO_OWN, _E.UNKNOWN) for e in esc):
                return names
            types = h.type.elts if isinstance(h.type, ast.Tuple) \
                else [h.type]
            hq = [self.m.resolve(fi.module, t) for t in types]
            if any(q is None for q in hq):
                return names
            caught = sorted(e for e in esc
                            if any(ef.is_sub(e, q) for q in hq))
            for e in caught:
                if e in self.m.classes:
                    self._exc_qual[e.split(".")[-1]] = e
        except AnalysisError:
            return names
        return [c.split(".")[-1] for c in caught]

    def _handler_names(self, h):
        if h.type is None:
            return ["BaseException"]
        types = h.type.elts if isinstance(h.type, ast.Tuple) else [h.type]
        return [src(t).split(".")[-1] for t in types]

    def _try_body(self, st, env, propagate=False):
        """Statements of a try body: every effectful call may raise into one
        of the handlers (atom 'raises(call, class)'); with propagate=True
        (a try/finally without handlers) it may raise through the finally
        clause (atom 'raises(call, *)')."""
        for s in st.body:
            before = len(self.path.effects)
            saved = dict(env)
            pending = None
            try:
                self._stmt(s, env)
            except (_Return, _Raise, _Break, _Continue) as ctl:
                pending = ctl
            effs = self.path.effects[before:]
            for j, eff in enumerate(effs):
                if eff[0] == "call" and propagate:
                    if self.decide(("raises", eff[1], "*")):
                        env.clear()
                        env.update(saved)
                        del self.path.effects[before + j + 1:]
                        raise _Raise("propagated", (eff[1],), s)
                    continue
                if eff[0] == "call":
                    # one observation per call: which class arrives (each
                    # goes to the first handler that catches it), or none --
                    # so merged and split handlers observe the same thing
                    dom = []
                    for h in st.handlers:
                        for cls in self._catch_labels(eff, h):
                            if cls not in [d[0] for d in dom]:
                                dom.append((cls, h))
                    if not dom:
                        continue
                    v = self.decide(("raises", eff[1]),
                                    domain=tuple(d[0] for d in dom) + (False,))
                    if v is not False:
                        # the statement did not complete: undo its bindings
                        # and the effects after the call
                        env.clear()
                        env.update(saved)
                        del self.path.effects[before + j + 1:]
                        r_ = _Raise("caught:" + v, (eff[1],), s)
                        r_.handler = dict(dom)[v]
                        raise r_
            # a subscript load may raise KeyError/IndexError into a handler
            # that names it
            if not propagate and any(
                    isinstance(x, ast.Subscript) and isinstance(x.ctx, ast.Load)
                    for x in ast.walk(s)):
                # (the observation is named by the subscript's terms, not
                # by the statement's spelling)
                sub = next(x for x in ast.walk(s)
                           if isinstance(x, ast.Subscript)
                           and isinstance(x.ctx, ast.Load))
                keep = len(self.path.effects)
                try:
                    what = ("index", self.eval(sub.value, dict(saved)),
                            self.eval(sub.slice, dict(saved))
                            if not isinstance(sub.slice, ast.Slice)
                            else ("free", "slice"))
                except (AnalysisError, _Raise, _Return, _Break, _Continue):
                    what = ("free", "subscript in " + src(s)[:60])
                del self.path.effects[keep:]
                for h in st.handlers:
                    for cls in self._handler_names(h):
                        if cls in ("KeyError", "LookupError", "IndexError"):
                            if self.decide(("raises", what, cls)):
                                env.clear()
                                env.update(saved)
                                del self.path.effects[before:]
                                raise _Raise("caught:" + cls, (), s)
            if pending is not None:
                raise pending

    def _handler_matches(self, h, r):
        if getattr(r, "handler", None) is not None:
            return r.handler is h
        if r.cls.startswith("caught:"):
            return r.cls[7:] in self._handler_names(h)
        if h.type is None:
            return True
        types = h.type.elts if isinstance(h.type, ast.Tuple) else [h.type]
        for t in types:
            hq = self.m.resolve(self.fstack[-1].module, t)
            if hq is None:
                continue
            if r.cls in self.m.classes or r.cls.startswith("builtins."):
                if self.m.is_subclass(r.cls, hq):
                    return True
        return False


_EXCFLOW = {}


def _excflow_for(program):
    if id(program) not in _EXCFLOW:
        from .excflow import ExcFlow
        _EXCFLOW[id(program)] = ExcFlow(program)
    return _EXCFLOW[id(program)]


_VOCAB = None


def spec_vocabulary():
    """Every identifier the references (/verif/spec) and the rules mention.
    A private helper of the repository whose name is not among them is
    unknown to every rule: it can only be an implementation detail of its
    callers, so the interpreter executes it inline (extracting statements
    into a new private helper must not change any verdict)."""
    global _VOCAB
    if _VOCAB is None:
        import glob
        import os
        import re
        from .report import VERIF
        words = set()
        for pat in ("spec/*.py", "rules/*.py"):
            for fn in glob.glob(os.path.join(VERIF, pat)):
                with open(fn) as f:
                    words.update(re.findall(r"[A-Za-z_][A-Za-z0-9_]*",
                                            f.read()))
        _VOCAB = words
    return _VOCAB


def is_unknown_helper(f):
    name = getattr(f, "name", None) or f.qualname.rsplit(".", 1)[-1]
    if not name.startswith("_") or name.startswith("__"):
        return False
    if has_semantic_decorator(f):
        return False
    return name not in spec_vocabulary()


def has_semantic_decorator(f):
    """A decorator (a cache, a wrapper) changes what a call means: a function
    that carries one -- other than staticmethod / classmethod -- is never
    executed inline, its calls stay opaque."""
    node = getattr(f, "node", None)
    for d in getattr(node, "decorator_list", ()):
        if getattr(d, "id", getattr(d, "attr", None)) not in (
                "staticmethod", "classmethod"):
            return True
    return False


def carried_state_policy(fnode):
    """Loop policy for cross-checks: a loop that carries state from one
    iteration to the next -- it can `break` or `return`, has an `else`, or
    binds a local whose binding reaches a read in a later iteration or after
    the loop -- is run on two distinct representative elements ('twice'), so
    that what one element leaves behind meets another element; every other
    loop is run on one representative (its iterations are independent)."""
    cache = {}

    def own_exits(loop):
        stack = list(loop.body)
        while stack:
            n = stack.pop()
            if isinstance(n, (ast.Break, ast.Return)):
                return True
            if isinstance(n, (ast.FunctionDef, ast.Lambda, ast.ClassDef)):
                continue
            if isinstance(n, (ast.For, ast.While)):
                # a break in there is the inner loop's; a return is ours too
                stack.extend(x for x in ast.walk(n)
                             if isinstance(x, ast.Return))
                continue
            stack.extend(ast.iter_child_nodes(n))
        return False

    def enclosing(loop):
        p = getattr(loop, "_parent", None)
        while p is not None and not isinstance(
                p, (ast.FunctionDef, ast.AsyncFunctionDef)):
            p = getattr(p, "_parent", None)
        return p if p is not None else fnode

    def policy(loop):
        if loop in cache:
            return cache[loop]
        r = "once"
        if isinstance(loop, ast.For):
            if loop.orelse or own_exits(loop):
                r = "twice"
            else:
                from . import cfg as _cfg
                fn = enclosing(loop)
                if ("g", fn) not in cache:
                    try:
                        cache[("g", fn)] = _cfg.CFG(fn)
                    except Exception:
                        cache[("g", fn)] = None
                g = cache[("g", fn)]
                if g is not None and _cfg.loop_carried_names(g, loop):
                    r = "twice"
                elif _container_carried(loop):
                    r = "twice"
        elif isinstance(loop, (ast.ListComp, ast.GeneratorExp, ast.SetComp,
                               ast.DictComp)) and any(
                isinstance(n, ast.NamedExpr) for n in ast.walk(loop)):
            # an assignment expression inside a comprehension leaves its
            # last value behind: state that outlives the iterations
            r = "twice"
        elif isinstance(loop, ast.While):
            # a while loop runs on state its body changes: two rounds, so
            # that what the first leaves behind (an accumulator, the rest of
            # the input) meets the second
            r = "twice"
        cache[loop] = r
        return r
    return policy


_MUTATORS = {"append", "add", "update", "setdefault", "extend", "insert",
             "pop", "remove"}


def _container_carried(loop):
    """The loop body both writes into a local container (x[k] = v,
    x.append(v), ...) and asks what is in it (k in x, x.get(k), ...): what
    one iteration stores, the next one can see."""
    written, read = set(), set()
    for n in ast.walk(loop):
        if isinstance(n, ast.Subscript) and isinstance(n.value, ast.Name):
            # (a plain x[i] read does not count: positional updates of the
            # element at the loop's own index do not meet other iterations;
            # asking whether an entry is already there does)
            if isinstance(n.ctx, (ast.Store, ast.Del)):
                written.add(n.value.id)
        elif isinstance(n, ast.Call) and isinstance(n.func, ast.Attribute) \
                and isinstance(n.func.value, ast.Name):
            if n.func.attr in _MUTATORS:
                written.add(n.func.value.id)
            if n.func.attr in ("get", "setdefault", "index", "count", "pop"):
                read.add(n.func.value.id)
        elif isinstance(n, ast.Compare) and any(
                isinstance(o, (ast.In, ast.NotIn)) for o in n.ops):
            for c in n.comparators:
                if isinstance(c, ast.Name):
                    read.add(c.id)
    return bool(written & read)


def table(paths):
    """Human-readable decision table."""
    return [{"when": p.cond_text(), "then": p.outcome_text()} for p in paths]
