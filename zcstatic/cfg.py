"""E1 -- statement-level control-flow graph with exception edges.

Node kinds
  entry, exit (normal return), raise (exceptional exit),
  stmt (simple statement), test (branch on an expression; edges 'true'/'false'),
  dispatch (exception dispatch of a try), handler (except clause entry),
  with_enter (evaluates the context expression and calls __enter__),
  with_exit (calls __exit__; one copy per way of leaving the body),
  for_iter (evaluates next(iterator); edges 'true' = element, 'false' = exhausted),
  join (no-op)

Edge labels: 'next', 'true', 'false', 'exc' (exception raised by the node),
'match' (dispatch -> handler), 'nomatch' (dispatch -> outer).

`finally` bodies and with-exits are copied once per continuation kind (normal,
exception, return, break, continue) so every path through them continues to
the right place.  The construction trusts Python's semantics of `with`,
`try/finally` and short-circuit evaluation, nothing else.
"""
import ast

from .report import AnalysisError


class Node:
    __slots__ = ("id", "kind", "ast", "succ", "pred", "lineno", "info")

    def __init__(self, id, kind, astnode=None, info=None):
        self.id = id
        self.kind = kind
        self.ast = astnode
        self.succ = []
        self.pred = []
        self.lineno = getattr(astnode, "lineno", 0)
        self.info = info

    def __repr__(self):
        t = ""
        if self.ast is not None:
            try:
                t = ast.unparse(self.ast).split("\n")[0][:50]
            except Exception:
                t = type(self.ast).__name__
        return "<%d %s L%d %s>" % (self.id, self.kind, self.lineno, t)

    def out(self, label):
        return [n for (l, n) in self.succ if l == label]


class Ctx:
    """Where control goes for each non-local continuation."""
    __slots__ = ("exc", "ret", "brk", "cont")

    def __init__(self, exc, ret, brk=None, cont=None):
        self.exc, self.ret, self.brk, self.cont = exc, ret, brk, cont

    def replace(self, **kw):
        c = Ctx(self.exc, self.ret, self.brk, self.cont)
        for k, v in kw.items():
            setattr(c, k, v)
        return c


def default_may_raise(node):
    """A node may raise if it contains a call, a subscript load/delete, a
    raise or an assert (attribute loads and arithmetic are trusted)."""
    for n in ast.walk(node):
        if isinstance(n, (ast.Call, ast.Raise, ast.Assert, ast.Subscript,
                          ast.Await, ast.Yield, ast.YieldFrom)):
            return True
        if isinstance(n, (ast.FunctionDef, ast.Lambda)):
            pass
    return False


class CFG:
    def __init__(self, fnode, may_raise=None, is_noreturn=None):
        self.fnode = fnode
        self.nodes = []
        self.may_raise = may_raise or default_may_raise
        self.is_noreturn = is_noreturn or (lambda call: False)
        self.entry = self._new("entry")
        self.exit = self._new("exit")
        self.raise_exit = self._new("raise")
        self.by_ast = {}
        ctx = Ctx(exc=lambda: self.raise_exit, ret=lambda: self.exit)
        ends = self._block(fnode.body, [(self.entry, "next")], ctx)
        self._connect(ends, self.exit)
        self._prune()

    # ----------------------------------------------------------- primitives
    def _new(self, kind, astnode=None, info=None):
        n = Node(len(self.nodes), kind, astnode, info)
        self.nodes.append(n)
        if astnode is not None and kind in ("stmt", "test", "with_enter",
                                            "for_iter", "handler"):
            self.by_ast.setdefault(id(astnode), []).append(n)
        return n

    def _edge(self, a, label, b):
        if (label, b) not in a.succ:
            a.succ.append((label, b))
            b.pred.append((label, a))

    def _connect(self, ends, target):
        for (n, label) in ends:
            self._edge(n, label, target)

    def _prune(self):
        seen, todo = set(), [self.entry]
        while todo:
            n = todo.pop()
            if n.id in seen:
                continue
            seen.add(n.id)
            todo.extend(m for _, m in n.succ)
        self.reachable = seen
        for n in self.nodes:
            n.pred = [(l, p) for (l, p) in n.pred if p.id in seen]

    # ------------------------------------------------------------ statements
    def _simple(self, st, ends, ctx, kind="stmt"):
        n = self._new(kind, st)
        self._connect(ends, n)
        if self.may_raise(st):
            self._edge(n, "exc", ctx.exc())
        return n

    def _block(self, stmts, ends, ctx):
        for st in stmts:
            if not ends:
                break  # unreachable code
            ends = self._stmt(st, ends, ctx)
        return ends

    def _stmt(self, st, ends, ctx):
        if isinstance(st, ast.Return):
            n = self._simple(st, ends, ctx)
            self._edge(n, "next", ctx.ret())
            return []
        if isinstance(st, ast.Raise):
            n = self._new("stmt", st)
            self._connect(ends, n)
            self._edge(n, "exc", ctx.exc())
            return []
        if isinstance(st, ast.Expr) and isinstance(st.value, ast.Call) \
                and self.is_noreturn(st.value):
            n = self._new("stmt", st, info="noreturn")
            self._connect(ends, n)
            self._edge(n, "exc", ctx.exc())
            return []
        if isinstance(st, ast.Break):
            n = self._new("stmt", st)
            self._connect(ends, n)
            if ctx.brk is None:
                raise AnalysisError("break outside loop")
            self._edge(n, "next", ctx.brk())
            return []
        if isinstance(st, ast.Continue):
            n = self._new("stmt", st)
            self._connect(ends, n)
            if ctx.cont is None:
                raise AnalysisError("continue outside loop")
            self._edge(n, "next", ctx.cont())
            return []
        if isinstance(st, ast.If):
            t_ends, f_ends = self._cond(st.test, ends, ctx, st)
            a = self._block(st.body, t_ends, ctx)
            b = self._block(st.orelse, f_ends, ctx) if st.orelse else f_ends
            return a + b
        if isinstance(st, ast.While):
            head = self._new("join", st)
            self._connect(ends, head)
            after = self._new("join")
            t_ends, f_ends = self._cond(st.test, [(head, "next")], ctx, st)
            lctx = ctx.replace(brk=lambda: after, cont=lambda: head)
            body_ends = self._block(st.body, t_ends, lctx)
            self._connect(body_ends, head)
            else_ends = self._block(st.orelse, f_ends, ctx) if st.orelse \
                else f_ends
            self._connect(else_ends, after)
            return [(after, "next")]
        if isinstance(st, (ast.For, ast.AsyncFor)):
            init = self._new("stmt", ast.Expr(value=st.iter), info="for_init")
            init.lineno = st.lineno
            self._connect(ends, init)
            if self.may_raise(st.iter):
                self._edge(init, "exc", ctx.exc())
            head = self._new("for_iter", st)
            self._edge(init, "next", head)
            self._edge(head, "exc", ctx.exc()) if self.may_raise(st.iter) \
                else None
            after = self._new("join")
            lctx = ctx.replace(brk=lambda: after, cont=lambda: head)
            body_ends = self._block(st.body, [(head, "true")], lctx)
            self._connect(body_ends, head)
            else_ends = self._block(st.orelse, [(head, "false")], ctx) \
                if st.orelse else [(head, "false")]
            self._connect(else_ends, after)
            return [(after, "next")]
        if isinstance(st, (ast.With, ast.AsyncWith)):
            return self._with(st, 0, ends, ctx)
        if isinstance(st, ast.Try) or (hasattr(ast, "TryStar")
                                       and isinstance(st, ast.TryStar)):
            return self._try(st, ends, ctx)
        if isinstance(st, (ast.FunctionDef, ast.AsyncFunctionDef,
                           ast.ClassDef)):
            n = self._new("stmt", st, info="def")
            self._connect(ends, n)
            return [(n, "next")]
        if isinstance(st, ast.Assert):
            n = self._simple(st, ends, ctx)
            return [(n, "next")]
        if isinstance(st, ast.Match):
            raise AnalysisError("match statement not in the analysable "
                                "vocabulary (line %d)" % st.lineno)
        # Assign, AugAssign, AnnAssign, Expr, Delete, Pass, Import, Global...
        n = self._simple(st, ends, ctx)
        return [(n, "next")]

    # ------------------------------------------------------------ conditions
    def _cond(self, test, ends, ctx, owner):
        """Returns (true_ends, false_ends); splits and/or/not."""
        if isinstance(test, ast.BoolOp):
            if isinstance(test.op, ast.And):
                f_all = []
                cur = ends
                for v in test.values:
                    t, f = self._cond(v, cur, ctx, owner)
                    f_all += f
                    cur = t
                return cur, f_all
            else:
                t_all = []
                cur = ends
                for v in test.values:
                    t, f = self._cond(v, cur, ctx, owner)
                    t_all += t
                    cur = f
                return t_all, cur
        if isinstance(test, ast.UnaryOp) and isinstance(test.op, ast.Not):
            t, f = self._cond(test.operand, ends, ctx, owner)
            return f, t
        n = self._new("test", test, info=owner)
        self._connect(ends, n)
        if self.may_raise(test):
            self._edge(n, "exc", ctx.exc())
        return [(n, "true")], [(n, "false")]

    # ------------------------------------------------------------------ with
    def _with(self, st, i, ends, ctx):
        item = st.items[i]
        enter = self._new("with_enter", item, info=st)
        enter.lineno = st.lineno
        self._connect(ends, enter)
        self._edge(enter, "exc", ctx.exc())
        copies = {}

        def exit_copy(kind, target_fn):
            def get():
                if kind not in copies:
                    x = self._new("with_exit", item, info=(st, kind))
                    x.lineno = st.lineno
                    copies[kind] = x
                    self._edge(x, "next", target_fn())
                return copies[kind]
            return get

        ictx = Ctx(exc=exit_copy("exc", ctx.exc),
                   ret=exit_copy("ret", ctx.ret),
                   brk=exit_copy("brk", ctx.brk) if ctx.brk else None,
                   cont=exit_copy("cont", ctx.cont) if ctx.cont else None)
        if i + 1 < len(st.items):
            body_ends = self._with(st, i + 1, [(enter, "next")], ictx)
        else:
            body_ends = self._block(st.body, [(enter, "next")], ictx)
        if body_ends:
            x = self._new("with_exit", item, info=(st, "normal"))
            x.lineno = st.lineno
            self._connect(body_ends, x)
            return [(x, "next")]
        return []

    # ------------------------------------------------------------------- try
    def _try(self, st, ends, ctx):
        has_finally = bool(st.finalbody)
        fin_copies = {}

        def fin_copy(kind, target_fn, fctx):
            """entry node of a copy of the finally body that continues to
            target_fn() afterwards."""
            def get():
                if kind not in fin_copies:
                    head = self._new("join", None, info=("finally", kind))
                    head.lineno = st.finalbody[0].lineno
                    fin_copies[kind] = head
                    e = self._block(st.finalbody, [(head, "next")], fctx)
                    if e:
                        self._connect(e, target_fn())
                return fin_copies[kind]
            return get

        if has_finally:
            octx = Ctx(exc=fin_copy("exc", ctx.exc, ctx),
                       ret=fin_copy("ret", ctx.ret, ctx),
                       brk=fin_copy("brk", ctx.brk, ctx) if ctx.brk else None,
                       cont=fin_copy("cont", ctx.cont, ctx) if ctx.cont
                       else None)
        else:
            octx = ctx

        if st.handlers:
            dispatch = self._new("dispatch", st)
            bctx = octx.replace(exc=lambda: dispatch)
        else:
            dispatch = None
            bctx = octx

        body_ends = self._block(st.body, ends, bctx)
        if st.orelse:
            body_ends = self._block(st.orelse, body_ends, octx)
        out = list(body_ends)

        if dispatch is not None:
            catch_all = False
            for h in st.handlers:
                hn = self._new("handler", h)
                self._edge(dispatch, "match", hn)
                out += self._block(h.body, [(hn, "next")], octx)
                if h.type is None or (
                        isinstance(h.type, ast.Name)
                        and h.type.id == "BaseException"):
                    catch_all = True
            if not catch_all:
                self._edge(dispatch, "nomatch", octx.exc())

        if has_finally:
            if out:
                head = self._new("join", None, info=("finally", "normal"))
                head.lineno = st.finalbody[0].lineno
                self._connect(out, head)
                return self._block(st.finalbody, [(head, "next")], ctx)
            return []
        return out

    # ------------------------------------------------------------- analyses
    def live_nodes(self):
        return [n for n in self.nodes if n.id in self.reachable]

    def dominators(self):
        """dict node.id -> set of dominating node ids (incl. itself)."""
        nodes = self.live_nodes()
        allids = {n.id for n in nodes}
        dom = {n.id: set(allids) for n in nodes}
        dom[self.entry.id] = {self.entry.id}
        changed = True
        order = nodes
        while changed:
            changed = False
            for n in order:
                if n is self.entry:
                    continue
                preds = [p for _, p in n.pred]
                if not preds:
                    continue
                new = set.intersection(*(dom[p.id] for p in preds))
                new = new | {n.id}
                if new != dom[n.id]:
                    dom[n.id] = new
                    changed = True
        return dom

    def reach_from(self, start, avoid=None, labels=None):
        """ids reachable from `start` (a Node or (node,label) list) without
        entering nodes for which avoid(node) is true."""
        seen = set()
        todo = [start] if isinstance(start, Node) else list(start)
        while todo:
            n = todo.pop()
            if n.id in seen:
                continue
            if avoid is not None and avoid(n):
                continue
            seen.add(n.id)
            for l, m in n.succ:
                if labels is None or l in labels:
                    todo.append(m)
        return seen

    def nodes_for(self, astnode):
        return [n for n in self.by_ast.get(id(astnode), [])
                if n.id in self.reachable]

    def node_containing(self, astnode):
        """CFG nodes whose ast contains `astnode` (a sub-expression)."""
        out = []
        for n in self.live_nodes():
            if n.ast is None:
                continue
            root = n.ast
            if n.kind == "with_enter" or n.kind == "with_exit":
                root = n.ast.context_expr
            elif n.kind == "for_iter":
                root = n.ast.target
            elif n.kind == "handler":
                root = n.ast.type
                if root is None:
                    continue
            if isinstance(root, (ast.FunctionDef, ast.ClassDef)):
                continue
            for x in ast.walk(root):
                if x is astnode:
                    out.append(n)
                    break
        return out

    def path_conditions(self, target):
        """Set of (test ast, polarity) that hold on *every* path to target:
        a test node T with polarity p is included when target is reachable
        from entry only through T's p-edge (i.e. removing that edge makes the
        target unreachable)."""
        out = []
        for t in self.live_nodes():
            if t.kind not in ("test", "for_iter"):
                continue
            for pol in ("true", "false"):
                # is target reachable when edge (t, pol) is cut?
                seen, todo = set(), [self.entry]
                while todo:
                    n = todo.pop()
                    if n.id in seen:
                        continue
                    seen.add(n.id)
                    for l, m in n.succ:
                        if n is t and l == pol:
                            continue
                        todo.append(m)
                if target.id not in seen:
                    out.append((t, pol == "true"))
        return out

    def must_pass(self, src_ends, pred, targets):
        """True iff every path from src_ends to any node in `targets` contains
        a node satisfying pred.  Returns (ok, offending target or None)."""
        seen = self.reach_from(src_ends, avoid=pred)
        for t in targets:
            if t.id in seen:
                return False, t
        return True, None


def _node_names(n):
    """(names stored, names loaded) by a CFG node."""
    a = n.ast
    st, ld = set(), set()
    if a is None or n.kind in ("join", "dispatch"):
        return st, ld
    if n.kind == "for_iter":
        for x in ast.walk(a.target):
            if isinstance(x, ast.Name):
                st.add(x.id)
        return st, ld
    if n.kind in ("with_enter", "with_exit"):
        for x in ast.walk(a.context_expr):
            if isinstance(x, ast.Name):
                ld.add(x.id)
        if n.kind == "with_enter" and a.optional_vars is not None:
            for x in ast.walk(a.optional_vars):
                if isinstance(x, ast.Name):
                    st.add(x.id)
        return st, ld
    if n.kind == "handler":
        if a.name:
            st.add(a.name)
        return st, ld
    if isinstance(a, (ast.FunctionDef, ast.AsyncFunctionDef, ast.ClassDef)):
        st.add(a.name)
        return st, ld
    for x in ast.walk(a):
        if isinstance(x, ast.Name):
            if isinstance(x.ctx, ast.Store):
                st.add(x.id)
            else:
                ld.add(x.id)
    if isinstance(a, ast.AugAssign) and isinstance(a.target, ast.Name):
        ld.add(a.target.id)
    return st, ld


def loop_carried_names(g, loop):
    """Names bound inside the body of the `for` loop `loop` whose binding can
    reach a read in a later iteration or after the loop (reaching definitions
    over the CFG): the state one iteration leaves to what follows.  The loop
    target itself is not counted."""
    heads = [n for n in g.live_nodes() if n.kind == "for_iter"
             and n.ast is loop]
    if not heads:
        return set()
    head = heads[0]
    inside = set()
    for b in loop.body:
        for x in ast.walk(b):
            inside.add(id(x))
    body = [n for n in g.live_nodes() if n.ast is not None and (
        id(n.ast) in inside or (n.kind in ("with_enter", "with_exit")
                                and id(n.ast.context_expr) in inside))]
    tgt = {x.id for x in ast.walk(loop.target) if isinstance(x, ast.Name)}
    names = {}
    for n in g.live_nodes():
        names[n.id] = _node_names(n)
    carried = set()
    for d in body:
        for nm in names[d.id][0] - tgt - carried:
            # forward from d without passing another binding of nm; a read is
            # relevant once the loop head has been passed
            seen = set()
            todo = [(m, False) for l, m in d.succ if l != "exc"]
            while todo:
                n, passed = todo.pop()
                if n is head:
                    passed = True
                if (n.id, passed) in seen:
                    continue
                seen.add((n.id, passed))
                st_, ld_ = names.get(n.id, (set(), set()))
                if passed and nm in ld_:
                    carried.add(nm)
                    break
                if nm in st_:
                    continue
                for l, m in n.succ:
                    todo.append((m, passed))
    return carried


def build(fi, model=None, may_raise=None, is_noreturn=None):
    return CFG(fi.node, may_raise=may_raise, is_noreturn=is_noreturn)
