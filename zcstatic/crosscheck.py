"""Cross-checking a live function against a reference implementation.

Both are turned into decision tables by absint.Interp (neither is executed);
the tables are compared valuation by valuation.  The reference lives in
/verif/spec/ref_*.py, written from the documentation; it is parsed, never run.

Verdicts
  equivalent        every joint valuation gives the same outcome
  violation         a valuation over atoms the reference knows gives a
                    different outcome (witness: the valuation, both outcomes)
  unanalysable      the live code's outcome depends on a predicate outside the
                    reference's vocabulary (AnalysisError -> exit 2)
"""
import ast
import os

from . import absint as A
from . import stratoms as SA
from .model import Module, FunctionInfo
from .report import AnalysisError, VERIF

_spec_cache = {}


def spec_function(model, filename, name, as_method=False):
    """FunctionInfo for a reference function in /verif/spec/<filename>."""
    key = (id(model), filename)
    if key not in _spec_cache:
        path = os.path.join(VERIF, "spec", filename)
        with open(path) as f:
            source = f.read()
        mod = Module("spec." + filename[:-3], path, source)
        model._index_imports(mod)
        for st in mod.tree.body:
            if isinstance(st, ast.Assign):
                for t in st.targets:
                    if isinstance(t, ast.Name):
                        mod.assigns.setdefault(t.id, []).append(st.value)
        _spec_cache[key] = mod
    mod = _spec_cache[key]
    for st in mod.tree.body:
        if isinstance(st, ast.FunctionDef) and st.name == name:
            fi = FunctionInfo(mod.name + "." + name, st, mod)
            if as_method:
                fi.cls = _FakeClass()
            return fi
    raise AnalysisError("reference function %s missing in spec/%s"
                        % (name, filename))


def spec_method(program, filename, name, cls_qual):
    """Reference function whose first parameter stands for an instance of the
    repository class cls_qual (so that self.m(...) resolves like in the live
    method)."""
    model = program.model
    fi = spec_function(model, filename, name, as_method=True)
    if cls_qual not in model.classes:
        raise AnalysisError("anchor vanished: class " + cls_qual)
    fi.cls = model.classes[cls_qual]
    fi.qualname = "spec.%s.%s" % (filename[:-3], name)
    if fi.params:
        program.vtype[(fi.qualname, fi.params[0])] = {"C:" + cls_qual}
    return fi


def _unused():
    if True:
        if True:
            pass
    raise AnalysisError("reference function %s missing in spec/%s"
                        % (name, filename))


class _FakeClass:
    qualname = "spec.<reference>"
    name = "<reference>"


def atom_vocab_key(atom):
    k = atom[0]
    if k == "eq":
        return ("eq", atom[1])
    if k == "ord":
        if A.is_const(atom[2]):
            return ("ordc", atom[1])
        return ("ord", atom[1], atom[2])
    if k in ("truthy", "isnone"):
        return ("val", atom[1])
    return atom


def norm_outcome(p, effects=None, outcome_norm=None):
    o = p.outcome
    if o[0] == "return":
        base = ("return", A.fmt(_known_none(p, o[1])))
    elif o[0] == "raise":
        cls = o[1]
        base = ("raise", cls)
    else:
        base = ("return", "None")   # falling off the end returns None
    if outcome_norm is not None:
        base = outcome_norm(p, base)
    if effects is None:
        return base
    return base + (tuple(effects(p)),)


def default_effects(p):
    """Ordered effect list; a run of consecutive stores is reduced to the
    last store per location and order-normalised (independent stores
    commute)."""
    raw = _raw_effects(p)
    out, run_ = [], []

    def flush():
        # within a run of stores (nothing in between can observe them) a
        # later store to the same location supersedes the earlier one
        last = {}
        for i, x in enumerate(run_):
            last[x.split(" = ")[0]] = i
        kept = [x for i, x in enumerate(run_)
                if last[x.split(" = ")[0]] == i]
        out.extend(sorted(kept))
        del run_[:]
    for x in raw:
        if x.startswith("store "):
            run_.append(x)
        else:
            flush()
            out.append(x)
    flush()
    return out


_LOCAL_MUT = {"append", "extend", "insert", "add", "update", "setdefault",
              "pop", "remove", "clear", "sort", "reverse"}


def _occurs(term, sub):
    if term == sub:
        return True
    if isinstance(term, tuple):
        return any(_occurs(x, sub) for x in term)
    return False


def _non_escaping_containers(p):
    """Fresh local containers ([]#n / {}#n) that are only ever the receiver
    of their own mutator calls: bookkeeping that no one else can observe."""
    fresh = set()
    for e in p.effects:
        if e[0] == "call" and e[1][1][0] == "attr" \
                and e[1][1][1][0] in ("newlist", "newdict") \
                and e[1][1][2] in _LOCAL_MUT:
            fresh.add(e[1][1][1])
    escaping = set()
    for c in fresh:
        if p.outcome is not None and _occurs(p.outcome, c):
            escaping.add(c)
            continue
        for e in p.effects:
            terms = [x for x in e[1:] if isinstance(x, tuple)]
            if e[0] == "call" and e[1][1][0] == "attr" \
                    and e[1][1][1] == c and e[1][1][2] in _LOCAL_MUT:
                # only the arguments count, not the receiver position
                terms = list(e[1][2]) + [v for _, v in e[1][3]]
            if any(_occurs(t, c) for t in terms):
                escaping.add(c)
                break
    return fresh - escaping


def _known_none(p, t):
    """A term the path has established to be None is printed as None (storing
    `v` after `v is None` held stores None)."""
    nones = [a[1] for a, v in p.valuation.items()
             if a[0] == "isnone" and v is True]
    # d.get(k) where the path has established that k is not in d
    nones += [("get", a[2], a[1]) for a, v in p.valuation.items()
              if a[0] == "contains" and v is False]
    # a term the path has established to equal a string constant *is* that
    # constant where it is used (`'handle_' + name` under name == 'define')
    eqs = [(a[1], a[2]) for a, v in p.valuation.items()
           if a[0] == "eq" and v is True and A.is_const(a[2])
           and isinstance(a[2][1], str) and isinstance(a[1], tuple)
           and a[1][0] != "const"]
    if not nones and not eqs:
        return t

    def sub(x):
        if not isinstance(x, tuple):
            return x
        for n in nones:
            if x is n or (len(x) == len(n) and x[0] == n[0] and _eq(x, n)):
                return A.const(None)
        for n, c in eqs:
            if x is n or (len(x) == len(n) and x[0] == n[0] and _eq(x, n)):
                return c
        if x and x[0] in ("closure", "lambda", "const"):
            return x
        y = tuple(sub(z) for z in x)
        if y and y[0] == "binop" and len(y) == 4 and y[1] == "Add":
            return A.mk_add(y[2], y[3])
        return y
    return sub(t)


def _eq(a, b):
    try:
        return a == b
    except Exception:
        return False


def _folded_lists(p):
    """A fresh list whose exact contents are known, that is stored into one
    location and otherwise only appended to -- with nothing but stores and
    its own appends between the first and the last of these events, so no
    one can see it half built -- is the same as storing the finished list
    (`d[k] = []; d[k].append(v)`, `L = []; L.append(v); d[k] = L` and
    `d[k] = [v]` are one effect).  Returns ({container: list term},
    indices of the append effects to drop)."""
    builders = getattr(p, "builders", None) or {}
    fold, drop = {}, set()
    for n, contents in builders.items():
        if not contents:
            continue
        c = ("newlist", n)
        if p.outcome is not None and _occurs(p.outcome, c):
            continue
        own, stores, other = [], [], False
        for i, e in enumerate(p.effects):
            if not any(_occurs(x, c) for x in e[1:] if isinstance(x, tuple)):
                continue
            if e[0] == "call" and e[1][1][0] == "attr" and e[1][1][1] == c \
                    and e[1][1][2] in ("append", "extend") \
                    and not any(_occurs(a, c) for a in e[1][2]):
                own.append(i)
            elif e[0] == "store" and e[2] == c and not _occurs(e[1], c):
                stores.append(i)
            elif e[0] == "item-store" and e[3] == c \
                    and not _occurs(e[1], c) and not _occurs(e[2], c):
                stores.append(i)
            else:
                other = True
        if other or len(stores) != 1 or not own:
            continue
        lo, hi = min(own + stores), max(own + stores)
        if any(p.effects[i][0] not in ("store", "item-store")
               and i not in own for i in range(lo, hi + 1)):
            continue
        fold[c] = ("list", tuple(contents))
        drop.update(own)
    return fold, drop


def _subst(t, fold):
    if not fold or not isinstance(t, tuple):
        return t
    if t in fold:
        return fold[t]
    if t and t[0] in ("closure", "lambda", "const"):
        return t
    return tuple(_subst(x, fold) for x in t)


def _raw_effects(p):
    out = []
    hidden = _non_escaping_containers(p)
    fold, drop = _folded_lists(p)
    effects = p.effects
    if fold:
        effects = [tuple(_subst(x, fold) if isinstance(x, tuple) else x
                         for x in e) if e[0] in ("store", "item-store")
                   else e
                   for i, e in enumerate(p.effects) if i not in drop]
    for e in effects:
        if hidden and e[0] == "call" and e[1][1][0] == "attr" \
                and e[1][1][1] in hidden:
            continue
        if e[0] == "call" and e[1][1][0] == "attr" and e[1][1][2] in (
                "update", "extend") and len(e[1][2]) == 1 and not e[1][3] \
                and e[1][1][1][0] == "attr" and e[1][1][1][1][0] == "call" \
                and e[1][1][1][1][1][0] == "global" \
                and e[1][2][0][0] in ("attr", "param"):
            # filling a container of an object constructed in this activation
            # from a plain attribute: a store-like event -- such fillings of
            # *distinct* containers commute (sorted with the stores around)
            out.append("store %s += %s" % (A.fmt(e[1][1][1]),
                                           A.fmt(e[1][2][0])))
            continue
        if e[0] == "call":
            # (the call itself is an event even when its result is None;
            # only its operands are read as values)
            t = e[1]
            out.append("call " + A.fmt(
                (t[0], _known_none(p, t[1]),
                 tuple(_known_none(p, a) for a in t[2])) + tuple(t[3:])))
        elif e[0] == "store":
            out.append("store %s = %s" % (A.fmt(e[1]),
                                          A.fmt(_known_none(p, e[2]))))
        elif e[0] == "item-store":
            out.append("store %s[%s] = %s" % (A.fmt(e[1]), A.fmt(e[2]),
                                              A.fmt(_known_none(p, e[3]))))
        elif e[0] == "slice-store":
            t = e[1]
            if t[0] == "attr" and t[1][0] == "call" and t[1][1][0] == \
                    "global" and not any(
                        x is not e and x[0] in ("call", "slice-store",
                                                "item-store")
                        and any(isinstance(y, tuple) and _occurs(y, t)
                                for y in x[1:])
                        for x in effects[:effects.index(e)]):
                # x[:] = ys on a container of an object constructed in this
                # activation and not touched since (still empty, C13.R8) is
                # x.extend(ys)
                out.append("store %s += %s" % (A.fmt(t), A.fmt(e[2])))
            else:
                out.append("store %s[:] = %s" % (A.fmt(e[1]), A.fmt(e[2])))
        elif e[0] == "close":
            out.append("close " + A.fmt(e[1]))
        elif e[0] == "del-item":
            out.append("del %s[%s]" % (A.fmt(e[1]), A.fmt(e[2])))
    return out


COMPARED = []   # (live qualname, reference name) of every comparison made


def compare(program, live_fi, ref_fi, effects=default_effects, **kw):
    COMPARED.append((live_fi.qualname, getattr(ref_fi, "name", "?")))
    lk = dict(kw.get("live_kw") or {})
    rk = dict(kw.get("ref_kw") or {})
    deep = os.environ.get("ZC_DEEP") == "1" and "loop_policy" not in lk \
        and "loop_policy" not in rk
    rc = getattr(ref_fi, "cls", None)
    lc = getattr(live_fi, "cls", None)
    if rc is not None and lc is not None and not isinstance(rc, _FakeClass) \
            and rc is not lc and lc.qualname in program.model.mro(
                rc.qualname):
        # the live method is inherited by the class the reference is written
        # for (moved to a base class or mixin): it is analysed as that class
        # has it (super() along that class's MRO, its constants)
        lk.setdefault("self_class", rc.qualname)
    if rk.get("virtual"):
        # the reference is read with a private helper of its own expanded
        # because the live class no longer has that method: wherever the
        # live code keeps the helper now (a module-level function, say), it
        # is expanded as well
        _names, _old = set(rk["virtual"]), lk.get("inline")
        lk["inline"] = lambda f, _n=_names, _o=_old: (
            getattr(f, "name", None) in _n
            and not A.has_semantic_decorator(f)) or bool(_o and _o(f))
    lk.setdefault("loop_policy", A.carried_state_policy(live_fi.node))
    rk.setdefault("loop_policy", A.carried_state_policy(ref_fi.node))
    kw = dict(kw, live_kw=lk, ref_kw=rk)
    r = None
    if deep:
        # thorough tier: every loop on two representative elements (also the
        # ones whose iterations look independent), where the path count
        # allows it
        try:
            kw2 = dict(kw, live_kw=dict(lk, loop_policy=lambda n: "twice"),
                       ref_kw=dict(rk, loop_policy=lambda n: "twice"))
            r = _compare(program, live_fi, ref_fi, effects=effects, **kw2)
            r["deep"] = True
            if r["verdict"] == "unanalysable":
                r = None
        except AnalysisError:
            r = None
    if r is None:
        r = _compare(program, live_fi, ref_fi, effects=effects, **kw)
    if r.get("loops_live") != r.get("loops_ref"):
        # the two sides disagree on which loops carry state (one of them
        # keeps a candidate or a flag the other does not): run both with two
        # representatives in every loop, or, if that is too much, both with
        # one, so that the tables are over the same observations
        for pol in ("twice", "once"):
            kw2 = dict(kw)
            kw2["live_kw"] = dict(kw.get("live_kw") or {},
                                  loop_policy=lambda n, p=pol: p)
            kw2["ref_kw"] = dict(kw.get("ref_kw") or {},
                                 loop_policy=lambda n, p=pol: p)
            try:
                r = _compare(program, live_fi, ref_fi, effects=effects, **kw2)
                break
            except AnalysisError:
                continue
    if r["verdict"] != "equivalent":
        # The live function may have delegated part of its work to another
        # function of the repository that the reference spells out in place
        # (a shared helper that exists anyway).  Functions the reference does
        # not mention are executed inline; the result is used only if it
        # makes the two equivalent.
        idents = set()
        for n in ast.walk(ref_fi.node):
            if isinstance(n, ast.Attribute):
                idents.add(n.attr)
            elif isinstance(n, ast.Name):
                idents.add(n.id)

        def inl(f):
            nm = getattr(f, "name", "")
            from .absint import has_semantic_decorator
            # (a base-class constructor reached through super() or an
            # explicit Base.__init__(self, ...) is such a function too)
            return (nm not in idents or nm == "__init__") \
                and (not nm.startswith("__") or (
                    nm == "__init__" and f is not live_fi
                    and getattr(f, "cls", None) is not None
                    and getattr(live_fi, "cls", None) is not None
                    and f.cls.qualname in program.model.mro(
                        live_fi.cls.qualname)[1:])) \
                and not has_semantic_decorator(f) \
                and sum(1 for _ in ast.walk(f.node)) < 400
        kw2 = dict(kw, live_kw=dict(kw["live_kw"], inline=inl))
        try:
            r2 = _compare(program, live_fi, ref_fi, effects=effects, **kw2)
            if r2["verdict"] == "equivalent":
                r = r2
        except Exception:
            pass
    r["ref_fi"] = ref_fi
    r["live_fi"] = live_fi
    if r["verdict"] == "violation":
        r["vanished"] = [
            n for n in vanished_names(program.model, live_fi, ref_fi)
            if n not in (kw.get("ref_kw") or {}).get("virtual", {})]
    return r


def vanished_names(model, live_fi, ref_fi):
    """Attribute / method names the reference uses on `self` that no longer
    occur anywhere in the live module (or, for methods, in the live class
    hierarchy): the anchor was renamed or removed, so a mismatch is not
    evidence of a behavioural difference."""
    import re as _re
    if not ref_fi.params or ref_fi.cls is None or isinstance(
            ref_fi.cls, _FakeClass) or live_fi.cls is None:
        return []   # only methods have a `self` whose attributes are anchors
    selfn = ref_fi.params[0]
    names = set()
    for n in ast.walk(ref_fi.node):
        if isinstance(n, ast.Attribute) and isinstance(n.value, ast.Name) \
                and n.value.id == selfn:
            names.add(n.attr)
    mods = [live_fi.module]
    if live_fi.cls is not None:
        for k in model.mro(live_fi.cls.qualname):
            c = model.classes.get(k)
            if c is not None and c.module not in mods:
                mods.append(c.module)
    idents = set()
    for mod in mods:
        for n in ast.walk(mod.tree):
            if isinstance(n, ast.Attribute):
                idents.add(n.attr)
            elif isinstance(n, ast.Name):
                idents.add(n.id)
            elif isinstance(n, (ast.FunctionDef, ast.ClassDef)):
                idents.add(n.name)
    gone = {n for n in names if n not in idents}
    # a *method* the reference calls on self that the live class hierarchy
    # no longer defines (turned into a module-level function, say): the name
    # still occurs in the module, the anchor does not
    called = set()
    for n in ast.walk(ref_fi.node):
        if isinstance(n, ast.Call) and isinstance(n.func, ast.Attribute) \
                and isinstance(n.func.value, ast.Name) \
                and n.func.value.id == selfn:
            called.add(n.func.attr)
    cq = live_fi.cls.qualname
    rq = getattr(ref_fi.cls, "qualname", None)
    for nm in called:
        if model.lookup_method(cq, nm) is None and (
                rq is None or model.lookup_method(rq, nm) is None):
            fields = set()
            for k in model.mro(cq):
                c = model.classes.get(k)
                if c is not None:
                    fields |= set(c.fields)
            if nm not in fields:
                gone.add(nm)
    return sorted(gone)


def _compare(program, live_fi, ref_fi, effects=default_effects,
            live_kw=None, ref_kw=None, outcome_norm=None, rename=None,
            independent=None):
    """`independent(atom)`: the rule's lemma that an observation outside the
    reference vocabulary is independent of every reference observation (any
    joint valuation is feasible), e.g. the character at a different position
    of an arbitrary input string.  A mismatch whose unknown atoms are all
    independent is a definite violation."""
    """Returns dict(verdict=..., rows=n, witness=...)."""
    live_kw = live_kw or {}
    ref_kw = ref_kw or {}
    live_paths = A.Interp(live_fi, program, **live_kw).paths()
    ref_paths = A.Interp(ref_fi, program, **ref_kw).paths()
    rn = rename or (lambda s: s)
    r = _compare_paths(live_paths, ref_paths, effects, outcome_norm, rn,
                       independent)
    r["loops_live"] = {a for p in live_paths for a in p.valuation
                       if a[0] == "loop"}
    r["loops_ref"] = {a for p in ref_paths for a in p.valuation
                      if a[0] == "loop"}
    return r


def _compare_paths(live_paths, ref_paths, effects, outcome_norm, rn,
                   independent):

    def norm(p):
        o = norm_outcome(p, effects, outcome_norm)
        return _renumber(_rename(o, rn))

    vocab = set()
    for p in ref_paths:
        for a in p.order:
            vocab.add(atom_vocab_key(_rename_atom(a, rn)))
    rows = 0
    unknown = {}
    lvals = []
    set_aside = []
    for lp in live_paths:
        lval = {_rename_atom(a, rn): v for a, v in lp.valuation.items()}
        known = {a: v for a, v in lval.items()
                 if atom_vocab_key(a) in vocab}
        unk = [a for a in lval if atom_vocab_key(a) not in vocab]
        lo_ = norm(lp)
        if lo_[0] == "raise" and str(lo_[1]).endswith("AssertionError"):
            # a failing assertion (assert / raise AssertionError) where the
            # reference, on the same observations, asserts nothing: a
            # defensive check, read as an assumption -- the path on which it
            # fails is set aside (and must not be the only path the live code
            # has for a case the reference handles, see below)
            ref_asserts = any(
                _compatible({_rename_atom(a, rn): v
                             for a, v in rp.valuation.items()}, known)
                and str(norm(rp)[1]).endswith("AssertionError")
                for rp in ref_paths if rp.outcome[0] == "raise")
            if not ref_asserts:
                set_aside.append((lp, lval, known, unk, lo_))
                continue
        lvals.append((lp, lval, known, unk, lo_))
    rvals = [({_rename_atom(a, rn): v for a, v in rp.valuation.items()},
              norm(rp)) for rp in ref_paths]
    # a case the reference handles for which the live code has nothing but
    # a failing assertion
    for rval, ro in rvals:
        if any(_compatible(rval, known) for _, _, known, _, _ in lvals):
            continue
        for lp, lval, known, unk, lo in set_aside:
            if _compatible(rval, known):
                return {"verdict": "violation", "rows": rows, "witness": {
                    "reference_valuation": {A.fmt_atom(a): v
                                            for a, v in rval.items()},
                    "reference": _show(ro), "live": _show(lo),
                    "valuation": {A.fmt_atom(a): v for a, v in lval.items()},
                    "note": "the only live path for this case is a failing "
                            "assertion"},
                    "live_paths": len(live_paths),
                    "ref_paths": len(ref_paths)}
    lang_rows = [0, 0]
    for lp, lval, known, unk, lo in lvals:
        for rval, ro in rvals:
            if not _compatible(rval, known):
                continue
            decided = None
            if unk and all(SA.translatable(a) for a in unk):
                # string observations on a parameter, written differently
                # from the reference's: joint feasibility is decided on
                # their regular languages (zcstatic.stratoms)
                decided = SA.joint_witness(lval, rval)
                if decided is False:
                    lang_rows[0] += 1
                    continue
            rows += 1
            if decided:
                lang_rows[1] += 1
            if ro != lo:
                w = {"valuation": {A.fmt_atom(a): v for a, v in lval.items()},
                     "reference_valuation": {A.fmt_atom(a): v
                                             for a, v in rval.items()},
                     "live": _show(lo), "reference": _show(ro)}
                if decided:
                    w["input"] = decided
                    w["note"] = ("both paths are taken by this input (joint "
                                 "feasibility decided on the regular "
                                 "languages of the string observations)")
                    return {"verdict": "violation", "rows": rows,
                            "witness": w, "live_paths": len(live_paths),
                            "ref_paths": len(ref_paths)}
                # (the rule's independence lemma is not used for an
                # observation of a string the reference row observes too:
                # overlapping slices of one string are not independent)
                same_subject = any(
                    SA.translatable(a) and any(
                        SA.translatable(b) and SA._root_of(b)
                        == SA._root_of(a) for b in rval)
                    for a in unk)
                if unk and not (independent is not None and not same_subject
                                and all(independent(a) for a in unk)):
                    unknown.setdefault(tuple(sorted(A.fmt_atom(a)
                                                    for a in unk)), w)
                else:
                    return {"verdict": "violation", "rows": rows,
                            "witness": w, "live_paths": len(live_paths),
                            "ref_paths": len(ref_paths)}
    if unknown:
        # A reference path whose region is served only by live paths with a
        # different outcome is a definite violation: every input of that
        # region takes one of those live paths.
        for rval, ro in rvals:
            comp = [(lval, lo) for lp, lval, known, unk, lo in lvals
                    if _compatible(rval, known)]
            if comp and all(lo != ro for _, lo in comp):
                lval, lo = comp[0]
                return {"verdict": "violation", "rows": rows, "witness": {
                    "reference_valuation": {A.fmt_atom(a): v
                                            for a, v in rval.items()},
                    "reference": _show(ro),
                    "live": _show(lo),
                    "valuation": {A.fmt_atom(a): v for a, v in lval.items()},
                    "note": "every live path compatible with this reference "
                            "row has a different outcome (%d paths)"
                            % len(comp)},
                    "live_paths": len(live_paths),
                    "ref_paths": len(ref_paths)}
        # Dually: a live path that returns (or raises a configuration error)
        # under an observation the reference does not make, while every
        # reference row compatible with it behaves differently, is a
        # violation -- whatever the reference observes on those inputs, the
        # live code does something else.  (Paths ending in an internal error
        # class are left out: defensive checks that can never fire.)
        for lp, lval, known, unk, lo in lvals:
            if not unk:
                continue
            if lo[0] == "raise" and not ("ZConfig" in str(lo[1])
                                         or "caught:" in str(lo[1])):
                continue
            comp = [(rval, ro) for rval, ro in rvals
                    if _compatible(rval, known)]
            if comp and all(ro != lo for _, ro in comp):
                # show the row that differs most (another kind of outcome)
                comp.sort(key=lambda c: c[1][:2] == lo[:2])
                rval, ro = comp[0]
                return {"verdict": "violation", "rows": rows, "witness": {
                    "valuation": {A.fmt_atom(a): v for a, v in lval.items()},
                    "live": _show(lo),
                    "reference_valuation": {A.fmt_atom(a): v
                                            for a, v in rval.items()},
                    "reference": _show(ro),
                    "note": "the live path depends on %s, which the reference "
                            "does not observe, and every reference row "
                            "compatible with it has a different outcome (%d "
                            "rows)" % ([A.fmt_atom(a) for a in unk],
                                       len(comp))},
                    "live_paths": len(live_paths),
                    "ref_paths": len(ref_paths)}
        k, w = sorted(unknown.items())[0]
        return {"verdict": "unanalysable", "rows": rows, "atoms": list(k),
                "witness": w, "live_paths": len(live_paths),
                "ref_paths": len(ref_paths)}
    return {"verdict": "equivalent", "rows": rows,
            "live_paths": len(live_paths), "ref_paths": len(ref_paths),
            "language_decided_rows": lang_rows[1],
            "language_infeasible_pairs": lang_rows[0]}


def case_sensitive_atoms(program, fi, **kw):
    """Lemma L1: comparing a term T with a lower-case, cased constant c is
    case-insensitive only if T is the result of .lower(): otherwise the input
    c.upper() is classified differently from c.  Returns the offending atoms
    (as text)."""
    bad = []
    for p in A.Interp(fi, program, **kw).paths():
        for a in p.order:
            if a[0] == "eq" and A.is_const(a[2]) and isinstance(a[2][1], str):
                c = a[2][1]
                if c == c.lower() and c != c.upper():
                    t = a[1]
                    if not (t[0] == "call" and t[1][0] == "attr"
                            and t[1][2] == "lower"):
                        txt = A.fmt_atom(a)
                        if txt not in bad:
                            bad.append(txt)
    return bad


def _renumber(o):
    """Fresh containers are numbered in creation order; two independent
    creations in the other order are the same behaviour.  Renumber by first
    appearance in the (order-normalised) outcome."""
    import re as _re
    seen = {}

    def sub(mo):
        k = mo.group(0)
        if k not in seen:
            seen[k] = "%s#%d" % (mo.group(1), len(seen) + 1)
        return seen[k]

    def walk(x):
        if isinstance(x, tuple):
            return tuple(walk(y) for y in x)
        if isinstance(x, str):
            return _re.sub(r"(\[\]|\{\})#(\d+)", sub, x)
        return x
    return walk(o)


def _compatible(rval, known):
    for a, v in known.items():
        if a in rval and rval[a] != v:
            return False
    # consistency of the union (a term equals at most one constant, etc.)
    eqs = {}
    for src_ in (rval, known):
        for a, v in src_.items():
            if a[0] == "eq" and v:
                if a[1] in eqs and eqs[a[1]] != a[2]:
                    return False
                eqs[a[1]] = a[2]
    for src_ in (rval, known):
        for a, v in src_.items():
            if a[0] == "truthy" and a[1] in eqs and A.is_const(eqs[a[1]]) \
                    and bool(eqs[a[1]][1]) != v:
                return False
    # values that are None or truthy (regex match objects)
    merged = dict(rval)
    merged.update(known)
    for a, v in merged.items():
        if a[0] == "truthy" and A.none_or_truthy(a[1]):
            o = ("isnone", a[1])
            if o in merged and merged[o] == v:
                return False
    # None is falsy, not callable and an instance of no repository class
    for a, v in merged.items():
        if a[0] == "isnone" and v:
            t = a[1]
            if merged.get(("truthy", t)) is True:
                return False
            if merged.get(("truthy", ("call", ("global", "builtins.callable"),
                                      (t,), ()))) is True:
                return False
            if any(b[0] == "isinstance" and b[1] == t and w
                   for b, w in merged.items()):
                return False
    # ordering against constants
    ords = {}
    for src_ in (rval, known):
        for a, v in src_.items():
            if a[0] == "ord" and A.is_const(a[2]) and isinstance(
                    a[2][1], (int, float)):
                ords.setdefault(a[1], {})[a[2][1]] = v
    for t, d in ords.items():
        lo, hi = float("-inf"), float("inf")   # open interval bounds
        lo_incl = hi_incl = False
        for c, v in d.items():
            if v == "=":
                if not (lo < c < hi or (c == lo and lo_incl)
                        or (c == hi and hi_incl)):
                    return False
                lo = hi = c
                lo_incl = hi_incl = True
            elif v == "<":
                if c < hi or (c == hi and hi_incl):
                    hi, hi_incl = c, False
            else:
                if c > lo or (c == lo and lo_incl):
                    lo, lo_incl = c, False
        if lo > hi or (lo == hi and not (lo_incl and hi_incl)):
            return False
    return True


def _rename_atom(a, rn):
    return _rename(a, rn)


def _rename(t, rn):
    if isinstance(t, tuple):
        return tuple(_rename(x, rn) for x in t)
    if isinstance(t, str):
        return rn(t)
    return t


def _show(o):
    return [str(x) for x in o] if isinstance(o, tuple) else str(o)
