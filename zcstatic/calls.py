"""E2a -- callee resolution, light type inference, call graph.

Abstract types are frozensets of tags:
  'C:<qual>'   instance of a repository class
  'T:<qual>'   the class object
  'F:<qual>'   a repository function object (or unbound method)
  'M:<qual>'   bound method of a repository class (qual = function qualname)
  'dict' 'list' 'tuple' 'str' 'int' 'bool' 'none' 'set' 'bytes' 'float'
  'X:<dotted>' an external function/class object, 'XI:<dotted>' its instance
The empty set means "unknown" (top): resolution then falls back to a by-name
search over every repository class (sound for the closed world of the
repository), flagged `ambiguous` when a builtin container/str/file method of
the same name exists.
"""
import ast

from .model import dotted, src, walk_shallow
from .report import AnalysisError

BUILTIN_METHODS = {
    "dict": {"get", "items", "keys", "values", "update", "pop", "setdefault",
             "copy", "clear", "popitem", "__contains__"},
    "list": {"append", "extend", "insert", "remove", "pop", "sort", "reverse",
             "index", "count", "copy", "clear"},
    "str": {"lower", "upper", "strip", "rstrip", "lstrip", "split", "rsplit",
            "startswith", "endswith", "find", "rfind", "replace", "join",
            "format", "index", "count", "encode", "isdigit", "partition",
            "rpartition", "splitlines", "title", "expandtabs", "ljust",
            "rjust", "center", "zfill", "isspace", "isalpha", "isalnum"},
    "bytes": {"decode"},
    "set": {"add", "discard", "remove", "update", "pop", "clear"},
    "tuple": {"index", "count"},
    "file": {"read", "readline", "readlines", "close", "write", "flush",
             "seek", "tell", "fileno", "getvalue"},
}
ALL_BUILTIN_METHODS = set().union(*BUILTIN_METHODS.values())

STR_RETURNING = {"lower", "upper", "strip", "rstrip", "lstrip", "replace",
                 "join", "format", "title", "expandtabs", "ljust", "rjust",
                 "center", "zfill"}
LIST_RETURNING = {"split", "rsplit", "splitlines"}

BUILTIN_FUNC_TYPES = {
    "dict": "dict", "list": "list", "tuple": "tuple", "str": "str",
    "repr": "str", "int": "int", "len": "int", "sorted": "list",
    "set": "set", "frozenset": "set", "bool": "bool", "float": "float",
    "bytes": "bytes", "isinstance": "bool", "hasattr": "bool",
    "callable": "bool", "id": "int", "min": None, "max": None,
}

TOP = frozenset()


class Callee:
    """A resolved call target."""
    __slots__ = ("kind", "fn", "name", "ambiguous", "how", "recv")

    def __init__(self, kind, fn=None, name=None, ambiguous=False, how="",
                 recv=None):
        self.recv = recv      # class the receiver was typed as (or None)
        self.kind = kind      # 'repo' | 'external' | 'slot' | 'builtin-method'
        self.fn = fn          # FunctionInfo for 'repo'
        self.name = name      # dotted external name / slot attribute name
        self.ambiguous = ambiguous
        self.how = how

    def __repr__(self):
        return "<callee %s %s%s>" % (
            self.kind, self.fn.qualname if self.fn else self.name,
            " ?" if self.ambiguous else "")


class Program:
    """Whole-program facts: types, resolved call sites, call graph."""

    def __init__(self, model):
        self.model = model
        self.ftype = {}    # (class qual, field) -> set of tags
        self.vtype = {}    # (fn qual, var) -> set of tags
        self.rtype = {}    # fn qual -> set of tags
        self.gtype = {}    # (module, name) -> set of tags
        self.etype = {}    # ('f', class, field) | ('v', fn, var) -> element tags
        self._calls = {}   # fn qual -> [(call node, [Callee])]
        self._infer()

    # ------------------------------------------------------------ inference
    def _infer(self):
        m = self.model
        # module-level assignments
        for rounds in range(12):
            changed = False
            for mod in m.modules.values():
                for name, vals in mod.assigns.items():
                    for v in vals:
                        t = self.type_of(None, mod, v)
                        changed |= self._add(self.gtype, (mod.name, name), t)
            for fi in m.functions.values():
                changed |= self._infer_fn(fi)
            if not changed:
                break
        self.rounds = rounds + 1

    def _add(self, table, key, tags):
        if not tags:
            return False
        cur = table.setdefault(key, set())
        n = len(cur)
        cur |= tags
        return len(cur) != n

    def _infer_fn(self, fi):
        changed = False
        mod = fi.module
        node = fi.node
        params = fi.params
        # self
        if fi.cls is not None and params and not _is_static(node):
            changed |= self._add(self.vtype, (fi.qualname, params[0]),
                                 {"C:" + fi.cls.qualname})
        # defaults
        a = node.args
        pos = a.posonlyargs + a.args
        for p, d in zip(pos[len(pos) - len(a.defaults):], a.defaults):
            changed |= self._add(self.vtype, (fi.qualname, p.arg),
                                 self.type_of(fi, mod, d))
        for st in walk_shallow(node):
            if isinstance(st, ast.Assign):
                t = self.type_of(fi, mod, st.value)
                for tgt in st.targets:
                    changed |= self._bind(fi, tgt, t, st.value)
            elif isinstance(st, ast.AnnAssign) and st.value is not None:
                changed |= self._bind(fi, st.target,
                                      self.type_of(fi, mod, st.value), st.value)
            elif isinstance(st, (ast.With, ast.AsyncWith)):
                for it in st.items:
                    if it.optional_vars is not None:
                        t = self.type_of(fi, mod, it.context_expr)
                        # __enter__ of repo classes returns self in this repo
                        changed |= self._bind(fi, it.optional_vars, t, None)
            elif isinstance(st, ast.Return) and st.value is not None:
                changed |= self._add(self.rtype, fi.qualname,
                                     self.type_of(fi, mod, st.value))
            elif isinstance(st, ast.Call):
                changed |= self._bind_args(fi, st)
                f = st.func
                if isinstance(f, ast.Attribute) and f.attr in (
                        "append", "insert", "add") and st.args:
                    for key in self._container_keys(fi, f.value):
                        changed |= self._add(self.etype, key, self.type_of(
                            fi, mod, st.args[-1]))
            elif isinstance(st, (ast.For, ast.AsyncFor)):
                et = self.elem_type_of(fi, mod, st.iter)
                if et and isinstance(st.target, ast.Name):
                    changed |= self._add(self.vtype,
                                         (fi.qualname, st.target.id), et)
            elif isinstance(st, (ast.FunctionDef,)) and st is not node:
                pass
        return changed

    def _container_keys(self, fi, e):
        """etype keys for a container expression (self.f or a local)."""
        if isinstance(e, ast.Name):
            return [("v", fi.qualname, e.id)]
        if isinstance(e, ast.Attribute) and isinstance(e.value, ast.Name):
            rt = self.vtype.get((fi.qualname, e.value.id), ())
            return [("f", tag[2:], e.attr) for tag in rt
                    if tag.startswith("C:")]
        return []

    def elem_type_of(self, fi, mod, e):
        out = set()
        if fi is None:
            return out
        if isinstance(e, ast.Name):
            out |= self.etype.get(("v", fi.qualname, e.id), set())
        elif isinstance(e, ast.Attribute) and isinstance(e.value, ast.Name):
            for tag in self.vtype.get((fi.qualname, e.value.id), ()):
                if tag.startswith("C:"):
                    cq = tag[2:]
                    for k in self.model.mro(cq) + self.model.subclasses(cq):
                        out |= self.etype.get(("f", k, e.attr), set())
        return out

    def _bind(self, fi, tgt, t, value):
        if isinstance(value, (ast.List, ast.Tuple, ast.Set)) and isinstance(
                tgt, (ast.Name, ast.Attribute)):
            for key in self._container_keys(fi, tgt):
                for el in value.elts:
                    self._add(self.etype, key,
                              self.type_of(fi, fi.module, el))
        if isinstance(value, (ast.Name, ast.Attribute)) and isinstance(
                tgt, (ast.Name, ast.Attribute)):
            # plain alias of a container: element types travel along
            et = self.elem_type_of(fi, fi.module, value)
            if et:
                for key in self._container_keys(fi, tgt):
                    self._add(self.etype, key, et)
        if isinstance(tgt, ast.Subscript) and not isinstance(tgt.slice,
                                                              ast.Slice):
            ch = False
            for key in self._container_keys(fi, tgt.value):
                ch |= self._add(self.etype, key, t)
            return ch
        if isinstance(tgt, ast.Name):
            return self._add(self.vtype, (fi.qualname, tgt.id), t)
        if isinstance(tgt, ast.Attribute) and isinstance(tgt.value, ast.Name):
            rt = self.vtype.get((fi.qualname, tgt.value.id), ())
            ch = False
            for tag in rt:
                if tag.startswith("C:"):
                    ch |= self._add(self.ftype, (tag[2:], tgt.attr), t)
            return ch
        return False

    def _bind_args(self, fi, call):
        """Propagate argument types to parameters of definitely resolved
        repository callees."""
        ch = False
        for c in self.resolve_call(fi, call, for_inference=True):
            if c.kind != "repo" or c.ambiguous:
                continue
            callee = c.fn
            ps = list(callee.params)
            bound = c.how in ("method", "ctor", "cha", "bound", "byname",
                              "field", "super")
            if callee.cls is not None and bound and ps:
                ps = ps[1:]
            elif c.how == "basecall" and ps:
                pass  # Class.method(self, ...) -- self passed explicitly
            for p, arg in zip(ps, call.args):
                if isinstance(arg, ast.Starred):
                    break
                ch |= self._add(self.vtype, (callee.qualname, p),
                                self.type_of(fi, fi.module, arg))
            for kw in call.keywords:
                if kw.arg and kw.arg in callee.params:
                    ch |= self._add(self.vtype, (callee.qualname, kw.arg),
                                    self.type_of(fi, fi.module, kw.value))
        return ch

    def type_of(self, fi, mod, e):
        """Set of tags for expression e (empty = unknown)."""
        m = self.model
        if isinstance(e, ast.Constant):
            v = e.value
            if v is None:
                return {"none"}
            return {type(v).__name__} if type(v).__name__ in (
                "str", "int", "bool", "bytes", "float") else set()
        if isinstance(e, (ast.Dict, ast.DictComp)):
            return {"dict"}
        if isinstance(e, (ast.List, ast.ListComp)):
            return {"list"}
        if isinstance(e, ast.Tuple):
            return {"tuple"}
        if isinstance(e, (ast.Set, ast.SetComp)):
            return {"set"}
        if isinstance(e, ast.JoinedStr):
            return {"str"}
        if isinstance(e, ast.Compare):
            return {"bool"}
        if isinstance(e, ast.UnaryOp) and isinstance(e.op, ast.Not):
            return {"bool"}
        if isinstance(e, ast.BoolOp):
            out = set()
            for v in e.values:
                out |= self.type_of(fi, mod, v)
            return out
        if isinstance(e, ast.IfExp):
            return self.type_of(fi, mod, e.body) | self.type_of(fi, mod,
                                                                e.orelse)
        if isinstance(e, ast.BinOp):
            l = self.type_of(fi, mod, e.left)
            r = self.type_of(fi, mod, e.right)
            if isinstance(e.op, ast.Mod) and l == {"str"}:
                return {"str"}
            if isinstance(e.op, ast.Add) and (l == {"str"} or r == {"str"}):
                return {"str"}
            if l == {"int"} and r == {"int"}:
                return {"int"}
            return set()
        if isinstance(e, ast.Name):
            if fi is not None:
                f = fi
                while f is not None:
                    t = self.vtype.get((f.qualname, e.id))
                    if t:
                        return set(t)
                    if e.id in f.params or _assigned_in(f.node, e.id):
                        return set()
                    f = f.outer
            return self._global_type(mod, e.id)
        if isinstance(e, ast.Attribute):
            d = dotted(e)
            if d is not None:
                r = m.resolve_dotted(mod, d) if not (
                    fi is not None and self._is_local(fi, d.split(".")[0])) \
                    else None
                if r is not None:
                    t = self._qual_type(r)
                    if t:
                        return t
            bt = self.type_of(fi, mod, e.value)
            out = set()
            for tag in bt:
                if tag.startswith("C:"):
                    cq = tag[2:]
                    found = False
                    for k in m.mro(cq):
                        ft = self.ftype.get((k, e.attr))
                        if ft:
                            out |= ft
                            found = True
                    meth = m.lookup_method(cq, e.attr)
                    if meth is not None:
                        out.add("M:" + meth.qualname)
                        found = True
                    if not found:
                        c, vals = m.lookup_class_attr(cq, e.attr)
                        if vals:
                            for v in vals:
                                out |= self.type_of(None, c.module, v)
                elif tag.startswith("T:"):
                    meth = m.lookup_method(tag[2:], e.attr)
                    if meth is not None:
                        out.add("F:" + meth.qualname)
            return out
        if isinstance(e, ast.Call):
            return self._call_type(fi, mod, e)
        if isinstance(e, ast.Subscript):
            if not isinstance(e.slice, ast.Slice):
                et = self.elem_type_of(fi, mod, e.value)
                if et:
                    return set(et)
            bt = self.type_of(fi, mod, e.value)
            if bt == {"str"}:
                return {"str"}
            if isinstance(e.slice, ast.Slice) and bt and bt <= {"list", "str",
                                                                "tuple"}:
                return set(bt)
            return set()
        return set()

    def _is_local(self, fi, name):
        f = fi
        while f is not None:
            if name in f.params or _assigned_in(f.node, name):
                return True
            f = f.outer
        return False

    def _global_type(self, mod, name):
        m = self.model
        if name in mod.classes:
            return {"T:" + mod.classes[name].qualname}
        if name in mod.functions:
            return {"F:" + mod.functions[name].qualname}
        t = self.gtype.get((mod.name, name))
        if t:
            return set(t)
        r = m.resolve_dotted(mod, name)
        if r:
            return self._qual_type(r)
        return set()

    def _qual_type(self, r):
        m = self.model
        if r in m.classes:
            return {"T:" + r}
        if r in m.functions:
            return {"F:" + r}
        if r in m.modules:
            return set()
        modname, _, attr = r.rpartition(".")
        if modname in m.modules:
            t = self.gtype.get((modname, attr))
            return set(t) if t else set()
        return {"X:" + r}

    def _call_type(self, fi, mod, call):
        m = self.model
        f = call.func
        # builtin / external constructors
        d = dotted(f)
        if d is not None and not (fi is not None
                                  and self._is_local(fi, d.split(".")[0])):
            r = m.resolve_dotted(mod, d)
            if r is not None:
                if r.startswith("builtins."):
                    t = BUILTIN_FUNC_TYPES.get(r[9:])
                    if r[9:] == "getattr":
                        return set()
                    return {t} if t else set()
                if r in m.classes:
                    return {"C:" + r}
                if r in m.functions:
                    return set(self.rtype.get(r, ()))
                if r in ("copy.copy", "copy.deepcopy") and call.args:
                    return self.type_of(fi, mod, call.args[0])
                if r == "collections.OrderedDict":
                    return {"dict"}
                if r in ("io.StringIO", "urllib.request.urlopen",
                         "builtins.open"):
                    return {"file"}
                if r.startswith("os.path.") or r in (
                        "urllib.request.pathname2url",
                        "urllib.request.url2pathname",
                        "urllib.request.urljoin", "urllib.parse.urljoin",
                        "urllib.request.urlunparse"):
                    return {"str"}
                modname = r.rpartition(".")[0]
                if modname not in m.modules:
                    return {"XI:" + r}
        ft = self.type_of(fi, mod, f) if not isinstance(f, ast.Attribute) \
            else None
        if isinstance(f, ast.Attribute):
            if f.attr in ("pop", "get", "setdefault"):
                et = self.elem_type_of(fi, mod, f.value)
                if et:
                    return set(et)
            bt = self.type_of(fi, mod, f.value)
            out = set()
            if bt and bt <= {"str"}:
                if f.attr in STR_RETURNING:
                    return {"str"}
                if f.attr in LIST_RETURNING:
                    return {"list"}
                if f.attr in ("startswith", "endswith", "isdigit"):
                    return {"bool"}
                if f.attr in ("find", "rfind", "index", "count"):
                    return {"int"}
            if bt and bt <= {"dict"} and f.attr == "copy":
                return {"dict"}
            if bt and bt <= {"dict"} and f.attr in ("keys", "items", "values"):
                return {"list"}
            for tag in bt:
                if tag.startswith("C:"):
                    meth = m.lookup_method(tag[2:], f.attr)
                    if meth is not None:
                        out |= self.rtype.get(meth.qualname, set())
                        for sub in m.subclasses(tag[2:]):
                            sm = m.classes[sub].methods.get(f.attr)
                            if sm is not None:
                                out |= self.rtype.get(sm.qualname, set())
                    else:
                        for k in m.mro(tag[2:]):
                            for ftag in self.ftype.get((k, f.attr), ()):
                                out |= self._apply(ftag)
                elif tag.startswith("T:"):
                    meth = m.lookup_method(tag[2:], f.attr)
                    if meth is not None:
                        out |= self.rtype.get(meth.qualname, set())
            return out
        out = set()
        for tag in ft or ():
            out |= self._apply(tag)
        return out

    def _apply(self, tag):
        if tag.startswith("T:"):
            return {"C:" + tag[2:]}
        if tag.startswith("F:") or tag.startswith("M:"):
            return set(self.rtype.get(tag[2:], ()))
        if tag.startswith("C:"):
            meth = self.model.lookup_method(tag[2:], "__call__")
            if meth is not None:
                return set(self.rtype.get(meth.qualname, ()))
        return set()

    # ------------------------------------------------------------ resolution
    def resolve_call(self, fi, call, for_inference=False):
        """List of Callee for an ast.Call inside function fi."""
        m = self.model
        mod = fi.module
        f = call.func
        nargs = len(call.args)
        has_star = any(isinstance(a, ast.Starred) for a in call.args) or any(
            k.arg is None for k in call.keywords)

        # getattr(self, "prefix" + x)(...)  -- reflective dispatch
        if isinstance(f, ast.Call) and isinstance(f.func, ast.Name) \
                and f.func.id == "getattr" and len(f.args) >= 2:
            return self._reflective(fi, f, call)

        # self._lookup("prefix", x)(...) where the private helper is nothing
        # but `return getattr(self, p + n)`: the same dispatch, one call away
        if isinstance(f, ast.Call) and isinstance(f.func, ast.Attribute) \
                and isinstance(f.func.value, ast.Name) and fi.cls is not None \
                and fi.params and f.func.value.id == fi.params[0] \
                and not f.keywords:
            helper = m.lookup_method(fi.cls.qualname, f.func.attr)
            g = _getattr_returner(helper) if helper is not None else None
            if g is not None and len(helper.params) - 1 == len(f.args):
                import copy
                sub = dict(zip(helper.params[1:], f.args))
                sub[helper.params[0]] = f.func.value

                class _S(ast.NodeTransformer):
                    def visit_Name(self, n):
                        return copy.deepcopy(sub[n.id]) if n.id in sub else n
                synth = _S().visit(copy.deepcopy(g))
                ast.copy_location(synth, f)
                ast.fix_missing_locations(synth)
                return self._reflective(fi, synth, call)

        if isinstance(f, ast.Name) and not (
                m.resolve_dotted(mod, f.id) or "").startswith("builtins."):
            # a local bound (once) to getattr(obj, "prefix" + x): the same
            # reflective dispatch, spelled in two statements
            binds = [n for n in walk_shallow(fi.node)
                     if isinstance(n, ast.Assign) and len(n.targets) == 1
                     and isinstance(n.targets[0], ast.Name)
                     and n.targets[0].id == f.id]
            if len(binds) == 1 and isinstance(binds[0].value, ast.Call) \
                    and isinstance(binds[0].value.func, ast.Name) \
                    and binds[0].value.func.id == "getattr" \
                    and len(binds[0].value.args) >= 2:
                return self._reflective(fi, binds[0].value, call)

        if isinstance(f, ast.Name):
            # nested function?
            g = fi
            while g is not None:
                q = g.qualname + ".<locals>." + f.id
                if q in m.functions:
                    return [Callee("repo", m.functions[q], how="func")]
                if f.id in g.params or _assigned_in(g.node, f.id):
                    # a local variable holding a callable
                    return self._from_types(
                        fi, self.type_of(fi, mod, f), call, f.id)
                g = g.outer
            r = m.resolve_dotted(mod, f.id)
            return self._from_qual(fi, r, call, f.id)

        if isinstance(f, ast.Attribute) and isinstance(f.value, ast.Call) \
                and isinstance(f.value.func, ast.Name) \
                and f.value.func.id == "super" and not f.value.args \
                and fi.cls is not None and not self._is_local(fi, "super"):
            # super().method(...): the next definition along the MRO of the
            # defining class (single inheritance chains in this code base;
            # for a subclass instance the MRO may interleave other classes,
            # which zero-argument super() in a linear hierarchy does not)
            mro = m.mro(fi.cls.qualname)
            for k in mro[1:]:
                c = m.classes.get(k)
                if c is not None and f.attr in c.methods:
                    return [Callee("repo", c.methods[f.attr], how="super")]
                if c is None:
                    return [Callee("external", name=k + "." + f.attr,
                                   how="dotted")]
            # a mixin: what follows it depends on the concrete class -- every
            # next definition along the MRO of any subclass
            out, own = [], fi.cls.qualname
            for sq in m.subclasses(own):
                smro = m.mro(sq)
                if sq == own or own not in smro:
                    continue
                for k in smro[smro.index(own) + 1:]:
                    c = m.classes.get(k)
                    if c is None:
                        break
                    if f.attr in c.methods:
                        if all(o.fn is not c.methods[f.attr] for o in out):
                            out.append(Callee("repo", c.methods[f.attr],
                                              how="super"))
                        break
            return out
        if isinstance(f, ast.Attribute):
            d = dotted(f)
            if d is not None and not self._is_local(fi, d.split(".")[0]):
                r = m.resolve_dotted(mod, d)
                if r is not None:
                    if r in m.functions and m.functions[r].cls is not None:
                        # Class.method(self, ...) explicit base call
                        return [Callee("repo", m.functions[r], how="basecall")]
                    if r in m.functions or r in m.classes:
                        return self._from_qual(fi, r, call, d)
                    # module-level object attribute? e.g. ZConfig.url.urljoin
                    head = r.rpartition(".")[0]
                    if head in m.classes:
                        meth = m.lookup_method(head, f.attr)
                        if meth is not None:
                            return [Callee("repo", meth, how="basecall")]
                    if not self._module_object(r):
                        return [Callee("external", name=r, how="dotted")]
            bt = self.type_of(fi, mod, f.value)
            return self._method(fi, bt, f.attr, call, nargs, has_star)
        # call of a call result / subscript etc.
        return self._from_types(fi, self.type_of(fi, mod, f), call, src(f))

    def _module_object(self, r):
        """r names a module-level *object* of the repo (not a function)."""
        modname, _, attr = r.rpartition(".")
        return modname in self.model.modules

    def _from_qual(self, fi, r, call, text):
        m = self.model
        if r is None:
            return [Callee("external", name="?" + text, ambiguous=True,
                           how="unresolved")]
        if r in m.functions:
            return [Callee("repo", m.functions[r], how="func")]
        if r in m.classes:
            init = m.lookup_method(r, "__init__")
            if init is not None:
                return [Callee("repo", init, how="ctor", recv=r)]
            return [Callee("external", name="builtins.object", how="ctor")]
        modname, _, attr = r.rpartition(".")
        if modname in m.modules:
            t = self.gtype.get((modname, attr), set())
            return self._from_types(fi, t, call, text)
        return [Callee("external", name=r, how="dotted")]

    def _from_types(self, fi, tags, call, text):
        m = self.model
        out = []
        for tag in tags:
            if tag.startswith("T:"):
                init = m.lookup_method(tag[2:], "__init__")
                out.append(Callee("repo", init, how="ctor", recv=tag[2:])
                           if init else
                           Callee("external", name="builtins.object",
                                  how="ctor"))
            elif tag.startswith("F:"):
                out.append(Callee("repo", m.functions[tag[2:]], how="func"))
            elif tag.startswith("M:"):
                out.append(Callee("repo", m.functions[tag[2:]], how="bound"))
            elif tag.startswith("C:"):
                meth = m.lookup_method(tag[2:], "__call__")
                if meth is not None:
                    out.append(Callee("repo", meth, how="method",
                                      recv=tag[2:]))
            elif tag.startswith("X:"):
                out.append(Callee("external", name=tag[2:], how="dotted"))
        if not out:
            out.append(Callee("slot", name=text, how="callable-value"))
        return out

    def _method(self, fi, bt, name, call, nargs, has_star):
        m = self.model
        out = []
        known = False
        for tag in bt:
            if tag.startswith("C:"):
                known = True
                cq = tag[2:]
                meth = m.lookup_method(cq, name)
                cands = []
                if meth is not None:
                    cands.append((meth, cq))
                for sub in m.subclasses(cq):
                    sm = m.classes[sub].methods.get(name)
                    if sm is not None and sm not in [c[0] for c in cands]:
                        cands.append((sm, sub))
                if cands:
                    out += [Callee("repo", c, how="cha", recv=rc)
                            for c, rc in cands]
                else:
                    # instance attribute holding a callable; a class that has
                    # neither method nor field of that name cannot be the
                    # receiver's class at run time
                    ftags = set()
                    has_field = False
                    for k in m.mro(cq):
                        ftags |= self.ftype.get((k, name), set())
                        c = m.classes.get(k)
                        if c is not None and (name in c.fields
                                              or name in c.attrs):
                            has_field = True
                    if not has_field:
                        continue
                    sub = self._from_types(fi, ftags, call, name)
                    for c in sub:
                        if c.kind == "slot":
                            c.name = name
                        elif c.kind == "repo":
                            c.how = "field"
                    out += sub
            elif tag.startswith("T:"):
                known = True
                meth = m.lookup_method(tag[2:], name)
                if meth is not None:
                    out.append(Callee("repo", meth, how="basecall"))
            elif tag in BUILTIN_METHODS and name in BUILTIN_METHODS[tag]:
                known = True
                out.append(Callee("builtin-method", name=tag + "." + name,
                                  how="typed"))
            elif tag in BUILTIN_METHODS or tag in ("int", "bool", "none",
                                                   "float"):
                # this builtin type has no such method: the receiver must be
                # of another type on the paths where the call happens
                pass
            elif tag.startswith("XI:") or tag.startswith("X:"):
                known = True
                out.append(Callee("external", name=tag.split(":", 1)[1] + "."
                                  + name, how="typed"))
        if known and out:
            return out
        # unknown receiver: by name over all repository classes
        cands = []
        for c in m.classes.values():
            meth = c.methods.get(name)
            if meth is None:
                continue
            if not has_star and not _arity_ok(meth, nargs, call.keywords):
                continue
            cands.append(meth)
        amb = name in ALL_BUILTIN_METHODS
        if cands:
            out = [Callee("repo", c, ambiguous=amb, how="byname")
                   for c in cands]
            if amb:
                out.append(Callee("builtin-method", name="?." + name,
                                  ambiguous=True, how="byname"))
            return out
        if amb:
            return [Callee("builtin-method", name="?." + name, how="byname")]
        # no class defines it: a callable stored in an attribute (slot) or an
        # external object's method
        return [Callee("slot", name=name, how="attr-call")]

    def _reflective(self, fi, getattr_call, call):
        """getattr(self, 'prefix' + v)(...)."""
        m = self.model
        recv, namearg = getattr_call.args[0], getattr_call.args[1]
        prefix = None
        if isinstance(namearg, ast.BinOp) and isinstance(namearg.op, ast.Add) \
                and isinstance(namearg.left, ast.Constant) \
                and isinstance(namearg.left.value, str):
            prefix = namearg.left.value
        elif isinstance(namearg, ast.JoinedStr) and namearg.values \
                and isinstance(namearg.values[0], ast.Constant) \
                and isinstance(namearg.values[0].value, str):
            prefix = namearg.values[0].value          # f"prefix{x}"
        elif isinstance(namearg, ast.BinOp) and isinstance(
                namearg.op, ast.Mod) and isinstance(
                namearg.left, ast.Constant) and isinstance(
                namearg.left.value, str) and "%" in namearg.left.value \
                and namearg.left.value.index("%") > 0:
            prefix = namearg.left.value.split("%")[0]  # "prefix%s" % x
        elif isinstance(namearg, ast.Constant) and isinstance(namearg.value,
                                                              str):
            # getattr(x, "name", default)(...)
            bt = self.type_of(fi, fi.module, recv)
            return self._method(fi, bt, namearg.value, call, len(call.args),
                                False)
        if prefix is None:
            names = self._table_values(fi, namearg)
            if names:
                # getattr(self, TABLE[x]) / TABLE.get(x) for a module-level
                # literal table of method names: exactly those methods
                bt = self.type_of(fi, fi.module, recv)
                classes = [t[2:] for t in bt if t.startswith("C:")] \
                    or list(m.classes)
                out, seen = [], set()
                for cq in classes:
                    for k in [cq] + m.subclasses(cq):
                        for nm in names:
                            meth = m.lookup_method(k, nm)
                            if meth is not None and \
                                    meth.qualname not in seen:
                                seen.add(meth.qualname)
                                out.append(Callee("repo", meth, how="cha",
                                                  recv=k))
                if out:
                    return out
            return [Callee("slot", name=src(getattr_call), ambiguous=True,
                           how="reflective-unknown")]
        bt = self.type_of(fi, fi.module, recv)
        out = []
        classes = [t[2:] for t in bt if t.startswith("C:")]
        if not classes:
            classes = list(m.classes)
        seen = set()
        for cq in classes:
            for k in [cq] + m.subclasses(cq):
                for kk in m.mro(k):
                    c = m.classes.get(kk)
                    if c is None:
                        continue
                    for name, meth in c.methods.items():
                        if name.startswith(prefix) and meth.qualname not in seen:
                            seen.add(meth.qualname)
                            out.append(Callee("repo", meth, how="cha",
                                              recv=k))
        return out

    def _table_values(self, fi, e, _depth=0):
        """String values of a module-level literal dict when `e` is a lookup
        in it (T[x], T.get(x)), directly or through a local bound once."""
        m = self.model
        if isinstance(e, ast.Name) and _depth < 2:
            binds = [n.value for n in walk_shallow(fi.node)
                     if isinstance(n, ast.Assign) and len(n.targets) == 1
                     and isinstance(n.targets[0], ast.Name)
                     and n.targets[0].id == e.id]
            if len(binds) == 1:
                return self._table_values(fi, binds[0], _depth + 1)
            return None
        tbl = None
        if isinstance(e, ast.Subscript):
            tbl = e.value
        elif isinstance(e, ast.Call) and isinstance(e.func, ast.Attribute) \
                and e.func.attr == "get" and e.args:
            tbl = e.func.value
        if not isinstance(tbl, ast.Name) or self._is_local(fi, tbl.id):
            return None
        vals = fi.module.assigns.get(tbl.id)
        if not vals or len(vals) != 1 or not isinstance(vals[0], ast.Dict):
            return None
        out = []
        for v in vals[0].values:
            if not (isinstance(v, ast.Constant) and isinstance(v.value, str)):
                return None
            out.append(v.value)
        return out

    # ------------------------------------------------------------ call graph
    def calls_in(self, fi):
        """[(call node, [Callee])] for every call in fi (not nested defs)."""
        if fi.qualname not in self._calls:
            res = []
            for n in walk_shallow(fi.node):
                if isinstance(n, ast.Call):
                    res.append((n, self.resolve_call(fi, n)))
            self._calls[fi.qualname] = res
        return self._calls[fi.qualname]

    SAX_CALLBACKS = ("setDocumentLocator", "startElement", "endElement",
                     "characters", "endDocument", "startDocument")

    def callback_targets(self, fi, call, callees):
        """Extra repo functions invoked by an external driver: xml.sax.parse(
        stream, handler) calls the ContentHandler methods of handler's class."""
        out = []
        for c in callees:
            if c.kind == "external" and c.name == "xml.sax.parse" \
                    and len(call.args) >= 2:
                ht = self.type_of(fi, fi.module, call.args[1])
                classes = [t[2:] for t in ht if t.startswith("C:")]
                if not classes:
                    classes = [q for q in self.model.classes
                               if any(b == "xml.sax.ContentHandler"
                                      for b in self.model.all_bases(q))]
                for cq in classes:
                    for sub in [cq] + self.model.subclasses(cq):
                        for cb in self.SAX_CALLBACKS:
                            meth = self.model.lookup_method(sub, cb)
                            if meth is not None and meth not in out:
                                out.append(meth)
        return out

    def successors(self, fi):
        out = []
        for call, callees in self.calls_in(fi):
            for c in callees:
                if c.kind == "repo" and c.fn not in out:
                    out.append(c.fn)
            for cb in self.callback_targets(fi, call, callees):
                if cb not in out:
                    out.append(cb)
        # nested functions defined here are considered reachable when called
        return out

    def reachable(self, roots):
        seen, todo = {}, list(roots)
        parent = {}
        while todo:
            f = todo.pop()
            if f.qualname in seen:
                continue
            seen[f.qualname] = f
            for g in self.successors(f):
                if g.qualname not in seen:
                    parent.setdefault(g.qualname, f.qualname)
                    todo.append(g)
        self._parent = parent
        return seen

    def chain(self, target_qual, parent=None):
        parent = parent if parent is not None else getattr(self, "_parent", {})
        out = [target_qual]
        while out[-1] in parent:
            out.append(parent[out[-1]])
        return list(reversed(out))

    # -------------------------------------------------------------- totality
    def is_total(self, fi, _stack=None):
        """Function cannot raise: only plain stores of parameters/constants,
        returns, and calls to total repository functions / plain constructors."""
        _stack = _stack or set()
        if fi.qualname in _stack:
            return True
        _stack = _stack | {fi.qualname}
        for st in fi.node.body:
            if isinstance(st, ast.Expr) and isinstance(st.value, ast.Constant):
                continue
            if isinstance(st, ast.Pass):
                continue
            if isinstance(st, (ast.Assign, ast.Return)):
                v = st.value
                if v is None:
                    continue
                if not self._total_expr(fi, v, _stack):
                    return False
                if isinstance(st, ast.Assign):
                    for t in st.targets:
                        if isinstance(t, ast.Tuple):
                            if not (isinstance(v, ast.Tuple)
                                    and len(v.elts) == len(t.elts)):
                                return False
                            if not all(isinstance(x, (ast.Name, ast.Attribute))
                                       for x in t.elts):
                                return False
                        elif not isinstance(t, (ast.Name, ast.Attribute)):
                            return False
                continue
            return False
        return True

    def _total_expr(self, fi, e, _stack):
        if isinstance(e, (ast.Constant, ast.Name)):
            return True
        if isinstance(e, ast.Attribute):
            return self._total_expr(fi, e.value, _stack)
        if isinstance(e, ast.Tuple):
            return all(self._total_expr(fi, x, _stack) for x in e.elts)
        if isinstance(e, (ast.Dict, ast.List)) and not ast.dump(e).count(
                "Call"):
            return all(self._total_expr(fi, x, _stack)
                       for x in ast.iter_child_nodes(e)
                       if isinstance(x, ast.expr))
        if isinstance(e, ast.Call):
            if not all(self._total_expr(fi, a, _stack) for a in e.args):
                return False
            if any(not self._total_expr(fi, k.value, _stack)
                   for k in e.keywords):
                return False
            cs = self.resolve_call(fi, e)
            if not cs:
                return False
            for c in cs:
                if c.kind == "repo" and not c.ambiguous:
                    if not self.is_total(c.fn, _stack):
                        return False
                elif c.kind == "external" and c.name in (
                        "builtins.object", "collections.OrderedDict"):
                    continue
                else:
                    return False
            return True
        return False


def _getattr_returner(fn):
    """The `getattr(obj, name_expr)` a helper returns when that is all it
    does (a docstring aside), else None."""
    body = [st for st in fn.node.body
            if not (isinstance(st, ast.Expr) and isinstance(
                st.value, ast.Constant) and isinstance(st.value.value, str))]
    if len(body) == 1 and isinstance(body[0], ast.Return) \
            and isinstance(body[0].value, ast.Call) \
            and isinstance(body[0].value.func, ast.Name) \
            and body[0].value.func.id == "getattr" \
            and len(body[0].value.args) >= 2 and not fn.node.decorator_list:
        return body[0].value
    return None


def _is_static(node):
    for d in node.decorator_list:
        if isinstance(d, ast.Name) and d.id in ("staticmethod",):
            return True
    return False


def _assigned_in(fnode, name):
    cache = getattr(fnode, "_assigned_cache", None)
    if cache is None:
        cache = set()
        for n in walk_shallow(fnode):
            if isinstance(n, ast.Name) and isinstance(n.ctx, (ast.Store,
                                                              ast.Del)):
                cache.add(n.id)
            elif isinstance(n, ast.ExceptHandler) and n.name:
                cache.add(n.name)
            elif isinstance(n, (ast.FunctionDef, ast.ClassDef)) \
                    and n is not fnode:
                cache.add(n.name)
        fnode._assigned_cache = cache
    return name in cache


def _arity_ok(meth, nargs, keywords):
    a = meth.node.args
    pos = a.posonlyargs + a.args
    npos = len(pos) - 1  # minus self
    if a.vararg is None and nargs > npos:
        return False
    required = npos - len(a.defaults)
    given_kw = {k.arg for k in keywords if k.arg}
    names = [p.arg for p in pos[1:]]
    for k in given_kw:
        if k not in names and a.kwarg is None \
                and k not in [x.arg for x in a.kwonlyargs]:
            return False
    supplied = nargs + len([k for k in given_kw if k in names[nargs:]])
    if supplied < required:
        return False
    return True
