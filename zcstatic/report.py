"""Obligations, findings, evidence files and the exit protocol.

exit 0  every obligation of the claimed clauses discharged (known findings are
        printed as KNOWN-FINDING lines)
exit 1  a VIOLATION line was printed (a finding not listed in known_findings.json)
exit 2  ANALYSIS-ERROR: an anchor vanished, a construct is outside the
        analysable vocabulary, a rule matched fewer instances than its floor,
        or the analyser crashed.  Never a pass, never a violation.
"""
import json
import os
import time

VERIF = os.path.dirname(os.path.dirname(os.path.abspath(__file__)))


class AnalysisError(Exception):
    """The analysis cannot give a verdict (exit 2)."""


class Finding:
    def __init__(self, prop, rule, where, construct, loc, message, witness):
        self.prop = prop
        self.rule = rule
        self.where = where
        self.construct = construct
        self.loc = loc
        self.message = message
        self.witness = witness

    def key(self):
        return (self.rule, self.where, self.construct)

    def as_dict(self):
        return {"property": self.prop, "rule": self.rule, "where": self.where,
                "construct": self.construct, "loc": self.loc,
                "message": self.message, "witness": self.witness}


class Run:
    def __init__(self, prop, tier="quick", root="/repo", seed=0,
                 evidence_dir=None, quiet=False):
        self.prop = prop
        self.tier = tier
        self.root = root
        self.seed = seed
        self.t0 = time.time()
        self.evidence_dir = evidence_dir or os.path.join(VERIF, "evidence")
        self.quiet = quiet
        self.obligations = []     # dicts
        self.findings = []
        self.floors = {}          # rule -> (min, why)
        self.rules = {}           # rule id -> text
        self.notes = []
        self.analysed = {}        # free-form: modules, functions, call sites...
        self.level = "other"
        self.explanation = ""
        self.assumptions = []
        self.trusted_base = []
        self.errors = []          # soft analysis errors (collected, exit 2)
        self.extra = {}

    # --------------------------------------------------------------- record
    def rule(self, rid, text, floor=None):
        self.rules[rid] = text
        if floor is not None:
            self.floors[rid] = floor

    def ok(self, rule, where, construct, how, loc=None, nontrivial=True):
        self.obligations.append({
            "rule": rule, "where": where, "construct": construct,
            "loc": loc, "discharged": True, "how": how,
            "nontrivial": bool(nontrivial)})

    def fail(self, rule, where, construct, message, loc=None, witness=None):
        self.obligations.append({
            "rule": rule, "where": where, "construct": construct,
            "loc": loc, "discharged": False, "how": message,
            "nontrivial": True})
        self.findings.append(Finding(self.prop, rule, where, construct, loc,
                                     message, witness))

    def check(self, cond, rule, where, construct, how, message=None, loc=None,
              witness=None, nontrivial=True):
        if cond:
            self.ok(rule, where, construct, how, loc, nontrivial)
        else:
            self.fail(rule, where, construct, message or ("NOT: " + how), loc,
                      witness)
        return bool(cond)

    def soft_error(self, msg):
        self.errors.append(msg)

    def note(self, msg):
        self.notes.append(msg)

    # ---------------------------------------------------------------- finish
    def _known(self):
        path = os.path.join(VERIF, "known_findings.json")
        if not os.path.exists(path):
            return []
        with open(path) as f:
            data = json.load(f)
        return [k for k in data.get("known", [])
                if k.get("property") == self.prop]

    def finish(self):
        known = self._known()
        known_keys = {(k["rule"], k["where"], k["construct"]): k for k in known}
        new, matched = [], []
        seen = set()
        for f in self.findings:
            if f.key() in seen:
                continue
            seen.add(f.key())
            if f.key() in known_keys:
                matched.append((f, known_keys[f.key()]))
            else:
                new.append(f)
        # floors
        counts = {}
        for o in self.obligations:
            counts[o["rule"]] = counts.get(o["rule"], 0) + 1
        for rid, floor in self.floors.items():
            if counts.get(rid, 0) < floor:
                self.errors.append(
                    "rule %s matched %d instance(s), floor is %d (vacuity guard)"
                    % (rid, counts.get(rid, 0), floor))
        for rid in self.rules:
            if rid not in counts:
                self.errors.append("rule %s registered but produced no "
                                   "obligation" % rid)

        out = []
        for f, k in matched:
            out.append("KNOWN-FINDING: property=%s %s [%s @ %s: %s]"
                       % (self.prop, k.get("what", f.message), f.rule,
                          f.where, f.construct))
        replay_dir = os.path.join(self.evidence_dir, "replay")
        for i, f in enumerate(new):
            os.makedirs(replay_dir, exist_ok=True)
            rp = os.path.join(replay_dir, "%s-%d.json" % (self.prop, i))
            with open(rp, "w") as fh:
                json.dump(f.as_dict(), fh, indent=1, default=str)
            out.append("  %s %s in %s: %s\n    construct: %s%s"
                       % (f.rule, f.loc or "", f.where, f.message, f.construct,
                          ("\n    witness: %s" % json.dumps(f.witness,
                                                            default=str))
                          if f.witness is not None else ""))
            out.append("VIOLATION property=%s replay=%s" % (self.prop, rp))
        for e in self.errors:
            out.append("ANALYSIS-ERROR property=%s %s" % (self.prop, e))

        if new:
            code = 1
        elif self.errors:
            code = 2
        else:
            code = 0
        self._write_evidence(counts, matched, new)
        n_ok = sum(1 for o in self.obligations if o["discharged"])
        out.append("%s %s: %d obligations, %d discharged, %d known finding(s), "
                   "%d new violation(s), %d analysis error(s), %.2fs -> exit %d"
                   % (self.prop, self.tier, len(self.obligations), n_ok,
                      len(matched), len(new), len(self.errors),
                      time.time() - self.t0, code))
        if not self.quiet:
            print("\n".join(out))
        self.output = out
        return code

    def _write_evidence(self, counts, matched, new):
        obl = self.obligations
        n_ok = sum(1 for o in obl if o["discharged"])
        distinct = {(o["rule"], o["where"], o["construct"]) for o in obl
                    if o["nontrivial"]}
        samples = []
        per_rule = {}
        for o in obl:
            if per_rule.get(o["rule"], 0) < 3:
                per_rule[o["rule"]] = per_rule.get(o["rule"], 0) + 1
                samples.append({k: o[k] for k in
                                ("rule", "where", "construct", "loc", "how",
                                 "discharged")})
        coverage = {
            "explanation": self.explanation,
            "obligations": len(obl),
            "discharged": n_ok,
            "evaluations": len(obl),
            "distinct_nontrivial": len(distinct),
            "rule": ("one obligation per rule instance (call site, raise site, "
                     "field, pattern, table row, path); an obligation is "
                     "non-trivial when discharging it needed a path, flow, "
                     "language or table argument rather than mere presence; "
                     "distinct = distinct (rule, function, construct) keys"),
            "samples": samples,
            "rules": self.rules,
            "per_rule_counts": counts,
            "floors": self.floors,
            "analysed": self.analysed,
            "known_findings_matched": [
                {"rule": f.rule, "where": f.where, "construct": f.construct,
                 "what": k.get("what")} for f, k in matched],
            "new_violations": [f.as_dict() for f in new],
            "analysis_errors": self.errors,
            "notes": self.notes,
            "root": self.root,
        }
        coverage.update(self.extra)
        if self.level == "proof":
            coverage["checker_cmd"] = "./check %s --tier %s" % (self.prop,
                                                                self.tier)
            coverage["trusted_base"] = self.trusted_base
        ev = {
            "property_id": self.prop,
            "tier": self.tier,
            "seed": self.seed,
            "level": self.level,
            "coverage": coverage,
            "assumptions": self.assumptions,
            "wall_s": round(time.time() - self.t0, 3),
            "violations": len(new),
        }
        os.makedirs(self.evidence_dir, exist_ok=True)
        path = os.path.join(self.evidence_dir, "%s.json" % self.prop)
        tmp = path + ".tmp%d" % os.getpid()
        with open(tmp, "w") as f:
            json.dump(ev, f, indent=1, default=str, sort_keys=False)
        os.replace(tmp, path)
