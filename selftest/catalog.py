"""Self-test variants: textual edits applied to scratch copies of the tree.

Each entry: id, prop, expect ('fire' | 'silent'), rule (prefix expected among
the reported rules for 'fire'), edits = [(file, old, new)] where `old` must
occur exactly once (otherwise the variant is skipped as not applicable).
"""

VARIANTS = []


def V(id, prop, expect, rule, *edits):
    VARIANTS.append({"id": id, "prop": prop, "expect": expect, "rule": rule,
                     "edits": list(edits)})


DT = "src/ZConfig/datatypes.py"
LD = "src/ZConfig/loader.py"

# ---------------------------------------------------------------- C19
V("c19-include-no-with", "C19", "fire", "C19.R1",
  (LD, "            with self.openResource(url) as r:\n"
       "                self._parse_resource(section, r, defines)",
       "            r = self.openResource(url)\n"
       "            self._parse_resource(section, r, defines)\n"
       "            r.close()"))
V("c19-read-no-finally", "C19", "fire", "C19.R",
  (LD, "            try:\n                data = file.read()\n"
       "            finally:\n                file.close()",
       "            data = file.read()\n            file.close()"))
V("c19-exit-conditional", "C19", "fire", "C19.R2",
  (LD, "    def __exit__(self, t, v, tb):\n        self.close()",
       "    def __exit__(self, t, v, tb):\n        if t is None:\n"
       "            self.close()"))
V("c19-loadurl-early-return", "C19", "fire", "C19.R1",
  (LD, "        with self.openResource(url) as r:\n"
       "            return self.loadResource(r)",
       "        r = self.openResource(url)\n"
       "        result = self.loadResource(r)\n"
       "        r.close()\n        return result"))
V("c19-try-finally-equiv", "C19", "silent", None,
  (LD, "        with self.openResource(url) as r:\n"
       "            return self.loadResource(r)",
       "        r = self.openResource(url)\n        try:\n"
       "            return self.loadResource(r)\n        finally:\n"
       "            r.close()"))
V("c19-component-no-with", "C19", "fire", "C19.R1",
  ("src/ZConfig/schema.py",
   "        with self._loader.openResource(src) as r:\n"
   "            xml.sax.parse(r.file, parser)\n\n    def end_import",
   "        r = self._loader.openResource(src)\n"
   "        xml.sax.parse(r.file, parser)\n\n    def end_import"))

# ---------------------------------------------------------------- C09
V("c09-range-ge", "C09", "fire", "C09.R4",
  (DT, "v > self._max:", "v >= self._max:"))
V("c09-port-fff", "C09", "fire", "C09.R4", (DT, "max=0xffff", "max=0xfff"))
V("c09-host-slice", "C09", "fire", "C09.R6",
  (DT, "host = host[1:-1]", "host = host[1:]"))
V("c09-bool-nolower", "C09", "fire", "C09.R3",
  (DT, "ss = str(s).lower()", "ss = str(s)"))
V("c09-mb-decimal", "C09", "fire", "C09.R5",
  (DT, "'mb': 1024 * 1024,", "'mb': 1000 * 1000,"))
V("c09-basickey-underscore", "C09", "fire", "C09.R1",
  (DT, '"[a-zA-Z][-._a-zA-Z0-9]*"', '"[a-zA-Z][-.a-zA-Z0-9]*"'))
V("c09-basickey-equiv", "C09", "silent", None,
  (DT, '"[a-zA-Z][-._a-zA-Z0-9]*"', '"[A-Za-z][a-zA-Z0-9_.-]*"'))
V("c09-ident-digit-first", "C09", "fire", "C09.R1",
  (DT, '_ident_re = "[_a-zA-Z][_a-zA-Z0-9]*"',
       '_ident_re = "[_a-zA-Z0-9][_a-zA-Z0-9]*"'))
V("c09-ipv6-after-hostname", "C09", "fire", "C09.R1",
  (DT, '                r"|([0-9A-Fa-f:.]+:[0-9A-Fa-f:.]*)"\n'
       '                r"|([A-Za-z_][-A-Za-z0-9_.]*[-A-Za-z0-9_])"  # or hostname\n',
       '                r"|([A-Za-z_][-A-Za-z0-9_.]*[-A-Za-z0-9_])"  # or hostname\n'
       '                r"|([0-9A-Fa-f:.]+:[0-9A-Fa-f:.]*)"\n'))
V("c09-fullmatch-equiv", "C09", "silent", None,
  (DT, "        m = self._rx.match(value)\n        if m and m.group() == value:",
       "        m = self._rx.fullmatch(value)\n        if m:"))
V("c09-time-h", "C09", "fire", "C09.R5",
  (DT, "'h': 60 * 60,", "'h': 60 * 6,"))
V("c09-suffix-window", "C09", "fire", "C09.R5",
  (DT, "return int(v[:-self._keysz]) * m", "return int(v[:-1]) * m"))
V("c09-binding-default", "C09", "fire", "C09.R6",
  (DT, 'inet_binding_address = InetAddress("")',
       'inet_binding_address = InetAddress("localhost")'))
V("c09-socket-parser-swap", "C09", "fire", "C09.R6",
  (DT, "class SocketBindingAddress(SocketAddress):\n\n"
       "    def _parse_address(self, s):\n"
       "        return inet_binding_address(s)",
       "class SocketBindingAddress(SocketAddress):\n\n"
       "    def _parse_address(self, s):\n"
       "        return inet_connection_address(s)"))
V("c09-timedelta-swap", "C09", "fire", "C09.R7",
  (DT, "        elif suffix == 'h':\n            hours = val",
       "        elif suffix == 'h':\n            minutes = val"))
V("c09-bool-raise-key", "C09", "fire", "C09.R",
  (DT, 'raise ValueError("not a valid boolean value: " + repr(s))',
       'raise KeyError("not a valid boolean value: " + repr(s))'))
V("c09-registry-no-normalise", "C09", "fire", "C09.R8",
  (DT, "            name = self._basic_key(name)\n        t = self._stock.get(name)",
       "            pass\n        t = self._stock.get(name)"))
V("c09-inet-nolower", "C09", "fire", "C09.R6",
  (DT, "            host = host.lower()\n        else:",
       "            host = host\n        else:"))
V("c09-reorder-elif-equiv", "C09", "silent", None,
  (DT, "    if ss in ('yes', 'true', 'on'):\n        return True\n"
       "    elif ss in ('no', 'false', 'off'):\n        return False\n",
       "    if ss in ('off', 'no', 'false'):\n        return False\n"
       "    if ss in ('on', 'yes', 'true'):\n        return True\n"))

# ---------------------------------------------------------------- C04
SU = "src/ZConfig/substitution.py"
V("c04-dollar-rest-off", "C04", "fire", "C04.R3",
  (SU, "return s[:i + 1], None, None, s[i + 2:], None",
       "return s[:i + 1], None, None, s[i + 1:], None"))
V("c04-brace-i", "C04", "fire", "C04.R3",
  (SU, "            i = m.end() + 1\n            if not s.startswith(\"}\", i - 1):",
       "            i = m.end() + 1\n            if not s.startswith(\"}\", i):"))
V("c04-paren-end", "C04", "fire", "C04.R3",
  (SU, "            i = m.end() + 1\n            if not s.startswith(\")\", i - 1):",
       "            i = m.end()\n            if not s.startswith(\")\", i):"))
V("c04-reassoc-equiv", "C04", "silent", None,
  (SU, "            i = m.end() + 1\n            if not s.startswith(\")\", i - 1):",
       "            j = m.end()\n            i = j + 1\n            if not s.startswith(\")\", j):"))
V("c04-swap-names", "C04", "fire", "C04.R",
  (SU, "return prefix, name.lower(), name, s[i:], vtype",
       "return prefix, name, name.lower(), s[i:], vtype"))
V("c04-env-lowercase", "C04", "fire", "C04.R4",
  (SU, "v = os.getenv(namecase)", "v = os.getenv(name)"))
V("c04-rescan", "C04", "fire", "C04.R4",
  (SU, "                result += v", "                rest = v + rest"))
V("c04-digit-first", "C04", "fire", "C04.R1",
  (SU, "_name_re = r'[a-zA-Z_][a-zA-Z0-9_]*'",
       "_name_re = r'[a-zA-Z0-9_][a-zA-Z0-9_]*'"))
V("c04-lazy-name", "C04", "fire", "C04.R1",
  (SU, "_name_re = r'[a-zA-Z_][a-zA-Z0-9_]*'",
       "_name_re = r'[a-zA-Z_][a-zA-Z0-9_]*?'"))
V("c04-w-equiv-not", "C04", "fire", "C04.R1",
  (SU, "_name_re = r'[a-zA-Z_][a-zA-Z0-9_]*'",
       "_name_re = r'[a-zA-Z_]\\w*'"))
V("c04-error-name", "C04", "fire", "C04.R4",
  (SU, "raise ZConfig.SubstitutionReplacementError(s, namecase)",
       "raise ZConfig.SubstitutionReplacementError(rest, namecase)"))
V("c04-fastpath", "C04", "fire", "C04.R4",
  (SU, "    else:\n        return s\n\n\ndef isname",
       "    else:\n        return s.strip()\n\n\ndef isname"))
V("c04-prefix-order", "C04", "fire", "C04.R4",
  (SU, "            result += p\n", "            result = p + result\n"))
V("c04-lone-dollar-class", "C04", "fire", "C04.R3",
  (SU, "            raise ZConfig.SubstitutionSyntaxError(\n                \"illegal lone '$' at end of source\")",
       "            raise ZConfig.SubstitutionReplacementError(\n                s, \"illegal lone '$' at end of source\")"))
V("c04-isname-prefix", "C04", "fire", "C04.R2",
  (SU, "        return m.group() == s", "        return True"))

# ---------------------------------------------------------------- C03
CF = "src/ZConfig/cfgparser.py"
V("c03-key-star", "C03", "fire", "C03.R1",
  (CF, '_name_re = r"[^\\s()]+"', '_name_re = r"[^\\s()]*"'))
V("c03-key-allows-paren", "C03", "fire", "C03.R",
  (CF, '_name_re = r"[^\\s()]+"', '_name_re = r"[^\\s(]+"'))
V("c03-kv-space-plus", "C03", "fire", "C03.R1",
  (CF, r'(?P<key>%s)\s*(?P<value>[^\s].*)?$', r'(?P<key>%s)\s+(?P<value>[^\s].*)?$'))
V("c03-kv-S-equiv", "C03", "silent", None,
  (CF, r'(?P<key>%s)\s*(?P<value>[^\s].*)?$', r'(?P<key>%s)\s*(?P<value>\S.*)?$'))
V("c03-section-no-dollar", "C03", "fire", "C03.R2",
  (CF, '                               r"$"\n', '                               r""\n'))
V("c03-section-name-star", "C03", "silent", None,
  (CF, r'r"(?:\s+(?P<name>%s))?"', r'r"(?:\s*(?P<name>%s))?"'))
V("c03-closer-window", "C03", "fire", "C03.R3",
  (CF, "section = self.end_section(section, line[2:-1])",
       "section = self.end_section(section, line[1:-1])"))
V("c03-opener-window", "C03", "fire", "C03.R3",
  (CF, "section = self.start_section(section, line[1:-1])",
       "section = self.start_section(section, line[1:])"))
V("c03-comment-semicolon", "C03", "fire", "C03.R3",
  (CF, 'if line[:1] in ("", "#"):', 'if line[:1] in ("", "#", ";"):'))
V("c03-line0-unguarded", "C03", "fire", "C03.R",
  (CF, 'if line[:1] in ("", "#"):', 'if line[0] == "#" or line == "":'))
V("c03-startswith-equiv", "C03", "silent", None,
  (CF, '            elif line[:2] == "</":', '            elif line.startswith("</"):'))
V("c03-no-strip", "C03", "fire", "C03.R4",
  (CF, "            return False, line.strip()", "            return False, line.rstrip()"))
V("c03-lineno-early", "C03", "fire", "C03.R4",
  (CF, "        line = self.file.readline()\n        if line:\n            self.lineno += 1",
       "        line = self.file.readline()\n        self.lineno += 1\n        if line:"))
V("c03-empty-slice", "C03", "fire", "C03.R5",
  (CF, 'isempty = rest[-1:] == "/"', 'isempty = rest[-2:] == "/"'))
V("c03-strip-not-rstrip", "C03", "fire", "C03.R5",
  (CF, "        text = rest.rstrip()\n", "        text = rest.strip()\n"))
V("c03-name-not-lowered", "C03", "fire", "C03.R5",
  (CF, "        if name:\n            name = self._normalize_case(name)\n", ""))
V("c03-no-lower", "C03", "fire", "C03.R5",
  (CF, "        return string.lower()", "        return string"))
V("c03-push-before-start", "C03", "fire", "C03.R5",
  (CF, "        try:\n            newsect = self.context.startSection(section, type_, name)",
       "        self.stack.append((type_, name, section))\n        try:\n            newsect = self.context.startSection(section, type_, name)"))
V("c03-closer-no-compare", "C03", "fire", "C03.R5",
  (CF, "        if type_ != opentype:\n            self.error(\"unbalanced section end\")\n", ""))
V("c03-unclosed-ok", "C03", "fire", "C03.R5",
  (CF, "        if self.stack:\n            self.error(\"unclosed sections not allowed\")\n", ""))
V("c03-directive-extra", "C03", "fire", "C03.R7",
  (CF, 'if name not in ("define", "import", "include"):',
       'if name not in ("define", "import", "include", "set"):'))
V("c03-directive-noarg", "C03", "fire", "C03.R7",
  (CF, "        if not arg:\n            self.error(\"missing argument to %%%s directive\" % name)\n", ""))
V("c03-value-none", "C03", "fire", "C03.R8",
  (CF, "        if not value:\n            value = ''\n        else:\n            value = self.replace(value)",
       "        if value:\n            value = self.replace(value)"))
V("c03-key-lowered", "C03", "fire", "C03.R8",
  (CF, "section.addValue(key, value, (self.lineno, None, self.url))",
       "section.addValue(key.lower(), value, (self.lineno, None, self.url))"))
V("c03-error-class", "C03", "fire", "C03.R9",
  (CF, "raise ZConfig.ConfigurationSyntaxError(message, self.url, self.lineno)",
       "raise ZConfig.ConfigurationError(message, self.url)"))
V("c03-directive-rebinds", "C03", "fire", "C03.R3",
  (CF, "                self.handle_directive(section, line[1:])",
       "                section = self.handle_directive(section, line[1:])"))
V("c03-elif-reorder-equiv", "C03", "silent", None,
  (CF, '            if line[:1] in ("", "#"):\n                # blank line or comment\n                pass\n',
       '            if not line or line[0] == "#":\n                pass\n'))

# ---------------------------------------------------------------- C07
CM = "src/ZConfig/cmdline.py"
V("c07-unfix-position-order", "C07", "fire", "C07.R2",
  (CM, "                url, lineno, colno = pos\n"
       "                ZConfig.matcher.BaseMatcher.addValue(\n"
       "                    self, key, val, (lineno, colno, url))",
       "                ZConfig.matcher.BaseMatcher.addValue(\n"
       "                    self, key, val, pos)"))
V("c07-unfix-include-guard", "C07", "fire", "C07.R3",
  (LD, "        if url in self._open_urls:\n"
       "            raise ZConfig.ConfigurationError(\n"
       "                \"recursive %include of \" + url, url)\n", ""))
V("c07-unfix-urlopen-valueerror", "C07", "fire", "C07.R1",
  (LD, "            except ValueError as e:\n"
       "                # urllib reports malformed URLs (for example an unbalanced\n"
       "                # '[' in the host part) with ValueError\n"
       "                self._raise_open_error(url, str(e))\n", ""))
V("c07-unfix-package-import", "C07", "fire", "C07.R1",
  (LD, "    try:\n        __import__(package)\n    except ImportError as e:\n"
       "        raise ZConfig.SchemaResourceError(\n"
       "            f\"could not load package {package}: {str(e)}\",\n"
       "            filename=path,\n            package=package)\n"
       "    pkg = sys.modules[package]\n    if not hasattr",
       "    __import__(package)\n    pkg = sys.modules[package]\n    if not hasattr"))
V("c07-unfix-keytype-wrap", "C07", "fire", "C07.R1",
  (CM, "            try:\n                name = sectiontype.keytype(optpath[0])\n"
       "            except ValueError as e:\n"
       "                url, lineno, colno = pos\n"
       "                raise ZConfig.DataConversionError(\n"
       "                    e, optpath[0], (lineno, colno, url))\n",
       "            name = sectiontype.keytype(optpath[0])\n"))
V("c07-raise-keyerror", "C07", "fire", "C07.R1",
  ("src/ZConfig/matcher.py",
   "                raise ZConfig.ConfigurationError(\n"
   "                    repr(key) + \" is not a known key name\")",
   "                raise KeyError(\n"
   "                    repr(key) + \" is not a known key name\")"))
V("c07-narrow-handler", "C07", "fire", "C07.R1",
  ("src/ZConfig/info.py",
   "        try:\n            return datatype(self.value)\n        except ValueError as e:",
   "        try:\n            return datatype(self.value)\n        except UnicodeError as e:"))
V("c07-line-minus1", "C07", "fire", "C07.R4",
  (CF, 'if line[:1] in ("", "#"):', 'if line == "#" or line[-1] == "#":'))
V("c07-validator-narrow", "C07", "fire", "C07.R7",
  ("src/ZConfig/validator.py", "        except ZConfig.ConfigurationError as e:",
   "        except ZConfig.ConfigurationSyntaxError as e:"))
V("c07-split-unguarded", "C07", "fire", "C07.R8",
  (CM, "        if \"=\" not in spec:\n            e = ZConfig.ConfigurationSyntaxError(\n"
       "                \"invalid configuration specifier\", *pos)\n"
       "            e.specifier = spec\n            raise e\n", ""))
V("c07-new-cfgerror-subclass-ok", "C07", "silent", None,
  ("src/ZConfig/matcher.py",
   "                raise ZConfig.ConfigurationError(\n"
   "                    repr(key) + \" is not a known key name\")",
   "                raise ZConfig.ConfigurationSyntaxError(\n"
   "                    repr(key) + \" is not a known key name\", None, -1)"))
V("c07-try-moved-outward-ok", "C07", "silent", None,
  (CM, "        try:\n            realkey = self.type.keytype(key)\n"
       "        except ValueError as e:\n"
       "            raise ZConfig.DataConversionError(e, key, position)\n\n"
       "        if realkey in self.optionbag:\n            return\n",
       "        try:\n            realkey = self.type.keytype(key)\n"
       "            if realkey in self.optionbag:\n                return\n"
       "        except ValueError as e:\n"
       "            raise ZConfig.DataConversionError(e, key, position)\n"))

# ---------------------------------------------------------------- C08
V("c08-unfix-empty-form", "C08", "fire", "C08.R",
  (CF, "        if isempty:\n            self._end_section(section, type_, name, newsect)",
       "        if isempty:\n            self.context.endSection(section, type_, name, newsect)"))
V("c08-unfix-subst-syntax", "C08", "fire", "C08.R",
  (CF, "        except (ZConfig.SubstitutionReplacementError,\n"
       "                ZConfig.SubstitutionSyntaxError) as e:",
       "        except ZConfig.SubstitutionReplacementError as e:"))
V("c08-reraise-unpatched", "C08", "fire", "C08.R",
  (CF, "        except ZConfig.ConfigurationError as e:\n"
       "            if getattr(e, 'lineno', -1) < 0:\n"
       "                e.lineno = self.lineno\n"
       "            if not e.url:\n                e.url = self.url\n            raise",
       "        except ZConfig.ConfigurationError as e:\n"
       "            if getattr(e, 'lineno', -1) < 0:\n"
       "                e.lineno = self.lineno\n            raise"))
V("c08-lineno-before-eof", "C08", "fire", "C08.R2",
  (CF, "        line = self.file.readline()\n        if line:\n            self.lineno += 1",
       "        line = self.file.readline()\n        self.lineno += 1\n        if line:"))
V("c08-error-context-url", "C08", "fire", "C08.R2",
  (CF, "raise ZConfig.ConfigurationSyntaxError(message, self.url, self.lineno)",
       "raise ZConfig.ConfigurationSyntaxError(message, self.resource.url, self.lineno - 1)"))
V("c08-fixup-eq0", "C08", "fire", "C08.R6",
  (CF, "            if e.lineno < 0:\n                e.lineno = self.lineno\n"
       "            if not e.url:\n                e.url = self.url\n            raise\n"
       "        except ZConfig.ConfigurationError as e:\n            self.error(e.message)\n",
       "            if e.lineno == 0:\n                e.lineno = self.lineno\n"
       "            if not e.url:\n                e.url = self.url\n            raise\n"
       "        except ZConfig.ConfigurationError as e:\n            self.error(e.message)\n"))
V("c08-placeholder-zero", "C08", "fire", "C08.R4",
  ("src/ZConfig/matcher.py",
   "                                raise ZConfig.DataConversionError(\n"
   "                                    e, s, (-1, -1, None))",
   "                                raise ZConfig.DataConversionError(\n"
   "                                    e, s, (0, 0, None))"))
V("c08-dce-wrong-value", "C08", "fire", "C08.R5",
  ("src/ZConfig/info.py",
   "raise ZConfig.DataConversionError(e, self.value, self.position)",
   "raise ZConfig.DataConversionError(e, str(e), self.position)"))
V("c08-lineno-start-1", "C08", "fire", "C08.R2",
  (CF, "        self.lineno = 0\n", "        self.lineno = 1\n"))
V("c08-handlers-helper-ok", "C08", "silent", None,
  (CF, "        except ZConfig.ConfigurationError as e:\n"
       "            if getattr(e, 'lineno', -1) < 0:\n"
       "                e.lineno = self.lineno\n"
       "            if not e.url:\n                e.url = self.url\n            raise",
       "        except ZConfig.ConfigurationError as e:\n"
       "            if not e.url:\n                e.url = self.url\n"
       "            if getattr(e, 'lineno', -1) < 0:\n"
       "                e.lineno = self.lineno\n            raise"))

# ---------------------------------------------------------------- C05 / C06
for _p in ("C05", "C06"):
    V("%s-defines-copied" % _p.lower(), _p, "fire", _p + ".R",
      (CF, "self.context.includeConfiguration(section, newurl, self.defines)",
           "self.context.includeConfiguration(section, newurl, dict(self.defines))"))
    V("%s-defines-copy-loader" % _p.lower(), _p, "fire", _p + ".R",
      (LD, "                self._parse_resource(section, r, defines)",
           "                self._parse_resource(section, r, defines.copy())"))
V("c05-mutable-default", "C05", "fire", "C05.R1",
  (CF, "    def __init__(self, resource, context, defines=None):",
       "    def __init__(self, resource, context, defines={}):"),
  (CF, "        if defines is None:\n            defines = {}\n", ""))
V("c05-unfix-raw-compare", "C05", "fire", "C05.R5",
  (CF, "        defvalue = self.replace(defvalue)\n        if defname in self.defines:\n"
       "            if self.defines[defname] != defvalue:\n"
       "                self.error(\"cannot redefine \" + repr(defname))\n"
       "        if not isname(defname):\n"
       "            self.error(\"not a substitution legal name: \" + repr(defname))\n"
       "        self.defines[defname] = defvalue",
       "        if defname in self.defines:\n"
       "            if self.defines[defname] != defvalue:\n"
       "                self.error(\"cannot redefine \" + repr(defname))\n"
       "        if not isname(defname):\n"
       "            self.error(\"not a substitution legal name: \" + repr(defname))\n"
       "        self.defines[defname] = self.replace(defvalue)"))
V("c05-name-not-normalised", "C05", "fire", "C05.R3",
  (CF, "        defname = self._normalize_case(parts[0])", "        defname = parts[0]"))
V("c05-store-unexpanded", "C05", "fire", "C05.R",
  (CF, "        defvalue = self.replace(defvalue)\n        if defname in self.defines:",
       "        expanded = self.replace(defvalue)\n        if defname in self.defines:"),
  (CF, "            if self.defines[defname] != defvalue:", "            if self.defines[defname] != expanded:"))
V("c05-no-isname", "C05", "fire", "C05.R3",
  (CF, "        if not isname(defname):\n"
       "            self.error(\"not a substitution legal name: \" + repr(defname))\n", ""))
V("c05-guard-order-ok", "C05", "silent", None,
  (CF, "        if defname in self.defines:\n"
       "            if self.defines[defname] != defvalue:\n"
       "                self.error(\"cannot redefine \" + repr(defname))\n"
       "        if not isname(defname):\n"
       "            self.error(\"not a substitution legal name: \" + repr(defname))\n",
       "        if not isname(defname):\n"
       "            self.error(\"not a substitution legal name: \" + repr(defname))\n"
       "        if defname in self.defines and self.defines[defname] != defvalue:\n"
       "            self.error(\"cannot redefine \" + repr(defname))\n"))
V("c05-replace-other-mapping", "C05", "fire", "C05.R4",
  (CF, "            return substitute(text, self.defines)",
       "            return substitute(text, dict(self.defines))"))
V("c05-defines-on-loader", "C05", "fire", "C05.R",
  (LD, "        parser = ZConfig.cfgparser.ZConfigParser(resource, self, defines)",
       "        if defines is None:\n            defines = self.__dict__.setdefault('_defines', {})\n"
       "        parser = ZConfig.cfgparser.ZConfigParser(resource, self, defines)"))
V("c06-join-top-url", "C06", "fire", "C06.R2",
  (CF, "            newurl = ZConfig.url.urljoin(self.url, rest)",
       "            newurl = ZConfig.url.urljoin(self.context.schema.url, rest)"))
V("c06-no-normalize", "C06", "fire", "C06.R2",
  (LD, "    def includeConfiguration(self, section, url, defines):\n"
       "        url = self.normalizeURL(url)\n",
       "    def includeConfiguration(self, section, url, defines):\n"))
V("c06-include-top-matcher", "C06", "fire", "C06.R",
  (LD, "                self._parse_resource(section, r, defines)",
       "                self._parse_resource(self._top, r, defines)"))
V("c06-shared-stack", "C06", "fire", "C06.R4",
  (CF, "        self.stack = []   # [(type, name, prevmatcher), ...]",
       "        self.stack = context.__dict__.setdefault('_stack', [])"))
V("c06-no-expand-include", "C06", "fire", "C06.R2",
  (CF, "        rest = self.replace(rest.strip())\n        try:\n            newurl",
       "        rest = rest.strip()\n        try:\n            newurl"))
V("c06-include-context-other", "C06", "fire", "C06.R3",
  (LD, "        parser = ZConfig.cfgparser.ZConfigParser(resource, self, defines)",
       "        parser = ZConfig.cfgparser.ZConfigParser(resource, ConfigLoader(self.schema), defines)"))

# ---------------------------------------------------------------- C18
UR = "src/ZConfig/url.py"
SC = "src/ZConfig/schema.py"
V("c18-scheme-no-plus", "C18", "fire", "C18.R1",
  (LD, r'_pathsep_rx = re.compile(r"[a-zA-Z][-+.a-zA-Z0-9]*:")',
       r'_pathsep_rx = re.compile(r"[a-zA-Z][-.a-zA-Z0-9]*:")'))
V("c18-le2-equiv", "C18", "silent", None,
  (LD, "return len(m.group(0)) == 2", "return len(m.group(0)) <= 2"))
V("c18-drive-3", "C18", "fire", "C18.R1",
  (LD, "return len(m.group(0)) == 2", "return len(m.group(0)) <= 3"))
V("c18-slice-6", "C18", "fire", "C18.R2",
  (UR, '    if lc.startswith("file:/") and not lc.startswith("file:///"):\n        url = "file://" + url[5:]',
       '    if lc.startswith("file:/") and not lc.startswith("file:///"):\n        url = "file://" + url[6:]'))
V("c18-normalize-case-sensitive", "C18", "fire", "C18.R2",
  (UR, "    lc = url.lower()\n", "    lc = url\n"))
V("c18-double-quote", "C18", "fire", "C18.R3",
  (LD, '            url = "file://" + pathname2url(os.path.abspath(url))',
       '            url = "file://" + pathname2url(pathname2url(os.path.abspath(url)))'))
V("c18-no-abspath", "C18", "fire", "C18.R",
  (LD, '        return "file://" + pathname2url(os.path.abspath(name))',
       '        return "file://" + pathname2url(name)'))
V("c18-import-no-gate", "C18", "fire", "C18.R4",
  (SC, "            if fragment:\n                self.error(\"import src may not include\"\n"
       "                           \" a fragment identifier\")\n", ""))
V("c18-extends-no-gate", "C18", "fire", "C18.R4",
  (SC, "                if fragment:\n                    self.error(\"schema extends many not include\"\n"
       "                               \" a fragment identifier\")\n", ""))
V("c18-normalize-no-gate", "C18", "fire", "C18.R",
  (LD, "        if fragment:\n            raise ZConfig.ConfigurationError(\n"
       "                \"fragment identifiers are not supported\",\n                url)\n", ""))
V("c18-import-join-loader", "C18", "fire", "C18.R4",
  (SC, "            src = url.urljoin(self._url, src)\n            src, fragment = url.urldefrag(src)\n            if fragment:\n                self.error(\"import",
       "            src = url.urljoin(self._schema.url, src)\n            src, fragment = url.urldefrag(src)\n            if fragment:\n                self.error(\"import"))
V("c18-component-parser-url", "C18", "fire", "C18.R5",
  (SC, "    parser = ComponentParser(loader, resource.url, schema)",
       "    parser = ComponentParser(loader, schema.url, schema)"))
V("c18-name-rule", "C18", "fire", "C18.R6",
  (LD, '    if name and name[0] != "<" and name[-1] != ">":',
       '    if name and name[0] != "<":'))
V("c18-package-prefix", "C18", "fire", "C18.R6",
  (LD, '        if url.startswith("package:"):', '        if url.startswith("pkg:"):'))
V("c18-loadurl-skip-normalize", "C18", "fire", "C18.R3",
  (LD, "        url = self.normalizeURL(url)\n        with self.openResource(url) as r:\n            return self.loadResource(r)",
       "        with self.openResource(url) as r:\n            return self.loadResource(r)"))

# ---------------------------------------------------------------- C17
SLF = "src/ZConfig/schemaless.py"
V("c17-unfix-escape-value", "C17", "fire", "C17.R1",
  (SLF, "                value = value.replace('$', '$$')\n", ""))
V("c17-unfix-escape-import", "C17", "fire", "C17.R1",
  (SLF, "result.append('%import ' + pkgname.replace('$', '$$'))",
        "result.append('%import ' + pkgname)"))
V("c17-unfix-slash", "C17", "fire", "C17.R2",
  (SLF, "            if start.endswith('/'):\n"
        "                # \"<a b/ >\" must not turn into the empty form \"<a b/>\"\n"
        "                start += ' '\n", ""))
V("c17-header-no-space", "C17", "fire", "C17.R2",
  (SLF, "start = f'{pre}<{self.type} {self.name}'", "start = f'{pre}<{self.type}{self.name}'"))
V("c17-kv-equals", "C17", "fire", "C17.R2",
  (SLF, "result.append(f'{pre}{name} {value}')", "result.append(f'{pre}{name}={value}')"))
V("c17-closer-name", "C17", "fire", "C17.R2",
  (SLF, "result.append(f'{pre}</{self.type}>')", "result.append(f'{pre}</{self.name}>')"))
V("c17-values-sorted", "C17", "fire", "C17.R3",
  (SLF, "            for value in values:", "            for value in sorted(values):"))
V("c17-sections-reversed", "C17", "fire", "C17.R3",
  (SLF, "        for section in self.sections:\n            result.append(section.__str__(pre))",
        "        for section in reversed(self.sections):\n            result.append(section.__str__(pre))"))
V("c17-addvalue-prepend", "C17", "fire", "C17.R3",
  (SLF, "            self[key].append(value)", "            self[key].insert(0, value)"))
V("c17-define-dropped", "C17", "fire", "C17.R4",
  (SLF, "        raise NotImplementedError('defines are not supported')", "        return None"))
V("c17-import-dup", "C17", "fire", "C17.R3",
  (SLF, "        if pkgname not in self.top.imports:\n            self.top.imports += (pkgname, )",
        "        self.top.imports += (pkgname, )"))
V("c17-comment-hash-key", "C17", "silent", None,
  (SLF, "        lst = sorted(self.items())", "        lst = sorted(self.items())  # keys only"))

# ---------------------------------------------------------------- C20
LH = "src/ZConfig/components/logger/handlers.py"
LL = "src/ZConfig/components/logger/logger.py"
LHD = "src/ZConfig/components/logger/loghandler.py"
LDT = "src/ZConfig/components/logger/datatypes.py"
LF = "src/ZConfig/components/logger/formatter.py"
V("c20-level-warn", "C20", "fire", "C20.R1", (LDT, '"warn": 30,', '"warn": 35,'))
V("c20-level-range", "C20", "fire", "C20.R1", (LDT, "if v < 0 or v > 50:", "if v < 0 or v >= 50:"))
V("c20-level-nolower", "C20", "fire", "C20.R1", (LDT, "s = str(value).lower()", "s = str(value)"))
V("c20-stdout-delay-ok", "C20", "fire", "C20.R3",
  (LH, "            if delay:\n                raise ValueError(\"cannot delay opening \" + path)\n", ""))
V("c20-rotation-no-oldfiles", "C20", "fire", "C20.R3",
  (LH, "            if not old_files:\n                raise ValueError(\"old-files must be set for log rotation\")\n", ""))
V("c20-stderr-stdout-swap", "C20", "fire", "C20.R3",
  (LH, "                return loghandler.StreamHandler(sys.stderr)", "                return loghandler.StreamHandler(sys.stdout)"))
V("c20-interval-default", "C20", "fire", "C20.R3",
  (LH, "                    interval = 1\n", "                    interval = 0\n"))
V("c20-factory-recreate", "C20", "fire", "C20.R4",
  ("src/ZConfig/components/logger/factory.py",
   "        if self.instance is _marker:\n            self.instance = self.create()\n        return self.instance",
   "        self.instance = self.create()\n        return self.instance"))
V("c20-logger-no-setlevel", "C20", "fire", "C20.R5",
  (LL, "        logger.setLevel(self.level)\n", ""))
V("c20-null-handler-always", "C20", "fire", "C20.R5",
  (LL, "        else:\n            from ZConfig.components.logger import loghandler\n            logger.addHandler(loghandler.NullHandler())",
       "        from ZConfig.components.logger import loghandler\n        logger.addHandler(loghandler.NullHandler())"))
V("c20-propagate-dropped", "C20", "fire", "C20.R5",
  (LL, "        logger.propagate = self.propagate\n", ""))
V("c20-handler-level-logger", "C20", "fire", "C20.R5",
  (LH, "        logger.setLevel(self.section.level)\n        return logger",
       "        logger.setLevel(0)\n        return logger"))
V("c20-close-no-unregister", "C20", "fire", "C20.R6",
  (LHD, "        logging.handlers.RotatingFileHandler.close(self)\n        _remove_from_reopenable(self._wr)",
        "        logging.handlers.RotatingFileHandler.close(self)"))
V("c20-reopen-iter-live", "C20", "fire", "C20.R6",
  (LHD, "    for wr in _reopenable_handlers[:]:", "    for wr in _reopenable_handlers:"))
V("c20-style-extra", "C20", "fire", "C20.R7",
  (LF, "    'safe-template': SafeStringTemplateStyle,\n}", "    'safe-template': SafeStringTemplateStyle,\n    'printf': PercentStyle,\n}"))
V("c20-xml-attr-renamed", "C20", "fire", "C20.R2",
  ("src/ZConfig/components/logger/handlers.xml",
   '<key name="old-files" required="no" default="0" datatype="integer">',
   '<key name="old-files" attribute="backups" required="no" default="0" datatype="integer">'))
V("c20-python-attr-typo", "C20", "fire", "C20.R2",
  (LH, "        host, port = self.section.smtp_server", "        host, port = self.section.smtp_host"))
V("c20-eventlog-name", "C20", "fire", "C20.R5",
  (LL, '    """Logger factory that returns the root logger."""\n\n    name = None',
       '    """Logger factory that returns the root logger."""\n\n    name = "root"'))
V("c20-elif-flatten-equiv", "C20", "silent", None,
  (LH, "        if path == \"STDERR\":\n            check_std_stream()\n",
       "        if \"STDERR\" == path:\n            check_std_stream()\n"))

# ---------------------------------------------------------------- C01
MTF = "src/ZConfig/matcher.py"
INFO = "src/ZConfig/info.py"
V("c01-minoccurs-le", "C01", "fire", "C01.R2",
  (MTF, "                if len(v) < ci.minOccurs:", "                if len(v) <= ci.minOccurs:"))
V("c01-maxoccurs-lt", "C01", "fire", "C01.R2",
  (INFO, "        if maxOccurs < 1:", "        if maxOccurs < 0:"))
V("c01-min-max-ge", "C01", "fire", "C01.R2",
  (INFO, "        if minOccurs > maxOccurs:", "        if minOccurs >= maxOccurs:"))
V("c01-ismulti-ge", "C01", "fire", "C01.R2",
  (INFO, "        return self.maxOccurs > 1", "        return self.maxOccurs >= 1"))
V("c01-name-reuse-after", "C01", "fire", "C01.R3",
  (MTF, "        if name:\n            if name in self._sectionnames:\n"
        "                raise ZConfig.ConfigurationError(\n"
        "                    \"section names must not be re-used within the\"\n"
        "                    \" same container:\" + repr(name))\n"
        "            self._sectionnames[name] = name\n",
        "        if name:\n            self._sectionnames[name] = name\n"))
V("c01-star-allows-plus", "C01", "fire", "C01.R1",
  (INFO, "        if name == \"*\" or name == \"+\":\n            return False\n        elif self.name == \"+\":",
         "        if name == \"*\":\n            return False\n        elif self.name == \"+\":"))
V("c01-plus-unnamed-ok", "C01", "fire", "C01.R1",
  (INFO, "            return True if name else False", "            return True"))
V("c01-slot-search-no-fallthrough", "C01", "fire", "C01.R4",
  (INFO, "        raise ZConfig.ConfigurationError(\n            \"no matching section defined for type='%s', name='%s'\"\n            % (type_, name))",
         "        return self._children[0][1]"))
V("c01-slot-search-type-check", "C01", "fire", "C01.R4",
  (INFO, "                    if st.name != type_:\n                        raise ZConfig.ConfigurationError(\n"
         "                            \"name %s must be used for a %s section\"\n"
         "                            % (repr(name), repr(st.name)))\n", ""))
V("c01-abstract-gate", "C01", "fire", "C01.R5",
  (LD, "        if t.isabstract():\n            raise ZConfig.ConfigurationError(\n"
       "                \"concrete sections cannot match abstract section types;\"\n"
       "                \" found abstract type \" + repr(type_))\n", ""))
V("c01-allowedname-skipped", "C01", "fire", "C01.R5",
  (MTF, "        if not ci.isAllowedName(name):\n            raise ZConfig.ConfigurationError(\n"
        "                \"%s is not an allowed name for %s sections\"\n"
        "                % (repr(name), repr(ci.sectiontype.name)))\n", ""))
V("c01-single-value-guard", "C01", "fire", "C01.R3",
  (MTF, "        elif not ismulti:\n            if k != '+':\n                raise ZConfig.ConfigurationError(\n"
        "                    repr(key) + \" does not support multiple values\")\n", ""))
V("c01-datatype-unwrapped", "C01", "fire", "C01.R6",
  (INFO, "        try:\n            return datatype(self.value)\n        except ValueError as e:\n"
         "            raise ZConfig.DataConversionError(e, self.value, self.position)",
         "        return datatype(self.value)"))
V("c01-unknown-key-ok", "C01", "fire", "C01.R3",
  (MTF, "            if arbkey_info is None:\n                raise ZConfig.ConfigurationError(\n"
        "                    repr(key) + \" is not a known key name\")\n            k, ci = arbkey_info",
        "            if arbkey_info is None:\n                return\n            k, ci = arbkey_info"))
V("c01-operand-swap-equiv", "C01", "silent", None,
  (INFO, "        if minOccurs > maxOccurs:", "        if maxOccurs < minOccurs:"))
V("c01-not-ge-equiv", "C01", "silent", None,
  (MTF, "                if len(v) < ci.minOccurs:", "                if not (len(v) >= ci.minOccurs):"))

# ---------------------------------------------------------------- C02
V("c02-single-section-list", "C02", "fire", "C02.R1",
  (MTF, "            elif type_info.ismulti():\n                v = []\n            else:\n                v = None",
        "            elif type_info.ismulti() or type_info.issection():\n                v = []\n            else:\n                v = None"))
V("c02-default-always", "C02", "fire", "C02.R1",
  (MTF, "                if not v:\n                    default = ci.getdefault()\n                    if isinstance(default, dict):",
        "                if True:\n                    default = ci.getdefault()\n                    if isinstance(default, dict):"))
V("c02-insert-front", "C02", "fire", "C02.R",
  (MTF, "        elif ismulti:\n            v.append(value)", "        elif ismulti:\n            v.insert(0, value)"))
V("c02-default-unconverted", "C02", "fire", "C02.R1",
  (MTF, "                    for key, val in ci.getdefault().items():\n                        v[key] = val.convert(ci.datatype)",
        "                    for key, val in ci.getdefault().items():\n                        v[key] = val.value"))
V("c02-hyphen-kept", "C02", "fire", "C02.R5",
  ("src/ZConfig/schema.py", "                aname = self.identifier(aname.replace('-', '_'))",
   "                aname = self.identifier(aname)"))
V("c02-default-aliased", "C02", "fire", "C02.R2",
  (INFO, "        # list and dictionary cases:\n        return copy.copy(self._default)",
         "        # list and dictionary cases:\n        return self._default"))
V("c02-section-name-none", "C02", "fire", "C02.R6",
  (MTF, "        return SectionValue(self._values, self.name, self)", "        return SectionValue(self._values, None, self)"))
V("c02-schema-datatype-skipped", "C02", "fire", "C02.R6",
  (MTF, "        v = BaseMatcher.finish(self)\n        v = self.type.datatype(v)\n", "        v = BaseMatcher.finish(self)\n"))
V("c02-sibling-datatype", "C02", "fire", "C02.R1",
  (MTF, "                v = [vi.convert(ci.datatype) for vi in values[attr]]",
        "                v = [vi.convert(self.type.valuetype) for vi in values[attr]]"))
V("c02-getname-type", "C02", "fire", "C02.R6",
  (MTF, "    def getSectionName(self):\n        return self._name", "    def getSectionName(self):\n        return self._matcher.type.name"))

# ---------------------------------------------------------------- C14
V("c14-unfix-wrap", "C14", "fire", "C14.R6",
  (CM, "            try:\n                name = sectiontype.keytype(optpath[0])\n"
       "            except ValueError as e:\n"
       "                url, lineno, colno = pos\n"
       "                raise ZConfig.DataConversionError(\n"
       "                    e, optpath[0], (lineno, colno, url))\n",
       "            name = sectiontype.keytype(optpath[0])\n"))
V("c14-unfix-position", "C14", "fire", "C14.R",
  (CM, "                url, lineno, colno = pos\n"
       "                ZConfig.matcher.BaseMatcher.addValue(\n"
       "                    self, key, val, (lineno, colno, url))",
       "                ZConfig.matcher.BaseMatcher.addValue(\n"
       "                    self, key, val, pos)"))
V("c14-split-last-eq", "C14", "fire", "C14.R1",
  (CM, "        opt, val = spec.split(\"=\", 1)", "        opt, val = spec.rsplit(\"=\", 1)"))
V("c14-empty-component-ok", "C14", "fire", "C14.R1",
  (CM, "        if \"\" in optpath:\n            # // is not allowed in option path\n"
       "            e = ZConfig.ConfigurationSyntaxError(\n"
       "                \"'//' is not allowed in an option path\", *pos)\n"
       "            e.specifier = spec\n            raise e\n", ""))
V("c14-suppress-raw-key", "C14", "fire", "C14.R2",
  (CM, "        if realkey in self.optionbag:\n            return", "        if key in self.optionbag:\n            return"))
V("c14-finish-before-options", "C14", "fire", "C14.R3",
  (CM, "        self.finish_optionbag()\n        return ZConfig.matcher.SectionMatcher.finish(self)",
       "        v = ZConfig.matcher.SectionMatcher.finish(self)\n        self.finish_optionbag()\n        return v"))
V("c14-leftovers-ignored", "C14", "fire", "C14.R3",
  (CM, "        self.optionbag.finish()\n", "        pass\n"))
V("c14-inject-via-mixin", "C14", "fire", "C14.R3",
  (CM, "                ZConfig.matcher.BaseMatcher.addValue(\n                    self, key, val, (lineno, colno, url))",
       "                self.addValue(key, val, (lineno, colno, url))"))
V("c14-values-expanded", "C14", "fire", "C14.R",
  (CM, "        self.clopts.append((optpath, val, pos))",
       "        from ZConfig.substitution import substitute\n        self.clopts.append((optpath, substitute(val, {}), pos))"))
V("c14-name-case-sensitive", "C14", "fire", "C14.R5",
  (CM, "            if name and self._normalize_case(s) == name:", "            if name and s == name:"))
V("c14-not-consumed", "C14", "fire", "C14.R5",
  (CM, "        if L:\n            self.sectitems[:] = R\n", "        if L:\n"))
V("c14-tail-not-cut", "C14", "fire", "C14.R5",
  (CM, "            elif bk == type_:\n                L.append((optpath[1:], val, pos))",
       "            elif bk == type_:\n                L.append((optpath, val, pos))"))
V("c14-child-fresh-handlers", "C14", "fire", "C14.R7",
  (CM, "                sm.info, sm.type, sm.name, sm.handlers)", "                sm.info, sm.type, sm.name, [])"))
V("c14-loader-always-plain", "C14", "fire", "C14.R7",
  (LD, "    if overrides:\n        from ZConfig import cmdline", "    if overrides is not None:\n        from ZConfig import cmdline"))

# ---------------------------------------------------------------- C16
V("c16-missing-in-call-loop", "C16", "fire", "C16.R",
  (LD, "        if L:\n            raise ZConfig.ConfigurationError(\n                \"undefined handlers: \" + \", \".join(L))\n"
       "        for handler, value in self._handlers:\n            f = d[handler]\n",
       "        for handler, value in self._handlers:\n            if handler not in d:\n"
       "                raise ZConfig.ConfigurationError(\"undefined handler\")\n            f = d[handler]\n"))
V("c16-names-unconverted", "C16", "fire", "C16.R2",
  (LD, "            n = self._convert(name)\n            if n in d:", "            n = name\n            if n in d:"))
V("c16-none-called", "C16", "fire", "C16.R2",
  (LD, "            if f is not None:\n                f(value)", "            if f is not None or True:\n                f(value)"))
V("c16-unconverted-value", "C16", "fire", "C16.R4",
  (MTF, "            values[attr] = v\n            if ci.handler is not None:\n                self.handlers.append((ci.handler, v))",
        "            if ci.handler is not None:\n                self.handlers.append((ci.handler, values[attr]))\n            values[attr] = v"))
V("c16-handlers-copied", "C16", "fire", "C16.R",
  (MTF, "        return SectionMatcher(ci, type_, name, self.handlers)", "        return SectionMatcher(ci, type_, name, list(self.handlers))"))
V("c16-len-wrong", "C16", "fire", "C16.R3",
  (LD, "        return len(self._handlers)", "        return len(self._handlers) + 1"))
V("c16-schema-handler-first", "C16", "fire", "C16.R4",
  (MTF, "        v = BaseMatcher.finish(self)\n        v = self.type.datatype(v)\n        if self.type.handler is not None:\n            self.handlers.append((self.type.handler, v))",
        "        if self.type.handler is not None:\n            self.handlers.append((self.type.handler, None))\n        v = BaseMatcher.finish(self)\n        v = self.type.datatype(v)"))
V("c16-handler-name-raw", "C16", "fire", "C16.R6",
  ("src/ZConfig/schema.py", "        v = attrs.get(\"handler\")\n        if v is None:\n            return v\n        return self.basic_key(v)",
   "        v = attrs.get(\"handler\")\n        return v"))

# ---------------------------------------------------------------- C15
V("c15-raw-key-lookup", "C15", "fire", "C15.R3",
  (MTF, "            if k == realkey:\n                break", "            if k == key:\n                break"))
V("c15-mixin-raw-key", "C15", "fire", "C15.R3",
  (CM, "        if realkey in self.optionbag:\n            return", "        if key in self.optionbag:\n            return"))
V("c15-no-strip", "C15", "fire", "C15.R1",
  (CF, "            return False, line.strip()", "            return False, line.rstrip()"))
V("c15-semicolon-comment", "C15", "fire", "C15.R1",
  (CF, 'if line[:1] in ("", "#"):', 'if line[:1] in ("", "#", ";"):'))
V("c15-type-not-lowered", "C15", "fire", "C15.R2",
  (CF, "        type_ = self._normalize_case(type_)\n        if name:", "        if name:"))
V("c15-define-not-lowered", "C15", "fire", "C15.R2",
  (CF, "        defname = self._normalize_case(parts[0])", "        defname = parts[0]"))
V("c15-unfix-empty-form", "C15", "fire", "C15.R4",
  (CF, "        if isempty:\n            self._end_section(section, type_, name, newsect)",
       "        if isempty:\n            self.context.endSection(section, type_, name, newsect)"))
V("c15-addvalue-counter", "C15", "fire", "C15.R5",
  (MTF, "        value = ValueInfo(value, position)\n        if k == '+':",
        "        value = ValueInfo(value, position)\n        self._last_key = realkey\n        if k == '+':"))
V("c15-kv-writes-parser", "C15", "fire", "C15.R5",
  (CF, "        key, value = m.group('key', 'value')\n        if not value:",
       "        key, value = m.group('key', 'value')\n        self.lastkey = key\n        if not value:"))

# ---------------------------------------------------------------- C10
V("c10-unfix-importerror", "C10", "fire", "C10.R",
  (SC, "        except ImportError as e:\n            self.error(f\"could not load datatype {dtname!r}: {e}\")\n", ""))
V("c10-unfix-default-key", "C10", "fire", "C10.R",
  (INFO, "            key = self.convert_default_key(keytype, k, vi.position)\n            self.add_valueinfo(vi, key)",
         "            key = ValueInfo(k, vi.position).convert(keytype)\n            self.add_valueinfo(vi, key)"))
V("c10-required-default-ok", "C10", "fire", "C10.R6",
  (SC, "            if minOccurs:\n                self.error(\"required key cannot have a default value\")\n", ""))
V("c10-multikey-default-attr-ok", "C10", "fire", "C10.R6",
  (SC, "        if \"default\" in attrs:\n            self.error(\"default values for multikey must be given using\"\n                       \" 'default' elements\")\n", ""))
V("c10-multisection-any-name", "C10", "fire", "C10.R6",
  (SC, "        if any_name not in (\"*\", \"+\"):\n            self.error(\"multisection must specify '*' or '+' for the name\")\n", ""))
V("c10-key-star-ok", "C10", "fire", "C10.R6",
  (SC, "        if any_name == '*':\n            self.error(element + \" may not specify '*' for name\")\n", ""))
V("c10-wildcard-no-attr", "C10", "fire", "C10.R6",
  (SC, "            if not aname:\n                self.error(\n                    \"container attribute must be specified and non-empty\"\n"
       "                    \" when using '*' or '+' for a section name\")\n", ""))
V("c10-extends-abstract-ok", "C10", "fire", "C10.R6",
  (SC, "            if base.isabstract():\n                self.error(\"sectiontype cannot extend an abstract type\")\n", ""))
V("c10-implements-concrete-ok", "C10", "fire", "C10.R6",
  (SC, "            if not interface.isabstract():\n                self.error(\n                    \"type specified by implements is not an abstracttype\")\n", ""))
V("c10-reserved-prefix-ok", "C10", "fire", "C10.R6",
  (SC, "            if aname.startswith(\"getSection\"):\n                # reserved; used for SectionValue methods to get meta-info\n"
       "                self.error(\"attribute names may not start with 'getSection'\")\n", ""))
V("c10-required-maybe-false", "C10", "fire", "C10.R6",
  (SC, "            self.error(\"value for 'required' must be 'yes' or 'no'\")", "            return False"))
V("c10-name-dup-ok", "C10", "fire", "C10.R4",
  (INFO, "        if key and key in self._keymap:\n            raise ZConfig.SchemaError(\n                \"child name %s already used\" % key)\n", ""))
V("c10-type-redefine-ok", "C10", "fire", "C10.R4",
  (INFO, "        if n in self._types:\n            raise ZConfig.SchemaError(\"type name cannot be redefined: \"\n                                      + repr(typeinfo.name))\n", ""))
V("c10-unkeyed-wildcard-default", "C10", "fire", "C10.R5",
  (INFO, "        if self.name == \"+\" and key is None:", "        if self.name == \"+\" and key is None and False:"))
V("c10-second-default-ok", "C10", "fire", "C10.R5",
  (INFO, "        elif self._default is not None:\n            raise ZConfig.SchemaError(\n"
         "                \"cannot set more than one default to key with maxOccurs == 1\")\n        else:\n            self._default = vi",
         "        else:\n            self._default = vi"))
V("c10-stray-text-ok", "C10", "fire", "C10.R2",
  (SC, "        elif data.strip():\n            self.error(\"unexpected non-blank character data: \"\n                       + repr(data.strip()))\n", ""))
V("c10-nesting-unchecked", "C10", "fire", "C10.R2",
  (SC, "            if parent not in self._allowed_parents[name]:\n                self.error(\n"
       "                    f\"{name!r} elements may not be nested\"\n                    \" in {parent!r} elements\")\n", ""))
V("c10-key-in-abstracttype", "C10", "fire", "C10.R3",
  (SC, '        "key": ["schema", "sectiontype"],', '        "key": ["schema", "sectiontype", "abstracttype"],'))
V("c10-new-tag-no-handler", "C10", "fire", "C10.R1",
  (SC, '    _handled_tags = ("import", "abstracttype", "sectiontype",', '    _handled_tags = ("import", "abstracttype", "sectiontype", "include",'))
V("c10-component-skips-base", "C10", "fire", "C10.R8",
  (SC, "        self._check_not_toplevel(\"multikey\")\n        BaseParser.start_multikey(self, attrs)",
       "        self._check_not_toplevel(\"multikey\")"))
V("c10-error-wrong-class", "C10", "fire", "C10.R7",
  (SC, "        kind = kind or ZConfig.SchemaError", "        kind = kind or ZConfig.ConfigurationError"))
V("c10-raise-valueerror", "C10", "fire", "C10.R",
  (INFO, "            raise ZConfig.SchemaError(\n                \"child attribute name %s already used\" % info.attribute)",
         "            raise ValueError(\n                \"child attribute name %s already used\" % info.attribute)"))

# ---------------------------------------------------------------- C11
V("c11-keymap-not-copied", "C11", "fire", "C11.R",
  (INFO, "        t._keymap.update(base._keymap)\n", ""))
V("c11-derived-types-not-copied", "C11", "fire", "C11.R1",
  (INFO, "    new._types.update(base._types)\n", ""))
V("c11-defaults-on-shared-info", "C11", "fire", "C11.R2",
  (INFO, "                info = copy.copy(info)\n                info.computedefault(t.keytype)",
         "                info.computedefault(t.keytype)"))
V("c11-old-keytype", "C11", "fire", "C11.R2",
  (INFO, "                info.computedefault(t.keytype)", "                info.computedefault(base.keytype)"))
V("c11-prefix-bottom", "C11", "fire", "C11.R4",
  (SC, "        if name.startswith(\".\"):\n            return self._prefixes[-1] + name",
       "        if name.startswith(\".\"):\n            return self._prefixes[0] + name"))
V("c11-pop-missing", "C11", "fire", "C11.R4",
  (SC, "    def end_sectiontype(self):\n        self.pop_prefix()\n        self._stack.pop()",
       "    def end_sectiontype(self):\n        self._stack.pop()"))
V("c11-component-twice", "C11", "fire", "C11.R5",
  (SC, "            if not self._schema.hasComponent(src):\n                self._schema.addComponent(src)\n                self.loadComponent(src)",
       "            if True:\n                self.loadComponent(src)"))
V("c11-base-wins", "C11", "fire", "C11.R3",
  (SC, "        if attrkey in attrs:\n            dtname = self.get_classname(attrs[attrkey])\n        else:\n            convert = getattr(base, attrkey, None)\n            if convert is not None:\n                return convert\n            dtname = default",
       "        convert = getattr(base, attrkey, None)\n        if convert is not None:\n            return convert\n        if attrkey in attrs:\n            dtname = self.get_classname(attrs[attrkey])\n        else:\n            dtname = default"))
V("c11-valuetype-inherited", "C11", "fire", "C11.R3",
  (SC, "        valuetype = self.get_datatype(attrs, \"valuetype\", \"string\")",
       "        valuetype = self.get_datatype(attrs, \"valuetype\", \"string\", base)"))
V("c11-extends-own-schema", "C11", "fire", "C11.R6",
  (SC, "        parser = SchemaParser(self._loader, src, self)", "        parser = SchemaParser(self._loader, src)"))
V("c11-copy-idiom-ok", "C11", "silent", None,
  (INFO, "    new._children[:] = base._children\n", "    new._children.extend(base._children)\n"))

# ---------------------------------------------------------------- C12
V("c12-extender-implements", "C12", "fire", "C12.R1",
  (SC, "            sectinfo = self._schema.deriveSectionType(\n                base, name, keytype, valuetype, datatype)",
       "            sectinfo = self._schema.deriveSectionType(\n                base, name, keytype, valuetype, datatype)\n"
       "            for ifname, iface in self._schema.itertypes():\n                if iface.isabstract() and iface.hassubtype(base.name):\n                    iface.addsubtype(sectinfo)"))
V("c12-abstract-direct-ok", "C12", "fire", "C12.R2",
  (LD, "        if t.isabstract():\n            raise ZConfig.ConfigurationError(\n"
       "                \"concrete sections cannot match abstract section types;\"\n"
       "                \" found abstract type \" + repr(type_))\n", ""))
V("c12-import-on-app-schema", "C12", "fire", "C12.R3",
  (LD, "            schema = ZConfig.info.createDerivedSchema(self.schema)\n", "            schema = self.schema\n"))
V("c12-import-not-idempotent", "C12", "fire", "C12.R",
  (LD, "        if schema.hasComponent(url):\n            return\n", ""))
V("c12-nonpackage-ok", "C12", "fire", "C12.R6",
  (LD, "        if not hasattr(pkg, \"__path__\"):\n            raise ZConfig.SchemaResourceError(\n                \"import name does not refer to a package\",\n                filename=filename, package=package)\n        return f",
       "        return f"))
V("c12-schema-on-class", "C12", "fire", "C12.R",
  (LD, "            self._private_schema = True\n            self.schema = schema",
       "            self._private_schema = True\n            ConfigLoader.schema = schema\n            self.schema = schema"))
V("c12-addtype-on-app-schema", "C12", "fire", "C12.R",
  (LD, "        schema.addComponent(url)\n        with self.openResource(url) as resource:",
       "        schema.addComponent(url)\n        self._app_schema = getattr(self, '_app_schema', None) or schema\n        with self.openResource(url) as resource:"))

# ---------------------------------------------------------------- C13
V("c13-default-aliased", "C13", "fire", "C13.R2",
  (INFO, "        # list and dictionary cases:\n        return copy.copy(self._default)",
         "        # list and dictionary cases:\n        return self._default"))
V("c13-typenames-view", "C13", "fire", "C13.R2",
  (INFO, "        return list(self._types.keys())", "        return self._types"))
V("c13-derived-aliases-children", "C13", "fire", "C13.R7",
  (INFO, "    new._children[:] = base._children\n", "    new._children = base._children\n"))
V("c13-memo-before-success", "C13", "fire", "C13.R4",
  ("src/ZConfig/datatypes.py", "            v = self._conversion(value)\n            self._memo[value] = v\n            return v",
   "            self._memo[value] = None\n            v = self._conversion(value)\n            self._memo[value] = v\n            return v"))
V("c13-global-counter", "C13", "fire", "C13.R6",
  (MTF, "    def createValue(self):\n        return SectionValue(self._values, None, self)",
        "    def createValue(self):\n        global _created\n        _created = 1\n        return SectionValue(self._values, None, self)"))
V("c13-handlers-default-list", "C13", "fire", "C13.R",
  (MTF, "    def __init__(self, info, type_, handlers):\n        self.info = info",
        "    def __init__(self, info, type_, handlers=[]):\n        self.info = info"))
V("c13-matcher-writes-info", "C13", "fire", "C13.R1",
  (MTF, "        ci = self.type.getsectioninfo(type_, name)\n        attr = ci.attribute\n        v = self._values[attr]\n        if ci.ismulti():",
        "        ci = self.type.getsectioninfo(type_, name)\n        ci.sectiontype.addsubtype(self.type)\n        attr = ci.attribute\n        v = self._values[attr]\n        if ci.ismulti():"))
V("c13-cache-converted-default", "C13", "fire", "C13.R",
  (MTF, "                default = ci.getdefault()\n                if default is None:",
        "                default = ci.getdefault()\n                ci.adddefault('x', None)\n                if default is None:"))
V("c13-inplace-default-lists", "C13", "fire", "C13.R3",
  (MTF, "                    for key, val in v.items():\n                        v[key] = [vi.convert(ci.datatype) for vi in val]",
        "                    for val in v.values():\n                        val[:] = [vi.convert(ci.datatype) for vi in val]"))

# ------------------------------------------------- supporting functions
ZI = "src/ZConfig/__init__.py"
V("c08-dce-order", "C08", "fire", "C08.R",
  (ZI, "        self.lineno, self.colno, self.url = position", "        self.url, self.lineno, self.colno = position"))
V("c08-parseerror-swap", "C08", "fire", "C08.R2",
  (ZI, "        self.lineno = lineno\n        self.colno = colno\n        ConfigurationError.__init__(self, msg, url)",
       "        self.lineno = colno\n        self.colno = lineno\n        ConfigurationError.__init__(self, msg, url)"))
V("c04-replacement-error-fields", "C04", "fire", "C04.R4",
  (ZI, "        self.source = source\n        self.name = name\n", "        self.source = name\n        self.name = source\n"))
V("c01-unbounded-gt", "C01", "fire", "C01.R2",
  (INFO, "        if isinstance(other, self.__class__):\n            return False\n        return True",
         "        return False"))
V("c01-key-max-2", "C01", "fire", "C01.R2",
  (INFO, "        BaseKeyInfo.__init__(self, name, datatype, minOccurs, 1,\n                             handler, attribute)",
         "        BaseKeyInfo.__init__(self, name, datatype, minOccurs, 2,\n                             handler, attribute)"))
V("c01-section-not-section", "C01", "fire", "C01.R2",
  (INFO, "    def issection(self):\n        return True\n\n    def allowUnnamed(self):\n        return self.name == \"*\"",
         "    def issection(self):\n        return False\n\n    def allowUnnamed(self):\n        return self.name == \"*\""))
V("c13-registry-shared-stock", "C13", "fire", "C13.R5",
  (DT, "            stock = stock_datatypes.copy()", "            stock = stock_datatypes"))
V("c13-loadschema-shared-loader", "C13", "fire", "C13.R5",
  (LD, "    return SchemaLoader().loadURL(url)", "    return _shared_loader.loadURL(url)"),
  (LD, "def loadSchemaFile(file, url=None):", "_shared_loader = None\n\n\ndef loadSchemaFile(file, url=None):"))
V("c19-enter-none", "C19", "fire", "C19.R2",
  (LD, "    def __enter__(self):\n        return self", "    def __enter__(self):\n        return self.file"))
V("c09-regex-ignorecase", "C09", "fire", "C09.R4",
  (DT, "        self._rx = re.compile(regex)", "        self._rx = re.compile(regex, re.IGNORECASE)"))
V("c09-range-bounds-swapped", "C09", "fire", "C09.R4",
  (DT, "        self._min = min\n        self._max = max", "        self._min = max\n        self._max = min"))
V("c18-urlunsplit-slice", "C18", "fire", "C18.R2",
  ("src/ZConfig/url.py", "        url = \"file://\" + url[5:]  # pragma: no cover\n    return url\n\n\ndef urldefrag",
   "        url = \"file://\" + url[6:]  # pragma: no cover\n    return url\n\n\ndef urldefrag"))
V("c20-get-or-post-lower", "C20", "fire", "C20.R7",
  (LH, "    value = value.upper()\n    if value not in ('GET', 'POST'):", "    value = value.lower()\n    if value not in ('GET', 'POST'):"))
V("c20-smtp-either", "C20", "fire", "C20.R5",
  (LH, "        if (username or password) and not (username and password):", "        if (username and password) and not (username or password):"))
V("c20-http-url-no-path-ok", "C20", "fire", "C20.R7",
  (LH, "    if not path:\n        raise ValueError('url must specify a path')\n", ""))
V("c17-loadfile-shared-context", "C17", "fire", "C17.R3",
  (SLF, "    def __init__(self):\n        self.top = Section()\n        self.sections = []",
        "    top = Section()\n\n    def __init__(self):\n        self.sections = []"))
V("c07-gettype-unguarded", "C07", "fire", "C07.R5",
  (INFO, "        n = name.lower()\n        try:\n            return self._types[n]\n        except KeyError:\n            raise ZConfig.SchemaError(\"unknown type name: \" + repr(name))",
         "        n = name.lower()\n        return self._types[n]"))
V("c07-keypairs-unguarded", "C07", "fire", "C07.R5",
  (CM, "        if name in self.keypairs:\n            L = self.keypairs[name]\n        else:\n            L = []\n            self.keypairs[name] = L",
       "        L = self.keypairs[name]"))
V("c07-defines-get-ok", "C07", "silent", None,
  (CF, "        if defname in self.defines:\n            if self.defines[defname] != defvalue:",
       "        if defname in self.defines.keys():\n            if self.defines[defname] != defvalue:"))
LX = "src/ZConfig/components/logger/handlers.xml"
V("c20-xml-delay-string", "C20", "fire", "C20.R2",
  (LX, '<key name="delay" required="no" default="false" datatype="boolean">', '<key name="delay" required="no" default="false" datatype="string">'))
V("c20-xml-level-integer", "C20", "fire", "C20.R2",
  ("src/ZConfig/components/logger/base-logger.xml",
   'datatype="ZConfig.components.logger.datatypes.logging_level"', 'datatype="integer"'))
V("c20-xml-syslog-not-handler", "C20", "fire", "C20.R2",
  (LX, '  <sectiontype name="syslog"\n               datatype=".handlers.SyslogHandlerFactory"\n               implements="ZConfig.logger.handler"',
       '  <sectiontype name="syslog"\n               datatype=".handlers.SyslogHandlerFactory"'))

# ------------------------------------------------ session 4: new rules
CP = "src/ZConfig/cfgparser.py"
CM = "src/ZConfig/cmdline.py"
INFO = "src/ZConfig/info.py"

# C14.R9: a second rejecting call before the hand-over is a *new* violation
# next to the known finding (F24); a pure reordering of the two stores is not
V("c14-judged-before-dropped-2", "C14", "fire", "C14.R9",
  (CP, "        if not value:\n            value = ''\n        else:\n"
       "            value = self.replace(value)",
       "        if not value:\n            value = ''\n        else:\n"
       "            value = self.replace(value)\n"
       "        self.replace(key)"))
# C12.R9: the reset dropped from the top-level load / kept but after the parse
V("c12-no-reset", "C12", "fire", "C12.R9",
  (LD, "        self.schema = self._base_schema\n"
       "        self._private_schema = False\n"
       "        sm = self.createSchemaMatcher()",
       "        sm = self.createSchemaMatcher()"))
V("c12-flag-not-reset", "C12", "fire", "C12.R9",
  (LD, "        self.schema = self._base_schema\n"
       "        self._private_schema = False\n"
       "        sm = self.createSchemaMatcher()",
       "        self.schema = self._base_schema\n"
       "        sm = self.createSchemaMatcher()"))
V("c12-restore-after-ok", "C12", "silent", None,
  (LD, "        self.schema = self._base_schema\n"
       "        self._private_schema = False\n"
       "        sm = self.createSchemaMatcher()\n"
       "        self._open_urls.append(resource.url)\n"
       "        try:\n"
       "            self._parse_resource(sm, resource)\n"
       "        finally:\n"
       "            self._open_urls.pop()",
       "        self.schema = self._base_schema\n"
       "        self._private_schema = False\n"
       "        sm = self.createSchemaMatcher()\n"
       "        self._open_urls.append(resource.url)\n"
       "        try:\n"
       "            self._parse_resource(sm, resource)\n"
       "        finally:\n"
       "            self._open_urls.pop()\n"
       "            self._private_schema = False"))
# C12.R8 / C14.R8: another lookup through the stale snapshot
V("c12-stale-lookup-2", "C12", "fire", "C12.R8",
  (CM, "    def finish(self):\n        if self.sectitems or self.keypairs:",
       "    def finish(self):\n        self.schema.gettypenames()\n"
       "        if self.sectitems or self.keypairs:"))
# C13.R4 (structural): something that can fail after the memo store
V("c13-memo-store-early", "C13", "fire", "C13.R4",
  (DT, "            v = self._conversion(value)\n"
       "            self._memo[value] = v\n",
       "            self._memo[value] = None\n"
       "            v = self._conversion(value)\n"
       "            self._memo[value] = v\n"))
# C07.R1 implicit TypeError: None joined into a message
V("c07-join-none", "C07", "fire", "C07.R1",
  (LD, '                "recursive %include of " + url, url)',
       '                "recursive %include of " + " -> ".join(\n'
       '                    self._open_urls), url)'))
V("c07-join-guarded-ok", "C07", "silent", None,
  (LD, '                "recursive %include of " + url, url)',
       '                "recursive %include of " + " -> ".join(\n'
       '                    u for u in self._open_urls if u), url)'))
