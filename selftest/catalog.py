"""Self-test variants: textual edits applied to scratch copies of the tree.

Each entry: id, prop, expect ('fire' | 'silent'), rule (prefix expected among
the reported rules for 'fire'), edits = [(file, old, new)] where `old` must
occur exactly once (otherwise the variant is skipped as not applicable).
"""

VARIANTS = []


def V(id, prop, expect, rule, *edits):
    VARIANTS.append({"id": id, "prop": prop, "expect": expect, "rule": rule,
                     "edits": list(edits)})


DT = "src/ZConfig/datatypes.py"
LD = "src/ZConfig/loader.py"

# ---------------------------------------------------------------- C19
V("c19-include-no-with", "C19", "fire", "C19.R1",
  (LD, "        with self.openResource(url) as r:\n"
       "            self._parse_resource(section, r, defines)",
       "        r = self.openResource(url)\n"
       "        self._parse_resource(section, r, defines)\n"
       "        r.close()"))
V("c19-read-no-finally", "C19", "fire", "C19.R",
  (LD, "            try:\n                data = file.read()\n"
       "            finally:\n                file.close()",
       "            data = file.read()\n            file.close()"))
V("c19-exit-conditional", "C19", "fire", "C19.R2",
  (LD, "    def __exit__(self, t, v, tb):\n        self.close()",
       "    def __exit__(self, t, v, tb):\n        if t is None:\n"
       "            self.close()"))
V("c19-loadurl-early-return", "C19", "fire", "C19.R1",
  (LD, "        with self.openResource(url) as r:\n"
       "            return self.loadResource(r)",
       "        r = self.openResource(url)\n"
       "        result = self.loadResource(r)\n"
       "        r.close()\n        return result"))
V("c19-try-finally-equiv", "C19", "silent", None,
  (LD, "        with self.openResource(url) as r:\n"
       "            return self.loadResource(r)",
       "        r = self.openResource(url)\n        try:\n"
       "            return self.loadResource(r)\n        finally:\n"
       "            r.close()"))
V("c19-component-no-with", "C19", "fire", "C19.R1",
  ("src/ZConfig/schema.py",
   "        with self._loader.openResource(src) as r:\n"
   "            xml.sax.parse(r.file, parser)\n\n    def end_import",
   "        r = self._loader.openResource(src)\n"
   "        xml.sax.parse(r.file, parser)\n\n    def end_import"))

# ---------------------------------------------------------------- C09
V("c09-range-ge", "C09", "fire", "C09.R4",
  (DT, "v > self._max:", "v >= self._max:"))
V("c09-port-fff", "C09", "fire", "C09.R4", (DT, "max=0xffff", "max=0xfff"))
V("c09-host-slice", "C09", "fire", "C09.R6",
  (DT, "host = host[1:-1]", "host = host[1:]"))
V("c09-bool-nolower", "C09", "fire", "C09.R3",
  (DT, "ss = str(s).lower()", "ss = str(s)"))
V("c09-mb-decimal", "C09", "fire", "C09.R5",
  (DT, "'mb': 1024 * 1024,", "'mb': 1000 * 1000,"))
V("c09-basickey-underscore", "C09", "fire", "C09.R1",
  (DT, '"[a-zA-Z][-._a-zA-Z0-9]*"', '"[a-zA-Z][-.a-zA-Z0-9]*"'))
V("c09-basickey-equiv", "C09", "silent", None,
  (DT, '"[a-zA-Z][-._a-zA-Z0-9]*"', '"[A-Za-z][a-zA-Z0-9_.-]*"'))
V("c09-ident-digit-first", "C09", "fire", "C09.R1",
  (DT, '_ident_re = "[_a-zA-Z][_a-zA-Z0-9]*"',
       '_ident_re = "[_a-zA-Z0-9][_a-zA-Z0-9]*"'))
V("c09-ipv6-after-hostname", "C09", "fire", "C09.R1",
  (DT, '                r"|([0-9A-Fa-f:.]+:[0-9A-Fa-f:.]*)"\n'
       '                r"|([A-Za-z_][-A-Za-z0-9_.]*[-A-Za-z0-9_])"  # or hostname\n',
       '                r"|([A-Za-z_][-A-Za-z0-9_.]*[-A-Za-z0-9_])"  # or hostname\n'
       '                r"|([0-9A-Fa-f:.]+:[0-9A-Fa-f:.]*)"\n'))
V("c09-fullmatch-equiv", "C09", "silent", None,
  (DT, "        m = self._rx.match(value)\n        if m and m.group() == value:",
       "        m = self._rx.fullmatch(value)\n        if m:"))
V("c09-time-h", "C09", "fire", "C09.R5",
  (DT, "'h': 60 * 60,", "'h': 60 * 6,"))
V("c09-suffix-window", "C09", "fire", "C09.R5",
  (DT, "return int(v[:-self._keysz]) * m", "return int(v[:-1]) * m"))
V("c09-binding-default", "C09", "fire", "C09.R6",
  (DT, 'inet_binding_address = InetAddress("")',
       'inet_binding_address = InetAddress("localhost")'))
V("c09-socket-parser-swap", "C09", "fire", "C09.R6",
  (DT, "class SocketBindingAddress(SocketAddress):\n\n"
       "    def _parse_address(self, s):\n"
       "        return inet_binding_address(s)",
       "class SocketBindingAddress(SocketAddress):\n\n"
       "    def _parse_address(self, s):\n"
       "        return inet_connection_address(s)"))
V("c09-timedelta-swap", "C09", "fire", "C09.R7",
  (DT, "        elif suffix == 'h':\n            hours = val",
       "        elif suffix == 'h':\n            minutes = val"))
V("c09-bool-raise-key", "C09", "fire", "C09.R",
  (DT, 'raise ValueError("not a valid boolean value: " + repr(s))',
       'raise KeyError("not a valid boolean value: " + repr(s))'))
V("c09-registry-no-normalise", "C09", "fire", "C09.R8",
  (DT, "            name = self._basic_key(name)\n        t = self._stock.get(name)",
       "            pass\n        t = self._stock.get(name)"))
V("c09-inet-nolower", "C09", "fire", "C09.R6",
  (DT, "            host = host.lower()\n        else:",
       "            host = host\n        else:"))
V("c09-reorder-elif-equiv", "C09", "silent", None,
  (DT, "    if ss in ('yes', 'true', 'on'):\n        return True\n"
       "    elif ss in ('no', 'false', 'off'):\n        return False\n",
       "    if ss in ('off', 'no', 'false'):\n        return False\n"
       "    if ss in ('on', 'yes', 'true'):\n        return True\n"))
