def run(prop, root, jobs):
    return 0
