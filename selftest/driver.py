"""Thorough tier: run the rule set of a property on scratch variants of the
repository -- must-fire variants (one rule instance broken, still compiles)
and must-stay-silent variants (behaviour-preserving rewrites).

Scratch copies live under tempfile.mkdtemp() outside /repo and /verif and are
removed as soon as the variant has been analysed.
"""
import json
import multiprocessing
import os
import shutil
import subprocess
import sys
import tempfile
import time

HERE = os.path.dirname(os.path.dirname(os.path.abspath(__file__)))


def make_copy(root):
    tmp = tempfile.mkdtemp(prefix="zcv-")
    def ignore(d, names):
        return [n for n in names if n in ("tests", "__pycache__")
                or n.endswith(".pyc")]
    shutil.copytree(os.path.join(root, "src", "ZConfig"),
                    os.path.join(tmp, "src", "ZConfig"), ignore=ignore)
    if os.path.isdir(os.path.join(root, "docs")):
        shutil.copytree(os.path.join(root, "docs"),
                        os.path.join(tmp, "docs"), ignore=ignore)
    return tmp


def apply_edits(tmp, edits):
    """edits: list of (relative file, old, new).  Returns None or a reason
    why the variant does not apply to this tree."""
    for rel, old, new in edits:
        path = os.path.join(tmp, rel)
        if not os.path.exists(path):
            return "file %s missing" % rel
        with open(path, encoding="utf-8") as f:
            s = f.read()
        if s.count(old) != 1:
            return "anchor text occurs %d times in %s" % (s.count(old), rel)
        s = s.replace(old, new)
        with open(path, "w", encoding="utf-8") as f:
            f.write(s)
        if rel.endswith(".py"):
            try:
                compile(s, path, "exec")
            except SyntaxError as e:
                return "variant does not compile: %s" % e
    return None


def _one(args):
    prop, root, v = args
    tmp = make_copy(root)
    try:
        if v.get("patch"):
            r = subprocess.run(["patch", "-p1", "-s", "-i", v["patch"]],
                               cwd=tmp, capture_output=True, text=True)
            why = None if r.returncode == 0 else (
                "patch does not apply: " + (r.stdout + r.stderr)[-200:])
        else:
            why = apply_edits(tmp, v["edits"])
        if why:
            return dict(v, status="skipped", detail=why)
        ev = os.path.join(tmp, "ev")
        p = subprocess.run([os.path.join(HERE, "check"), prop, "--tier",
                            "quick", "--root", tmp, "--evidence-dir", ev],
                           capture_output=True, text=True, timeout=600)
        rules = []
        try:
            with open(os.path.join(ev, prop + ".json")) as f:
                e = json.load(f)
            rules = sorted({x["rule"] for x in
                            e["coverage"]["new_violations"]})
        except Exception:
            pass
        if v["expect"] == "fire":
            ok = p.returncode == 1 and (
                not v.get("rule") or any(r.startswith(v["rule"])
                                         for r in rules))
        elif v["expect"] == "nofire":
            # a behaviour-preserving refactoring: no violation may be
            # reported (no verdict -- exit 2 -- is recorded, not a failure)
            ok = p.returncode != 1
        else:
            ok = p.returncode == 0
        return dict(v, status="ok" if ok else "FAILED", exit=p.returncode,
                    rules=rules, detail=p.stdout[-1500:] if not ok else "")
    finally:
        shutil.rmtree(tmp, ignore_errors=True)


def run_selftests(prop, root, jobs=16, run=None):
    from selftest import catalog
    variants = [v for v in catalog.VARIANTS if v["prop"] == prop]
    # the kept changes of independent sub-agents: every seeded change of this
    # property must fire, no behaviour-preserving refactoring may
    import glob
    for d in sorted(glob.glob(os.path.join(HERE, "seeded", prop + "-*"))):
        pf = os.path.join(d, "patch.diff")
        if os.path.exists(pf):
            variants.append({"id": "seeded:" + os.path.basename(d),
                             "prop": prop, "expect": "fire", "patch": pf})
    for pf in sorted(glob.glob(os.path.join(HERE, "benign", "*.diff"))):
        variants.append({"id": "benign:" + os.path.basename(pf)[:-5],
                         "prop": prop, "expect": "nofire", "patch": pf})
    t0 = time.time()
    if not variants:
        print("%s thorough: no self-test variants registered" % prop)
    results = []
    if variants:
        with multiprocessing.Pool(min(jobs, len(variants))) as pool:
            results = pool.map(_one, [(prop, root, v) for v in variants])
    failed = [r for r in results if r["status"] == "FAILED"]
    skipped = [r for r in results if r["status"] == "skipped"]
    for r in results:
        print("  selftest %-8s %-6s %-28s %s" % (r["status"], r["expect"],
                                                 r["id"], r.get("rules", "")))
    for r in failed:
        print("SELFTEST-FAIL property=%s variant=%s expect=%s exit=%s\n%s"
              % (prop, r["id"], r["expect"], r.get("exit"), r["detail"]))
    for r in skipped:
        print("  (variant %s does not apply to this tree: %s)"
              % (r["id"], r["detail"]))
    print("%s thorough: %d variants, %d ok, %d failed, %d skipped, %.1fs"
          % (prop, len(results), len(results) - len(failed) - len(skipped),
             len(failed), len(skipped), time.time() - t0))
    # validate the regex engine against CPython's re (where the property's
    # rules use it)
    engine = None
    try:
        from selftest import enginecheck
        from zcstatic.model import Model
        n_cmp, disagreements = enginecheck.run(prop, Model(root))
        if n_cmp:
            engine = {"comparisons_with_re": n_cmp,
                      "disagreements": [list(map(str, d))
                                        for d in disagreements[:10]]}
            print("%s thorough: regex engine vs re: %d comparisons, %d "
                  "disagreements" % (prop, n_cmp, len(disagreements)))
            if disagreements:
                print("ANALYSIS-ERROR property=%s the regex engine disagrees "
                      "with CPython's re: %s" % (prop, disagreements[:3]))
                failed.append({"id": "engine-vs-re"})
    except Exception as e:  # pragma: no cover
        print("ANALYSIS-ERROR property=%s engine validation crashed: %s"
              % (prop, e))
        failed.append({"id": "engine-vs-re"})
    # extend the evidence file written by the quick pass
    try:
        path = os.path.join(HERE, "evidence", prop + ".json")
        with open(path) as f:
            ev = json.load(f)
        ev["tier"] = "thorough"
        ev["coverage"]["selftest"] = {
            "variants": len(results),
            "must_fire": sum(1 for r in results if r["expect"] == "fire"),
            "must_stay_silent": sum(1 for r in results
                                    if r["expect"] in ("silent", "nofire")),
            "no_verdict_on_refactoring": [
                r["id"] for r in results
                if r["expect"] == "nofire" and r.get("exit") == 2],
            "ok": len(results) - len(failed) - len(skipped),
            "failed": [r["id"] for r in failed],
            "skipped": [r["id"] for r in skipped],
            "results": [{"id": r["id"], "expect": r["expect"],
                         "status": r["status"], "rules": r.get("rules")}
                        for r in results]}
        if engine:
            ev["coverage"]["engine_validation"] = engine
        ev["wall_s"] = round(ev["wall_s"] + time.time() - t0, 3)
        with open(path, "w") as f:
            json.dump(ev, f, indent=1)
    except Exception as e:  # pragma: no cover
        print("ANALYSIS-ERROR could not extend evidence: %s" % e)
        return 2
    return 2 if failed else 0
