"""Thorough tier: run the rule set on must-fire / must-stay-silent variants."""


def run_selftests(prop, root, jobs=16, run=None):
    from selftest import variants
    return variants.run(prop, root, jobs)
