"""Thorough tier: validate the regex engine's model of CPython matching
against `re` itself on all words of bounded length over one representative per
alphabet atom.  This validates the analyser; it decides no property."""
import itertools
import re

from zcstatic import strlang as S


def tagged_run(t, atoms):
    """Unique accepting run of the tagged DFA on the atom word, as
    (group -> (start, end)), match end; or None when the input has no match."""
    END = S.TaggedDFA.END
    n = len(atoms)
    best = None
    stack = [(0, 0, {}, None)]   # state, position, spans, match_end
    while stack:
        s, i, spans, mend = stack.pop()
        if i == n and mend is not None and s in t.accept:
            return spans, mend
        for (tags, a), tgt in t.trans[s].items():
            if a == END:
                if mend is not None:
                    continue
                sp = dict(spans)
                for kind, name in tags:
                    st, en = sp.get(name, (None, None))
                    sp[name] = (i, en) if kind == "open" else (st, i)
                stack.append((tgt, i, sp, i))
            elif i < n and a == atoms[i]:
                if mend is not None and tags:
                    continue
                sp = dict(spans)
                for kind, name in tags:
                    st, en = sp.get(name, (None, None))
                    sp[name] = (i, en) if kind == "open" else (st, i)
                stack.append((tgt, i + 1, sp, mend))
    return best


def validate_tagged(pattern, maxlen=5, extra_chars=""):
    ab = S.Alphabet(S.charsets_of_pattern(pattern)
                    + [S.cs_of(c) for c in extra_chars])
    t = S.lang_tagged(pattern, ab, first=True)
    rx = re.compile(pattern)
    names = list(rx.groupindex)
    n = 0
    bad = []
    for L in range(maxlen + 1):
        for w in itertools.product(range(ab.n), repeat=L):
            s = ab.word(w)
            m = rx.match(s)
            r = tagged_run(t, list(w))
            n += 1
            if m is None:
                if r is not None:
                    bad.append((s, None, r))
                continue
            if r is None:
                bad.append((s, m.span(), None))
                continue
            spans, mend = r
            if mend != m.end():
                bad.append((s, m.end(), mend))
                continue
            for g in names:
                want = m.span(g)
                got = spans.get(g, (-1, -1))
                if want != got:
                    bad.append((s, g, want, got))
    return n, bad


def run(prop, ctx_model):
    """Returns (number of comparisons, list of disagreements)."""
    from rules import c03, c04, c09
    total, bad = 0, []

    class Ctx:
        model = ctx_model
    ctx = Ctx()
    if prop in ("C03", "C17", "C15"):
        for name in ("_keyvalue_rx", "_section_start_rx"):
            pat = c03.compiled_pattern(ctx, name)
            n, b = validate_tagged(pat, 5, "()/")
            total += n
            bad += [(name,) + x for x in b]
        for pat in (c03.REF_SECTION,):
            n, b = validate_tagged(pat, 5, "()/")
            total += n
            bad += [("reference",) + x for x in b]
    if prop in ("C04", "C05"):
        pat, _ = c04.name_pattern(ctx)
        ab = S.Alphabet(S.charsets_of_pattern(pat) + [((0, 127),)])
        for sem in ("first", "full"):
            n, b = S.validate_against_re(pat, ab, 5, sem)
            total += n
            bad += [(pat, sem) + x for x in b]
    if prop == "C09":
        class C2:
            model = ctx_model
        mod, stock = c09.stock_table(C2())
        import ast
        for name, node in stock.items():
            if isinstance(node, ast.Call):
                cq = ctx_model.resolve(mod, node.func)
                if cq in ctx_model.classes:
                    pat = c09.pattern_of_class(C2(), cq)
                    if pat:
                        ab = S.Alphabet(S.charsets_of_pattern(pat))
                        ml = 4 if ab.n > 8 else 6
                        n, b = S.validate_against_re(pat, ab, ml, "first")
                        total += n
                        bad += [(name,) + x for x in b]
        for name, pat in c09.REFERENCE_LANG.items():
            ab = S.Alphabet(S.charsets_of_pattern(pat))
            ml = 4 if ab.n > 8 else 6
            n, b = S.validate_against_re(pat, ab, ml, "full")
            total += n
            bad += [("ref " + name,) + x for x in b]
    if prop == "C09":
        # the engine's model of re.IGNORECASE (scoped and global), including
        # the non-ASCII characters that case-fold onto ASCII letters
        for pat in (r"(?i:[_a-z][_a-z0-9]*)", r"(?i)k[a-c]s", r"[A-Z](?i:x)y",
                    r"(?i:[^a-z])+"):
            ab = S.Alphabet(S.charsets_of_pattern(pat) + [
                S.cs_of("\u0130"), S.cs_of("\u0131"), S.cs_of("\u017f"),
                S.cs_of("\u212a"), S.cs_of("K"), S.cs_of("s"),
                S.cs_of("_"), S.cs_of("0")])
            ml = 3 if ab.n > 8 else 4
            for sem in ("first", "full"):
                n, b = S.validate_against_re(pat, ab, ml, sem)
                total += n
                bad += [("ignorecase " + pat, sem) + x for x in b]
    if prop == "C03":
        # the engine's model of re.ASCII (categories and case folding)
        for pat in (r"(?a)[^\s()]+\s*\S.*", r"(?a)\w+\d\W", r"(?ai)[k-s]+\s",
                    r"(?ai)[^a-z]\w"):
            ab = S.Alphabet(S.charsets_of_pattern(pat) + [
                S.cs_of("\u001c"), S.cs_of("\u00a0"), S.cs_of("\u0661"),
                S.cs_of("\u00e9"), S.cs_of("\u212a"), S.cs_of("\u017f"),
                S.cs_of("K"), S.cs_of("s"), S.cs_of("_"), S.cs_of("0"),
                S.cs_of(" ")])
            ml = 3 if ab.n > 8 else 4
            for sem in ("first", "full"):
                n, b = S.validate_against_re(pat, ab, ml, sem)
                total += n
                bad += [("ascii " + pat, sem) + x for x in b]
    if prop == "C18":
        pat = r"[a-zA-Z][-+.a-zA-Z0-9]*:"
        n, b = validate_tagged("(?P<m>%s)" % pat, 5, ":")
        total += n
        bad += [("pathsep",) + x for x in b]
    return total, bad
