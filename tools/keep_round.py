#!/venv/bin/python
"""tools/keep_round.py <round> [prop...]: run keep_seed.py for every finished
sub-agent output directory /tmp/seed<round>-<prop> (notes.json present) whose
letters are not kept yet."""
import glob
import json
import os
import subprocess
import sys

HERE = os.path.dirname(os.path.dirname(os.path.abspath(__file__)))
rnd = sys.argv[1]
want = sys.argv[2:]
for d in sorted(glob.glob("/tmp/seed%s-C*" % rnd)):
    prop = d.rsplit("-", 1)[1]
    if want and prop not in want:
        continue
    if not os.path.exists(os.path.join(d, "notes.json")):
        continue
    for diff in sorted(glob.glob(os.path.join(d, "*.diff"))):
        var = os.path.basename(diff)[:-5]
        if os.path.exists(os.path.join(HERE, "seeded", "%s-%s" % (prop, var),
                                       "meta.json")) and not want:
            continue
        p = subprocess.run([os.path.join(HERE, "tools", "keep_seed.py"), prop,
                            var, rnd], capture_output=True, text=True)
        print(p.stdout.strip()[:1500], p.stderr.strip()[:500])
