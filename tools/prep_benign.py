#!/venv/bin/python
"""tools/prep_benign.py <round>: worktrees + prompts for behaviour-preserving
refactoring agents (false-alarm test)."""
import os
import subprocess
import sys

GROUPS = {
    "b1": "src/ZConfig/cfgparser.py, src/ZConfig/substitution.py, src/ZConfig/schemaless.py",
    "b2": "src/ZConfig/matcher.py, src/ZConfig/cmdline.py",
    "b3": "src/ZConfig/info.py",
    "b4": "src/ZConfig/schema.py",
    "b5": "src/ZConfig/loader.py, src/ZConfig/url.py, src/ZConfig/validator.py, src/ZConfig/__init__.py",
    "b6": "src/ZConfig/datatypes.py, src/ZConfig/components/logger/*.py",
}
PROMPT = """You work ONLY in the scratch git worktree {wt} (a checkout of zopefoundation/ZConfig, a pure-Python configuration library; sources in src/ZConfig). Never touch /repo or /verif and do not read anything under /verif.

Task: write 5 DIFFERENT behaviour-preserving refactorings of the library source in these files: {files}. Each refactoring is the kind of clean-up a maintainer would plausibly commit, and must keep EVERY observable behaviour exactly the same for every input (same results, same exception classes and attributes such as lineno/url, same ordering of side effects, same objects shared or copied). Exception messages must also stay the same. Make them moderately invasive so they exercise a static analyser's robustness, e.g.: extract a few statements into a new private helper method or module function (or inline a small private helper into its single caller), replace a loop by a comprehension or vice versa, restructure if/elif chains into early returns or guard clauses, introduce/rename local variables, rename a PRIVATE (underscore) helper function or private instance attribute consistently at all its uses, swap operand order of ==, replace `x[:1] == c` by `x.startswith(c)`, `len(x) == 0` by `not x`, `dict.get` vs `in`, `try/finally` vs `with`, reorder two independent statements, hoist a repeated expression into a local, convert %-formatting to f-strings with identical text, split a long function into two. Each of the 5 should touch 1-3 functions and use a different mix of such transformations. {extra}Do NOT change public names, signatures, documented behaviour, or anything under tests.

For each refactoring (names R1..R5):
1. Start clean (git -C {wt} checkout -- .), make the edit, run the tests: cd {wt} && PYTHONPATH={wt}/src /venv/bin/python -m pytest -q -p no:cacheprovider src/ZConfig 2>&1 | tail -3  (must give the same result as the clean tree: one pre-existing failure in test_validator test_schema_only at most, everything else passes).
2. Re-read your diff critically and convince yourself the behaviour is identical on all inputs, including error paths (which exception is raised first when several checks fail, what state is left behind on an exception). If in doubt, make it simpler.
3. Save: mkdir -p {out}; git -C {wt} diff > {out}/{grp}-R<n>.diff ; then git -C {wt} checkout -- .

Finally write {out}/{grp}-notes.json: {{"R1": "<one-line description>", ...}}. Leave the worktree clean. Final answer: one line per refactoring.
"""
rnd = sys.argv[1]
os.makedirs("/tmp/prompts", exist_ok=True)
for grp, files in GROUPS.items():
    wt = "/tmp/wtb%s-%s" % (rnd, grp)
    if not os.path.exists(wt):
        subprocess.run(["git", "-C", "/repo", "worktree", "add", "-f",
                        "--detach", wt, "HEAD"], check=True,
                       capture_output=True)
    with open("/tmp/prompts/b%s-%s.txt" % (rnd, grp), "w") as f:
        f.write(PROMPT.format(wt=wt, files=files, out="/tmp/benign%s" % rnd,
                              grp=grp, extra=os.environ.get("BENIGN_EXTRA", "")))
print("ok")
