#!/venv/bin/python
"""tools/show.py <patch> <prop>[,<prop>]: apply the patch to a scratch copy and
print the findings of the given checks (for triage)."""
import os, shutil, subprocess, sys, tempfile
HERE = os.path.dirname(os.path.dirname(os.path.abspath(__file__)))
tmp = tempfile.mkdtemp(prefix="zcshow-")
try:
    subprocess.run("git -C /repo archive HEAD | tar -x -C %s" % tmp, shell=True, check=True)
    subprocess.run(["patch", "-p1", "-s", "-i", os.path.abspath(sys.argv[1])], cwd=tmp, check=True)
    for p in sys.argv[2].split(","):
        r = subprocess.run([os.path.join(HERE, "check"), p, "--root", tmp, "--evidence-dir", os.path.join(tmp, "ev")], capture_output=True, text=True)
        lim = int(sys.argv[3]) if len(sys.argv) > 3 else 1200
        for l in r.stdout.splitlines():
            if l.startswith("  C") or "ANALYSIS-ERROR" in l or l.startswith("    witness") or l.startswith("    construct"):
                print(l[:lim])
        print("exit", r.returncode)
finally:
    shutil.rmtree(tmp, ignore_errors=True)
