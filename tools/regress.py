#!/venv/bin/python
"""tools/regress.py [seeded|benign|all] [-k substr]: evaluate every kept
seeded change (own check must exit 1) and every behaviour-preserving
refactoring (every check must exit 0) against the current checks, several at a
time; prints one line per item that does not meet its expectation and a
summary.  Does not rewrite meta.json (tools/reeval_seeds.py does)."""
import glob
import json
import os
import subprocess
import sys
from concurrent.futures import ThreadPoolExecutor

HERE = os.path.dirname(os.path.dirname(os.path.abspath(__file__)))


def ev(patch):
    p = subprocess.run([os.path.join(HERE, "tools", "eval_seed.py"), patch],
                       capture_output=True, text=True)
    txt = p.stdout
    try:
        body = txt.split("\n--- ")[0]
        return json.loads(body[body.index("{"):body.rindex("}") + 1]), txt
    except Exception:
        return None, txt + p.stderr


def main():
    what = sys.argv[1] if len(sys.argv) > 1 else "all"
    sub = sys.argv[3] if len(sys.argv) > 3 and sys.argv[2] == "-k" else ""
    items = []
    if what in ("seeded", "all"):
        for d in sorted(glob.glob(os.path.join(HERE, "seeded", "C*"))):
            items.append(("seed", os.path.basename(d),
                          os.path.join(d, "patch.diff")))
    if what in ("benign", "all"):
        for f in sorted(glob.glob(os.path.join(HERE, "benign", "*.diff"))):
            items.append(("benign", os.path.basename(f)[:-5], f))
    items = [i for i in items if sub in i[1]]

    def one(it):
        kind, name, patch = it
        return it, ev(patch)
    bad = 0
    with ThreadPoolExecutor(5) as ex:
        for (kind, name, patch), (res, txt) in ex.map(one, items):
            if res is None:
                print(name, "EVAL FAILED", txt[:300])
                bad += 1
                continue
            fired, err = res["fired"], res["analysis_error"]
            if kind == "seed":
                own = name.split("-")[0]
                if own not in fired:
                    bad += 1
                    print("MISS  %s own check silent; fired=%s exit2=%s"
                          % (name, fired, err))
            else:
                if fired or err:
                    bad += 1
                    print("ALARM %s fired=%s exit2=%s" % (name, fired, err))
                    for l in txt.splitlines():
                        if "ANALYSIS-ERROR" in l and "floor" not in l \
                                and "registered" not in l:
                            print("      " + l[:300])
    print("%d items, %d not as expected" % (len(items), bad))


if __name__ == "__main__":
    main()
