#!/venv/bin/python
"""Evaluate a seeded change: tools/eval_seed.py <patch.diff> [--demo demo.py]

Applies the patch to a scratch copy of /repo (never to /repo itself), runs
every check's quick tier against the copy and prints which checks fire; with
--demo also confirms that the demonstration fails with the change and passes
without it, and with --tests that the baseline test suite still passes.
The scratch copy is removed afterwards.
"""
import argparse
import json
import os
import shutil
import subprocess
import sys
import tempfile
from concurrent.futures import ThreadPoolExecutor

HERE = os.path.dirname(os.path.dirname(os.path.abspath(__file__)))


def main():
    ap = argparse.ArgumentParser()
    ap.add_argument("patch")
    ap.add_argument("--demo")
    ap.add_argument("--tests", action="store_true")
    ap.add_argument("--props", default="")
    args = ap.parse_args()
    tmp = tempfile.mkdtemp(prefix="zcseed-")
    try:
        subprocess.run("git -C /repo archive HEAD | tar -x -C %s" % tmp,
                       shell=True, check=True)
        out = {}
        if args.demo:
            p = subprocess.run(["/venv/bin/python", args.demo],
                               env=dict(os.environ,
                                        PYTHONPATH=os.path.join(tmp, "src")),
                               capture_output=True, text=True, cwd=tmp)
            out["demo_clean_exit"] = p.returncode
        r = subprocess.run(["patch", "-p1", "-s", "-i",
                            os.path.abspath(args.patch)], cwd=tmp,
                           capture_output=True, text=True)
        if r.returncode != 0:
            print("PATCH DOES NOT APPLY:", r.stdout, r.stderr)
            return 2
        if args.demo:
            p = subprocess.run(["/venv/bin/python", args.demo],
                               env=dict(os.environ,
                                        PYTHONPATH=os.path.join(tmp, "src")),
                               capture_output=True, text=True, cwd=tmp)
            out["demo_patched_exit"] = p.returncode
            out["demo_patched_out"] = (p.stdout + p.stderr)[-300:]
        if args.tests:
            p = subprocess.run(
                "cd %s && /venv/bin/python -m pytest -q -p no:cacheprovider "
                "src/ZConfig --deselect src/ZConfig/tests/test_validator.py::"
                "TestValidator::test_schema_only 2>&1 | tail -1" % tmp,
                shell=True, capture_output=True, text=True,
                env=dict(os.environ, PYTHONPATH=os.path.join(tmp, "src")),
                stdin=subprocess.DEVNULL)
            out["tests"] = p.stdout.strip()
        props = args.props.split(",") if args.props else [
            "C%02d" % i for i in range(1, 21)]

        def one(pid):
            ev = os.path.join(tmp, "ev-" + pid)
            p = subprocess.run([os.path.join(HERE, "check"), pid, "--root",
                                tmp, "--evidence-dir", ev],
                               capture_output=True, text=True)
            rules = []
            try:
                e = json.load(open(os.path.join(ev, pid + ".json")))
                rules = sorted({x["rule"] for x in
                                e["coverage"]["new_violations"]})
            except Exception:
                pass
            return pid, p.returncode, rules, p.stdout
        with ThreadPoolExecutor(16) as ex:
            res = list(ex.map(one, props))
        fired = {pid: rules for pid, code, rules, _ in res if code == 1}
        errs = [pid for pid, code, rules, _ in res if code == 2]
        out["fired"] = fired
        out["analysis_error"] = errs
        print(json.dumps(out, indent=1, ensure_ascii=False))
        if errs:
            for pid, code, rules, so in res:
                if code == 2:
                    print("---", pid)
                    print("\n".join(l for l in so.splitlines()
                                    if "ANALYSIS-ERROR" in l)[:600])
        return 0
    finally:
        shutil.rmtree(tmp, ignore_errors=True)


if __name__ == "__main__":
    sys.exit(main())
