#!/venv/bin/python
"""tools/rebase_patches.py [--write]: find kept patches (seeded/*/patch.diff,
benign/*.diff) that no longer apply to /repo HEAD, and re-base each by a
three-way merge: apply it to the newest ancestor of HEAD it applies to, merge
the result with HEAD's version of every touched file (git merge-file), and
write the patch anew relative to HEAD.  Conflicts are reported, nothing is
written for them.  A re-based seeded change must be re-confirmed
(tools/keep_seed-style: demo and tests) -- done here with --write."""
import glob
import json
import os
import shutil
import subprocess
import sys
import tempfile

HERE = os.path.dirname(os.path.dirname(os.path.abspath(__file__)))


def sh(cmd, **kw):
    return subprocess.run(cmd, shell=True, capture_output=True, text=True,
                          **kw)


def tree(rev, dst):
    os.makedirs(dst)
    sh("git -C /repo archive %s | tar -x -C %s" % (rev, dst))


def applies(patch, root):
    return sh("patch -p1 -s --dry-run -i %s" % patch, cwd=root).returncode == 0


def main():
    write = "--write" in sys.argv
    tmp = tempfile.mkdtemp(prefix="zcrebase-")
    try:
        head = os.path.join(tmp, "head")
        tree("HEAD", head)
        revs = sh("git -C /repo log --format=%h -8").stdout.split()[1:]
        olds = {}
        items = sorted(glob.glob(os.path.join(HERE, "seeded", "*",
                                              "patch.diff"))) + sorted(
            glob.glob(os.path.join(HERE, "benign", "*.diff")))
        for patch in items:
            if applies(patch, head):
                continue
            name = os.path.relpath(patch, HERE)
            base = None
            for r in revs:
                if r not in olds:
                    olds[r] = os.path.join(tmp, "old-" + r)
                    tree(r, olds[r])
                if applies(patch, olds[r]):
                    base = r
                    break
            if base is None:
                print("NO-BASE  %s applies to none of %s" % (name, revs))
                continue
            work = os.path.join(tmp, "work")
            shutil.rmtree(work, ignore_errors=True)
            shutil.copytree(olds[base], work)
            sh("patch -p1 -s -i %s" % patch, cwd=work)
            files = [l[6:].strip().split("\t")[0] for l in open(patch)
                     if l.startswith("+++ b/")]
            new = os.path.join(tmp, "new")
            shutil.rmtree(new, ignore_errors=True)
            shutil.copytree(head, new)
            conflict = False
            for f in files:
                r = sh("git merge-file -p %s %s %s" % (
                    os.path.join(work, f), os.path.join(olds[base], f),
                    os.path.join(head, f)))
                if r.returncode != 0:
                    conflict = True
                    break
                with open(os.path.join(new, f), "w") as fh:
                    fh.write(r.stdout)
            if conflict:
                print("CONFLICT %s (base %s, file %s)" % (name, base, f))
                continue
            out = []
            for f in files:
                d = sh("diff -u %s %s" % (os.path.join(head, f),
                                          os.path.join(new, f))).stdout
                d = d.replace("--- " + os.path.join(head, f), "--- a/" + f, 1)
                d = d.replace("+++ " + os.path.join(new, f), "+++ b/" + f, 1)
                out.append(d)
            newpatch = "".join(out)
            ok = True
            note = ""
            if "/seeded/" in patch and write:
                demo = os.path.join(os.path.dirname(patch), "demo.py")
                env = dict(os.environ, PYTHONPATH=os.path.join(new, "src"))
                p1 = subprocess.run(["/venv/bin/python", demo], env=dict(
                    os.environ, PYTHONPATH=os.path.join(head, "src")),
                    capture_output=True, text=True, cwd=head)
                p2 = subprocess.run(["/venv/bin/python", demo], env=env,
                                    capture_output=True, text=True, cwd=new)
                t = sh("cd %s && /venv/bin/python -m pytest -q -p "
                       "no:cacheprovider src/ZConfig --deselect src/ZConfig/"
                       "tests/test_validator.py::TestValidator::"
                       "test_schema_only 2>&1 | tail -1" % new, env=env)
                ok = p1.returncode == 0 and p2.returncode != 0 \
                    and " failed" not in t.stdout and "passed" in t.stdout
                note = "demo clean=%d patched=%d tests=%s" % (
                    p1.returncode, p2.returncode, t.stdout.strip()[:40])
            print("%s %s (base %s) %s" % ("REBASED " if ok else "UNCONFIRMED",
                                          name, base, note))
            if write and ok:
                with open(patch, "w") as fh:
                    fh.write(newpatch)
                mp = os.path.join(os.path.dirname(patch), "meta.json")
                if "/seeded/" in patch and os.path.exists(mp):
                    meta = json.load(open(mp))
                    meta["rebased"] = (meta.get("rebased") or "") + \
                        " re-based onto /repo %s by three-way merge; demo " \
                        "and tests re-confirmed (%s)" % (
                            sh("git -C /repo log -1 --format=%h")
                            .stdout.strip(), note)
                    json.dump(meta, open(mp, "w"), indent=1,
                              ensure_ascii=False)
    finally:
        shutil.rmtree(tmp, ignore_errors=True)


if __name__ == "__main__":
    main()
