#!/venv/bin/python
"""tools/eval_refactor.py <dir with R*.diff>: apply each behaviour-preserving
refactoring to a scratch copy and run all quick checks; anything but exit 0 is
a false alarm (exit 1) or a loss of verdict (exit 2)."""
import glob
import json
import os
import subprocess
import sys

HERE = os.path.dirname(os.path.dirname(os.path.abspath(__file__)))
for patch in sorted(glob.glob(os.path.join(sys.argv[1], "*R[0-9].diff"))):
    p = subprocess.run([os.path.join(HERE, "tools", "eval_seed.py"), patch],
                       capture_output=True, text=True)
    txt = p.stdout
    try:
        res = json.loads(txt[txt.index("{"):txt.rindex("}") + 1])
    except Exception:
        print(os.path.basename(patch), "EVAL FAILED", txt[:300], p.stderr[:300])
        continue
    print(os.path.basename(patch), "fired:", res["fired"], "exit2:",
          res["analysis_error"])
    if res["analysis_error"]:
        print("   ", "\n    ".join(l[:260] for l in txt.splitlines()
                                   if "ANALYSIS-ERROR" in l and "floor" not in l
                                   and "registered" not in l)[:1200])
