#!/venv/bin/python
"""tools/prep_round.py <round> <prop>... : create a scratch worktree of /repo
per property under /tmp/wt<round>-<prop> and print the sub-agent prompt (the
property text only; nothing from /verif)."""
import json
import os
import subprocess
import sys

HERE = os.path.dirname(os.path.dirname(os.path.abspath(__file__)))


def prompt(rnd, p, letters):
    wt = "/tmp/wt%s-%s" % (rnd, p["id"])
    out = "/tmp/seed%s-%s" % (rnd, p["id"])
    return PROMPT.format(wt=wt, out=out, title=p["title"],
                         statement=p["statement"],
                         quantifier=p.get("quantifier", ""),
                         why=p.get("why_tests_cant", ""),
                         anchors=json.dumps(p.get("anchors"), indent=1),
                         letters=", ".join(letters),
                         l0=letters[0], n=len(letters),
                         extra=os.environ.get("SEED_EXTRA", ""))


PROMPT = """You are helping to evaluate a verification tool. You work ONLY in the scratch git worktree {wt} (a checkout of zopefoundation/ZConfig, a pure-Python configuration library; sources in src/ZConfig, docs in docs/). Never touch /repo or /verif and do not read anything under /verif.

Here is a semantic property of ZConfig that is supposed to hold for every input:

TITLE: {title}

STATEMENT: {statement}

QUANTIFIER: {quantifier}

WHY TESTS CANNOT SETTLE IT: {why}

ANCHORS (where the behaviour lives): {anchors}

Your task: write {n} DIFFERENT realistic changes to the library source (under src/ZConfig, not the tests) that each BREAK this property, while the code still imports and the whole existing test suite still passes. Think of the kind of change a well-meaning maintainer could make: a refactoring slip, an "optimisation", a reordered check, a changed default, a cache, a copy that became an alias, a condition that is slightly too wide or too narrow, an off-by-one, two sites that each look fine alone but disagree. Each change must need something SPECIFIC to manifest (an unusual input, a multi-step sequence of operations, a particular nesting/ordering, two cooperating sites) - NOT something ordinary use would expose at once. The {n} changes must be in different functions (preferably different modules or different clauses of the property) and break the property in different ways. {extra} Prefer subtle semantic edits over deleting whole features. Avoid changes that merely alter an error message's wording.

For each change (letters {letters}):
1. Start from a clean tree (git -C {wt} checkout -- . ), make the edit, and run the test suite: cd {wt} && PYTHONPATH={wt}/src /venv/bin/python -m pytest -q -p no:cacheprovider src/ZConfig 2>&1 | tail -3   (it must show the same result as the unmodified tree: everything passes, apart from at most the one test that already fails on the clean tree - check that first).
2. Write a stand-alone demonstration program {out}/<letter>_demo.py that uses only the public behaviour of ZConfig (import ZConfig from PYTHONPATH; do not hard-code {wt}), exits 0 on the unmodified tree and exits non-zero (printing what went wrong) with the change. Run it both ways: PYTHONPATH={wt}/src /venv/bin/python {out}/<letter>_demo.py
3. Save the change as a patch: git -C {wt} diff > {out}/<letter>.diff  and then restore the tree (git -C {wt} checkout -- .).

Finally write {out}/notes.json: an object with one key per letter, each {{"summary": "<what was changed, where, and what wrong behaviour results>", "needs": "<what specific input/sequence is needed for it to manifest>", "files": ["src/ZConfig/..."]}}.

Create {out} with mkdir -p first. Leave the worktree clean when you are done. Your final answer should be a short list: per letter, one line on what the change is and confirmation of (tests pass with change, demo exit 0 without, demo exit non-zero with).
"""


def main():
    rnd = sys.argv[1]
    letters = sys.argv[2].split(",")
    want = sys.argv[3:]
    props = [json.loads(l) for l in open(os.path.join(HERE,
                                                      "properties.jsonl"))]
    for p in props:
        if want and p["id"] not in want:
            continue
        wt = "/tmp/wt%s-%s" % (rnd, p["id"])
        if not os.path.exists(wt):
            subprocess.run(["git", "-C", "/repo", "worktree", "add", "-f",
                            "--detach", wt, "HEAD"], check=True,
                           capture_output=True)
        os.makedirs("/tmp/prompts", exist_ok=True)
        with open("/tmp/prompts/r%s-%s.txt" % (rnd, p["id"]), "w") as f:
            f.write(prompt(rnd, p, letters))
    print("ok")


if __name__ == "__main__":
    main()
