#!/venv/bin/python
"""Re-evaluate every kept seeded change against the current checks and refresh
meta.json (checks_that_fire etc.).  Prints a summary table (markdown)."""
import json
import os
import subprocess
import sys

HERE = os.path.dirname(os.path.dirname(os.path.abspath(__file__)))
SEEDED = os.path.join(HERE, "seeded")


def main():
    rows = []
    from concurrent.futures import ThreadPoolExecutor
    sids = [s for s in sorted(os.listdir(SEEDED))
            if os.path.exists(os.path.join(SEEDED, s, "meta.json"))]

    def ev(sid):
        p = subprocess.run([os.path.join(HERE, "tools", "eval_seed.py"),
                            os.path.join(SEEDED, sid, "patch.diff")],
                           capture_output=True, text=True)
        txt = p.stdout.split("\n--- ")[0]
        return sid, json.loads(txt[txt.index("{"):txt.rindex("}") + 1])
    with ThreadPoolExecutor(5) as ex:
        results = dict(ex.map(ev, sids))
    for sid in sids:
        d = os.path.join(SEEDED, sid)
        mp = os.path.join(d, "meta.json")
        meta = json.load(open(mp))
        res = results[sid]
        meta["checks_that_fire"] = res.get("fired")
        meta["checks_with_analysis_error"] = res.get("analysis_error")
        meta["detected_by_own_property_check"] = meta["property"] in (
            res.get("fired") or {})
        json.dump(meta, open(mp, "w"), indent=1, ensure_ascii=False)
        fired = "; ".join("%s (%s)" % (k, ", ".join(v))
                          for k, v in sorted(res.get("fired", {}).items()))
        rows.append("| %s | %s | %s | %s |" % (
            sid, (meta.get("summary") or "").replace("|", "/")[:110],
            fired or "–", "yes" if meta["detected_by_own_property_check"]
            else "no"))
    print("| seeded change | what it does | checks (rules) that fire | own "
          "check fires |")
    print("|---|---|---|---|")
    print("\n".join(rows))


if __name__ == "__main__":
    main()
