#!/venv/bin/python
"""Runs the repository's test suite the way /root/.vp/BASELINE.json does and
compares the passing set with BASELINE.stable_pass."""
import json
import subprocess
import sys
import tempfile
import xml.etree.ElementTree as ET

base = json.load(open("/root/.vp/BASELINE.json"))
with tempfile.NamedTemporaryFile(suffix=".xml") as tf:
    cmd = base["cmd"].replace("<file>", tf.name)
    p = subprocess.run(cmd, shell=True, capture_output=True, text=True,
                       stdin=subprocess.DEVNULL)
    tree = ET.parse(tf.name)
passed = set()
for tc in tree.iter("testcase"):
    if not any(ch.tag in ("failure", "error", "skipped") for ch in tc):
        passed.add("%s::%s" % (tc.get("classname"), tc.get("name")))
want = set(base["stable_pass"])
missing = sorted(want - passed)
print("baseline stable_pass: %d, passing now: %d, missing: %d"
      % (len(want), len(passed & want), len(missing)))
for m in missing[:20]:
    print("  MISSING", m)
sys.exit(1 if missing else 0)
