#!/venv/bin/python
"""tools/gen_names.py: (re)generate spec/names.json -- for every class and
module of the package the private member names (one leading underscore) in
definition order, by kind.  The references in /verif/spec and the rules are
written against these names; the model uses the table to undo a consistent
rename of a private member (zcstatic/model.py, _alpha_normalise)."""
import json
import os
import sys

HERE = os.path.dirname(os.path.dirname(os.path.abspath(__file__)))
sys.path.insert(0, HERE)
from zcstatic.model import Model, private_members  # noqa: E402

m = Model(sys.argv[1] if len(sys.argv) > 1 else "/repo", normalise=False)
out = {}
for name, mod in sorted(m.modules.items()):
    t = private_members(mod.tree)
    for k, v in t.items():
        if any(x for kk, x in v.items() if kk not in ("arity", "callers")):
            out[name + ("." + k if k else "")] = v
with open(os.path.join(HERE, "spec", "names.json"), "w") as f:
    json.dump(out, f, indent=1, sort_keys=True)
print(len(out), "entries")
