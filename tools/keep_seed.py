#!/venv/bin/python
"""tools/keep_seed.py <prop> <variant letter> : confirm a sub-agent's seeded
change (tests pass, demo fails with it and passes without, patch applies) and
keep it as /verif/seeded/<prop>-<variant>/ with the evaluation recorded."""
import json
import os
import shutil
import subprocess
import sys

HERE = os.path.dirname(os.path.dirname(os.path.abspath(__file__)))


def main():
    prop, var = sys.argv[1], sys.argv[2]
    rnd = sys.argv[3] if len(sys.argv) > 3 else ""
    src = "/tmp/seed%s-%s" % (rnd, prop)
    patch = os.path.join(src, var + ".diff")
    demo = os.path.join(src, var + "_demo.py")
    p = subprocess.run([os.path.join(HERE, "tools", "eval_seed.py"), patch,
                        "--demo", demo, "--tests"], capture_output=True,
                       text=True)
    txt = p.stdout
    try:
        res = json.loads(txt[txt.index("{"):txt.rindex("}") + 1])
    except Exception:
        print("evaluation failed:\n", txt, p.stderr)
        return 2
    ok = (res.get("demo_clean_exit") == 0 and res.get("demo_patched_exit")
          not in (0, None) and " failed" not in res.get("tests", "failed")
          and "passed" in res.get("tests", ""))
    notes = {}
    try:
        notes = json.load(open(os.path.join(src, "notes.json"))).get(var, {})
    except Exception:
        pass
    sid = "%s-%s" % (prop, var)
    print(sid, "CONFIRMED" if ok else "REJECTED", "| fired:",
          res.get("fired"), "| analysis-error:", res.get("analysis_error"))
    if not ok:
        print(json.dumps(res, indent=1)[:800])
        return 1
    dst = os.path.join(HERE, "seeded", sid)
    os.makedirs(dst, exist_ok=True)
    shutil.copy(patch, os.path.join(dst, "patch.diff"))
    shutil.copy(demo, os.path.join(dst, "demo.py"))
    meta = {
        "id": sid,
        "property": prop,
        "summary": notes.get("summary"),
        "needs_to_manifest": notes.get("needs"),
        "files": notes.get("files"),
        "origin": "written by an independent sub-agent that saw only the "
                  "property text and a scratch worktree of /repo",
        "confirmed": {
            "command": "tools/eval_seed.py seeded/%s/patch.diff --demo "
                       "seeded/%s/demo.py --tests" % (sid, sid),
            "tests_with_change": res.get("tests"),
            "demo_exit_without_change": res.get("demo_clean_exit"),
            "demo_exit_with_change": res.get("demo_patched_exit"),
            "demo_output_with_change": res.get("demo_patched_out"),
        },
        "checks_that_fire": res.get("fired"),
        "checks_with_analysis_error": res.get("analysis_error"),
        "detected_by_own_property_check": prop in (res.get("fired") or {}),
    }
    with open(os.path.join(dst, "meta.json"), "w") as f:
        json.dump(meta, f, indent=1, ensure_ascii=False)
    return 0


if __name__ == "__main__":
    sys.exit(main())
