"""Reference implementations of the standard datatypes' branch structure,
written from docs/standard-datatypes.rst and the statement of C09.

PARSED, NEVER EXECUTED: zcstatic.crosscheck turns these and the live functions
into decision tables and compares them valuation by valuation.
"""
import os
import socket

from ZConfig.datatypes import inet_address
from ZConfig.datatypes import inet_binding_address
from ZConfig.datatypes import inet_connection_address
from ZConfig.datatypes import port_number
from ZConfig.datatypes import RegularExpressionConversion


def regex_call_first(self, value):
    # prefix match, then the match must be the whole input
    m = self._rx.match(value)
    if not m:
        raise ValueError()
    if m.group() != value:
        raise ValueError()
    return value


def regex_call_full(self, value):
    if self._rx.fullmatch(value):
        return value
    raise ValueError()


def basic_key_call(self, value):
    return RegularExpressionConversion.__call__(self, str(value)).lower()


def ipaddr_call(self, value):
    r = RegularExpressionConversion.__call__(self, value).lower()
    if ":" not in r:
        return r
    try:
        socket.inet_pton(socket.AF_INET6, r)
    except OSError:
        raise ValueError()
    return r


def asBoolean(s):
    v = str(s).lower()
    if v == "yes" or v == "true" or v == "on":
        return True
    if v == "no" or v == "false" or v == "off":
        return False
    raise ValueError()


def range_call(self, value):
    v = self._conversion(value)
    if self._min is not None:
        if v < self._min:
            raise ValueError()
    if self._max is not None:
        if v > self._max:
            raise ValueError()
    return v


def suffix_call(self, v):
    v = v.lower()
    for s, m in self._d.items():
        if v[-self._keysz:] == s:
            return int(v[:-self._keysz]) * m
    return int(v) * self._default


def inet_call(self, s):
    if ":" not in s:
        try:
            port = port_number(s)
        except ValueError:
            if len(s.split()) != 1:
                raise ValueError()
            if not s.lower():
                return self.DEFAULT_HOST, None
            return s.lower(), None
        return self.DEFAULT_HOST, port
    host, p = s.rsplit(":", 1)
    if host.startswith("[") and host.endswith("]"):
        host = host[1:-1]
    elif ":" in host:
        # unbracketed IPv6: the whole string is the host, no port
        if not s.lower():
            return self.DEFAULT_HOST, None
        return s.lower(), None
    port = None
    if p:
        port = port_number(p)
    host = host.lower()
    if not host:
        host = self.DEFAULT_HOST
    return host, port


def socket_init(self, s):
    if "/" in s or s.find(os.sep) >= 0:
        self.family = getattr(socket, "AF_UNIX", None)
        self.address = s
        return
    self.family = socket.AF_INET
    self.address = self._parse_address(s)
    if ":" in self.address[0]:
        self.family = socket.AF_INET6


def socket_parse_plain(self, s):
    return inet_address(s)


def socket_parse_binding(self, s):
    return inet_binding_address(s)


def socket_parse_connection(self, s):
    return inet_connection_address(s)


# docs/logging-components.rst / the property text: level names and numbers
_logging_levels = {"critical": 50, "fatal": 50, "error": 40, "warn": 30,
                   "warning": 30, "info": 20, "blather": 15, "debug": 10,
                   "trace": 5, "all": 1, "notset": 0}


def logging_level(value):
    s = str(value).lower()
    if s in _logging_levels:
        return _logging_levels[s]
    v = int(s)
    if v < 0:
        raise ValueError()
    if v > 50:
        raise ValueError()
    return v
