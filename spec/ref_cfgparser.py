"""Reference implementation of the configuration parser's methods, written
from docs/using-zconfig.rst (section on the configuration syntax) and the
statements of C03, C05, C06, C08.  PARSED, NEVER EXECUTED.

Positions: every configuration error that crosses the parser boundary gets the
current line number and this resource's URL, either by conversion through
error() or by patching lineno/url before re-raising.
"""
import ZConfig
import ZConfig.url
from ZConfig.cfgparser import _keyvalue_rx
from ZConfig.cfgparser import _section_start_rx
from ZConfig.substitution import isname
from ZConfig.substitution import substitute


def nextline(self):
    line = self.file.readline()
    if not line:
        return True, None
    self.lineno += 1
    return False, line.strip()


def error(self, message):
    raise ZConfig.ConfigurationSyntaxError(message, self.url, self.lineno)


def normalize_case(self, string):
    return string.lower()


def start_section(self, section, rest):
    isempty = rest[-1:] == "/"
    if isempty:
        text = rest[:-1].rstrip()
    else:
        text = rest.rstrip()
    m = _section_start_rx.match(text)
    if not m:
        self.error("malformed section header")
    type_, name = m.group('type', 'name')
    type_ = self._normalize_case(type_)
    if name:
        name = self._normalize_case(name)
    try:
        newsect = self.context.startSection(section, type_, name)
    except ZConfig.ConfigurationError as e:
        self.error(e.message)
    if isempty:
        self._end_section(section, type_, name, newsect)
        return section
    self.stack.append((type_, name, section))
    return newsect


def end_section(self, section, rest):
    if not self.stack:
        self.error("unexpected section end")
    type_ = self._normalize_case(rest.rstrip())
    opentype, name, prevsection = self.stack.pop()
    if type_ != opentype:
        self.error("unbalanced section end")
    self._end_section(prevsection, type_, name, section)
    return prevsection


def finish_section(self, prevsection, type_, name, section):
    try:
        self.context.endSection(prevsection, type_, name, section)
    except ZConfig.DataConversionError as e:
        if e.lineno < 0:
            e.lineno = self.lineno
        if not e.url:
            e.url = self.url
        raise
    except ZConfig.ConfigurationError as e:
        self.error(e.message)


def handle_key_value(self, section, rest):
    m = _keyvalue_rx.match(rest)
    if not m:
        self.error("malformed configuration data")
    key, value = m.group('key', 'value')
    if not value:
        value = ''
    else:
        value = self.replace(value)
    try:
        section.addValue(key, value, (self.lineno, None, self.url))
    except ZConfig.ConfigurationError as e:
        if getattr(e, 'lineno', -1) < 0:
            e.lineno = self.lineno
        if not e.url:
            e.url = self.url
        raise


def handle_directive(self, section, rest):
    m = _keyvalue_rx.match(rest)
    if not m:
        self.error("missing or unrecognized directive")
    name, arg = m.group('key', 'value')
    if name != "define" and name != "import" and name != "include":
        self.error("unknown directive")
    if not arg:
        self.error("missing argument")
    getattr(self, 'handle_' + name)(section, arg)


def handle_import(self, section, rest):
    pkgname = self.replace(rest.strip())
    self.context.importSchemaComponent(pkgname)


def handle_include(self, section, rest):
    rest = self.replace(rest.strip())
    try:
        newurl = ZConfig.url.urljoin(self.url, rest)
    except ValueError as e:
        self.error("invalid URL")
    self.context.includeConfiguration(section, newurl, self.defines)


def handle_define(self, section, rest):
    parts = rest.split(None, 1)
    defname = self._normalize_case(parts[0])
    defvalue = ''
    if len(parts) == 2:
        defvalue = parts[1]
    defvalue = self.replace(defvalue)
    if defname in self.defines:
        if self.defines[defname] != defvalue:
            self.error("cannot redefine")
    if not isname(defname):
        self.error("not a substitution legal name")
    self.defines[defname] = defvalue


def replace(self, text):
    try:
        return substitute(text, self.defines)
    except (ZConfig.SubstitutionReplacementError,
            ZConfig.SubstitutionSyntaxError) as e:
        e.lineno = self.lineno
        e.url = self.url
        raise


def init(self, resource, context, defines=None):
    self.resource = resource
    self.context = context
    self.file = resource.file
    self.url = resource.url
    self.lineno = 0
    self.stack = []
    if defines is None:
        defines = {}
    self.defines = defines


def handle_import(self, section, rest):
    pkgname = self.replace(rest.strip())
    self.context.importSchemaComponent(pkgname)
