"""Reference for the schema-building side of ZConfig.info (docs on writing
schemas; statements of C10, C11, C12, C13).  PARSED, NEVER EXECUTED."""
import copy
from collections import OrderedDict

import ZConfig
from ZConfig.info import BaseInfo
from ZConfig.info import BaseKeyInfo
from ZConfig.info import SchemaType
from ZConfig.info import SectionType
from ZConfig.info import ValueInfo


def add_child(self, key, info):
    assert key or info.attribute
    if key:
        if key in self._keymap:
            raise ZConfig.SchemaError("child name already used")
    if info.attribute:
        if info.attribute in self._attrmap:
            raise ZConfig.SchemaError("child attribute name already used")
    if info.attribute:
        self._attrmap[info.attribute] = info
    if key:
        self._keymap[key] = info
    self._children.append((key, info))


def addkey(self, keyinfo):
    self._add_child(keyinfo.name, keyinfo)


def addsection(self, name, sectinfo):
    assert name not in ("*", "+")
    self._add_child(name, sectinfo)


def addtype(self, typeinfo):
    n = typeinfo.name
    if n in self._types:
        raise ZConfig.SchemaError("type name cannot be redefined")
    self._types[n] = typeinfo


def addsubtype(self, type_):
    self._subtypes[type_.name] = type_


def hassubtype(self, name):
    return name in self._subtypes.keys()


def getsubtypenames(self):
    return sorted(self._subtypes.keys())


def gettypenames(self):
    return list(self._types.keys())


def keyinfo_finish(self):
    if self._finished:
        raise ZConfig.SchemaError("cannot finish KeyInfo more than once")
    self._finished = True


def adddefault(self, value, position, key=None):
    if self._finished:
        raise ZConfig.SchemaError("cannot add defaults to finished KeyInfo")
    if self.name == "+":
        if key is None:
            raise ZConfig.SchemaError("default values must be keyed for '+'")
    elif key is not None:
        raise ZConfig.SchemaError("unexpected key for default value")
    self.add_valueinfo(ValueInfo(value, position), key)


def key_add_valueinfo(self, vi, key):
    if self.name == "+":
        if key in self._default:
            raise ZConfig.SchemaError("duplicate default value for key")
        self._default[key] = vi
    elif self._default is not None:
        raise ZConfig.SchemaError("more than one default")
    else:
        self._default = vi


def multikey_add_valueinfo(self, vi, key):
    if self.name == "+":
        if key in self._default:
            self._default[key].append(vi)
        else:
            self._default[key] = [vi]
    else:
        self._default.append(vi)


def prepare_raw_defaults(self):
    assert self.name == "+"
    if self._rawdefaults is None:
        self._rawdefaults = self._default
    self._default = OrderedDict()


def convert_default_key(self, keytype, key, position):
    try:
        return keytype(key)
    except ValueError as e:
        lineno, colno, url = position or (None, None, None)
        raise ZConfig.SchemaError("could not convert default key", url,
                                  lineno, colno)


def key_computedefault(self, keytype):
    self.prepare_raw_defaults()
    for k, vi in self._rawdefaults.items():
        key = self.convert_default_key(keytype, k, vi.position)
        self.add_valueinfo(vi, key)


def multikey_computedefault(self, keytype):
    self.prepare_raw_defaults()
    for k, vlist in self._rawdefaults.items():
        key = self.convert_default_key(keytype, k, vlist[0].position)
        for vi in vlist:
            self.add_valueinfo(vi, key)


def createSectionType(self, name, keytype, valuetype, datatype):
    t = SectionType(name, keytype, valuetype, datatype, self.registry,
                    self._types)
    self.addtype(t)
    return t


def deriveSectionType(self, base, name, keytype, valuetype, datatype):
    if isinstance(base, SchemaType):
        raise ZConfig.SchemaError("cannot derive from top-level schema")
    t = self.createSectionType(name, keytype, valuetype, datatype)
    t._attrmap.update(base._attrmap)
    t._keymap.update(base._keymap)
    t._children.extend(base._children)
    for i in range(len(t._children)):
        key, info = t._children[i]
        if isinstance(info, BaseKeyInfo) and info.name == "+":
            info = copy.copy(info)
            info.computedefault(t.keytype)
            t._children[i] = (key, info)
    return t


def addComponent(self, name):
    if name in self._components:
        raise ZConfig.SchemaError("already have component")
    self._components[name] = name


def hasComponent(self, name):
    return name in self._components


def createDerivedSchema(base):
    new = SchemaType(base.keytype, base.valuetype, base.datatype,
                     base.handler, base.url, base.registry)
    new._components.update(base._components)
    new.description = base.description
    new.example = base.example
    new._children[:] = base._children
    new._attrmap.update(base._attrmap)
    new._keymap.update(base._keymap)
    new._types.update(base._types)
    return new


def sectiontype_init(self, name, keytype, valuetype, datatype, registry,
                     types):
    self.name = name
    self.datatype = datatype
    self.keytype = keytype
    self.valuetype = valuetype
    self.handler = None
    self.description = None
    self.example = None
    self.registry = registry
    self._children = []
    self._attrmap = OrderedDict()
    self._keymap = OrderedDict()
    self._types = types


def schematype_init(self, keytype, valuetype, datatype, handler, url,
                    registry):
    SectionType.__init__(self, None, keytype, valuetype, datatype, registry,
                         {})
    self._components = OrderedDict()
    self.handler = handler
    self.url = url


def abstracttype_init(self, name):
    self._subtypes = OrderedDict()
    self.name = name
    self.description = None


def memo_call(self, value):
    try:
        return self._memo[value]
    except KeyError:
        v = self._conversion(value)
        self._memo[value] = v
        return v


def schemaloader_loadResource(self, resource):
    if resource.url and resource.url in self._cache:
        schema = self._cache[resource.url]
    else:
        schema = ZConfig.schema.parseResource(resource, self)
        self._cache[resource.url] = schema
    return schema
