"""Reference for the logger component (docs/logging-components.rst, statement
of C20).  PARSED, NEVER EXECUTED."""
import functools
import inspect
import logging
import string
import sys

from ZConfig.components.logger import loghandler
from ZConfig.components.logger.factory import _marker
from ZConfig.components.logger.formatter import _log_format_styles
from ZConfig.components.logger.formatter import _log_format_variables
from ZConfig.components.logger.formatter import AnyFieldDict
from ZConfig.components.logger.formatter import resolve
from ZConfig.components.logger.handlers import HandlerFactory
from ZConfig.components.logger.loghandler import _reopenable_handlers
from ZConfig.components.logger.logger import LoggerFactoryBase


def factory_call(self):
    if self.instance is not _marker:
        return self.instance
    self.instance = self.create()
    return self.instance


def file_handler_init(self, section):
    HandlerFactory.__init__(self, section)
    path = section.path
    max_bytes = section.max_size
    old_files = section.old_files
    when = section.when
    interval = section.interval
    encoding = section.encoding
    delay = section.delay
    if path == "STDERR" or path == "STDOUT":
        if max_bytes or old_files or when:
            raise ValueError("cannot rotate")
        if delay:
            raise ValueError("cannot delay")
        if encoding:
            raise ValueError("no encoding")
        if path == "STDERR":
            def factory():
                return loghandler.StreamHandler(sys.stderr)
        else:
            def factory():
                return loghandler.StreamHandler(sys.stdout)
        self._factory = factory
        return
    if not (when or max_bytes or old_files or interval):
        self._factory = functools.partial(
            loghandler.FileHandler, path, encoding=encoding, delay=delay)
        return
    if not old_files:
        raise ValueError("old-files must be set for log rotation")
    if when:
        if max_bytes:
            raise ValueError("both")
        if not interval:
            interval = 1
        self._factory = functools.partial(
            loghandler.TimedRotatingFileHandler, path, when=when,
            interval=interval, backupCount=old_files, encoding=encoding,
            delay=delay)
        return
    if max_bytes:
        self._factory = functools.partial(
            loghandler.RotatingFileHandler, path, maxBytes=max_bytes,
            backupCount=old_files, encoding=encoding, delay=delay)
        return
    raise ValueError("max-bytes or when must be set")


def logger_base_init(self, section):
    Factory.__init__(self)
    self.level = section.level
    self.handler_factories = section.handlers


def logger_base_create(self):
    logger = logging.getLogger(self.name)
    logger.setLevel(self.level)
    if not self.handler_factories:
        logger.addHandler(loghandler.NullHandler())
        return logger
    for handler_factory in self.handler_factories:
        handler = handler_factory()
        logger.addHandler(handler)
    return logger


def logger_init(self, section):
    LoggerFactoryBase.__init__(self, section)
    self.name = section.name
    self.propagate = section.propagate


def logger_create(self):
    logger = LoggerFactoryBase.create(self)
    logger.propagate = self.propagate
    return logger


def handler_create(self):
    logger = self.create_loghandler()
    logger.setFormatter(self.create_formatter())
    logger.setLevel(self.section.level)
    return logger


def log_format_style(value):
    if value.lower() not in _log_format_styles:
        raise ValueError()
    return value.lower()


def closeFiles():
    while _reopenable_handlers:
        wr = _reopenable_handlers.pop()
        h = wr()
        if h is not None:
            h.close()


def reopenFiles():
    for wr in _reopenable_handlers[:]:
        h = wr()
        if h is not None:
            h.reopen()
        else:
            try:
                _reopenable_handlers.remove(wr)
            except ValueError:
                continue


def remove_from_reopenable(wr):
    try:
        _reopenable_handlers.remove(wr)
    except ValueError:
        pass


# ------------------------------------------------------------ format styles
# One class per style; each knows how its placeholders are spelled
# (usesTime) and renders a record's attributes (format).

def style_init(self, fmt):
    self._fmt = fmt or self.default_format


def template_init(self, fmt):
    self._fmt = fmt or self.default_format
    self._tpl = string.Template(self._fmt)


def percent_usesTime(self):
    return self._fmt.find(self.asctime_search) >= 0


def template_usesTime(self):
    # '$asctime' and '${asctime}' both name the time
    fmt = self._fmt
    return fmt.find('$asctime') >= 0 or fmt.find(self.asctime_format) >= 0


def percent_format(self, record):
    return self._fmt % record.__dict__


def strformat_format(self, record):
    return self.__formatter.vformat(self._fmt, (), record.__dict__)


def template_format(self, record):
    return self._tpl.substitute(record.__dict__)


def safetemplate_format(self, record):
    return self._tpl.safe_substitute(record.__dict__)


def formatterfactory_init(self, section):
    # every factory tries its own format against a sample record at load
    # time -- whatever other factories have seen -- with the permissive field
    # mapping only when this section asks for arbitrary fields
    self.format = section.format
    self.dateformat = section.dateformat
    self.style = section.style
    self.stylist = _log_format_styles[self.style](self.format)
    self.formatter = section.formatter or 'logging.Formatter'
    if section.formatter:
        self.factory = resolve(section.formatter)
    else:
        self.factory = logging.Formatter
    if inspect.isclass(self.factory):
        func = self.factory.__init__
    else:
        func = self.factory
    params = inspect.signature(func).parameters
    self._has_style_param = 'style' in params
    record = logging.LogRecord(__name__, logging.INFO, __file__,
                               42, 'some message', (), None)
    record.__dict__.update(_log_format_variables)
    if section.arbitrary_fields:
        fields = AnyFieldDict()
        fields.update(record.__dict__)
        record.__dict__ = fields
    try:
        self.stylist.format(record)
    except IndexError:
        raise ValueError('%s formats cannot use positional placeholders')
