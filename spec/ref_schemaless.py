"""Reference for the reader side of ZConfig.schemaless (statement of C17).
PARSED, NEVER EXECUTED."""
from ZConfig.schemaless import Section


def sl_addValue(self, key, value, *args):
    if key not in self:
        self[key] = [value]
    else:
        self[key].append(value)


def sl_startSection(self, container, type_, name):
    newsec = Section(type_, name)
    container.sections.append(newsec)
    return newsec


def sl_import(self, pkgname):
    if pkgname in self.top.imports:
        return
    self.top.imports += (pkgname, )
