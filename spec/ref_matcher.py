"""Reference implementation of the matcher and of the schema-info predicates it
relies on, written from docs/using-zconfig.rst, docs/py-mod-*.rst and the
statements of C01, C02, C14, C16.  PARSED, NEVER EXECUTED.

Loops are analysed per iteration (one child / one value at a time).
"""
import copy

import ZConfig
import ZConfig.loader
import ZConfig.matcher
from ZConfig.cmdline import ExtendedSchemaMatcher
from ZConfig.cmdline import ExtendedSectionMatcher
from ZConfig.cmdline import OptionBag
from ZConfig.info import BaseInfo
from ZConfig.info import ValueInfo
from ZConfig.matcher import BaseMatcher
from ZConfig.matcher import SectionMatcher
from ZConfig.matcher import SectionValue


# ------------------------------------------------------------------- info

def baseinfo_init(self, name, datatype, minOccurs, maxOccurs, handler,
                  attribute):
    assert maxOccurs is not None
    assert minOccurs is not None
    if maxOccurs < 1:
        raise ZConfig.SchemaError("maxOccurs must be at least 1")
    if minOccurs > maxOccurs:
        raise ZConfig.SchemaError("minOccurs cannot be more than maxOccurs")
    self.name = name
    self.datatype = datatype
    self.minOccurs = minOccurs
    self.maxOccurs = maxOccurs
    self.handler = handler
    self.attribute = attribute


def ismulti(self):
    return self.maxOccurs > 1


def sectioninfo_init(self, name, sectiontype, minOccurs, maxOccurs, handler,
                     attribute):
    if maxOccurs > 1:
        if name != '*' and name != '+':
            raise ZConfig.SchemaError("multi sections need * or +")
        if not attribute:
            raise ZConfig.SchemaError("multi sections need an attribute")
    if sectiontype.isabstract():
        datatype = None
    else:
        datatype = sectiontype.datatype
    BaseInfo.__init__(self, name, datatype, minOccurs, maxOccurs, handler,
                      attribute)
    self.sectiontype = sectiontype


def allowUnnamed(self):
    return self.name == "*"


def isAllowedName(self, name):
    # never '*' or '+' themselves; '+' = name mandatory; '*' = optional;
    # otherwise the fixed name
    if name == "*":
        return False
    if name == "+":
        return False
    if self.name == "+":
        if name:
            return True
        return False
    if self.name == "*":
        return True
    return name == self.name


def sectioninfo_getdefault(self):
    if self.maxOccurs > 1:
        return []
    return None


def keyinfo_getdefault(self):
    return copy.copy(self._default)


def valueinfo_convert(self, datatype):
    try:
        return datatype(self.value)
    except ValueError as e:
        raise ZConfig.DataConversionError(e, self.value, self.position)


def getsectioninfo(self, type_, name):
    # one iteration of the slot search
    for key, info in self._children:
        if key:
            if key == name:
                if not info.issection():
                    raise ZConfig.ConfigurationError("name in use for key")
                st = info.sectiontype
                if st.isabstract():
                    try:
                        st = st.getsubtype(type_)
                    except ZConfig.ConfigurationError:
                        raise ZConfig.ConfigurationError("type not allowed")
                if st.name != type_:
                    raise ZConfig.ConfigurationError("name must be used for")
                return info
        elif info.sectiontype.name == type_:
            if not name:
                if not info.allowUnnamed():
                    raise ZConfig.ConfigurationError("must be named")
            return info
        elif info.sectiontype.isabstract():
            st = info.sectiontype
            if st.name == type_:
                raise ZConfig.ConfigurationError("abstract type")
            try:
                st = st.getsubtype(type_)
            except ZConfig.ConfigurationError:
                pass
            else:
                return info
    raise ZConfig.ConfigurationError("no matching section defined")


def gettype(self, name):
    n = name.lower()
    try:
        return self._types[n]
    except KeyError:
        raise ZConfig.SchemaError("unknown type name")


def getsubtype(self, name):
    try:
        return self._subtypes[name]
    except KeyError:
        raise ZConfig.SchemaError("no such subtype")


# ---------------------------------------------------------------- matcher

def basematcher_init(self, info, type_, handlers):
    self.info = info
    self.type = type_
    self._values = {}
    for _type_key, type_info in type_:
        if type_info.name == "+" and not type_info.issection():
            v = {}
        elif type_info.ismulti():
            v = []
        else:
            v = None
        assert type_info.attribute is not None
        self._values[type_info.attribute] = v
    self._sectionnames = {}
    if handlers is not None:
        self.handlers = handlers
    else:
        self.handlers = []


def addSection(self, type_, name, sectvalue):
    if name:
        if name in self._sectionnames:
            raise ZConfig.ConfigurationError("section name re-used")
        self._sectionnames[name] = name
    ci = self.type.getsectioninfo(type_, name)
    attr = ci.attribute
    v = self._values[attr]
    if ci.ismulti():
        v.append(sectvalue)
    elif v is None:
        self._values[attr] = sectvalue
    else:
        raise ZConfig.ConfigurationError("too many instances")


def addValue(self, key, value, position):
    try:
        realkey = self.type.keytype(key)
    except ValueError as e:
        raise ZConfig.DataConversionError(e, key, position)
    arbkey_info = None
    for i in range(len(self.type)):
        k, ci = self.type[i]
        if k == realkey:
            break
        if ci.name == "+" and not ci.issection():
            arbkey_info = k, ci
    else:
        if arbkey_info is None:
            raise ZConfig.ConfigurationError("not a known key name")
        k, ci = arbkey_info
    if ci.issection():
        raise ZConfig.ConfigurationError("not a valid key name")
    ismulti = ci.ismulti()
    attr = ci.attribute
    assert attr is not None
    v = self._values[attr]
    if v is None:
        if k == '+':
            v = {}
        elif ismulti:
            v = []
        self._values[attr] = v
    elif not ismulti:
        if k != '+':
            raise ZConfig.ConfigurationError("does not support multiple")
    elif len(v) == ci.maxOccurs:
        raise ZConfig.ConfigurationError("too many values")
    value = ValueInfo(value, position)
    if k == '+':
        if ismulti:
            if realkey in v:
                v[realkey].append(value)
            else:
                v[realkey] = [value]
        else:
            if realkey in v:
                raise ZConfig.ConfigurationError("too many values")
            v[realkey] = value
    elif ismulti:
        v.append(value)
    else:
        self._values[attr] = value


def createChildMatcher(self, type_, name):
    ci = self.type.getsectioninfo(type_.name, name)
    assert not ci.isabstract()
    if not ci.isAllowedName(name):
        raise ZConfig.ConfigurationError("not an allowed name")
    return SectionMatcher(ci, type_, name, self.handlers)


def finish(self):
    values = self._values
    for key, ci in self.type:
        if key:
            key = repr(key)
        else:
            key = "section type " + repr(ci.sectiontype.name)
        assert ci.attribute is not None
        attr = ci.attribute
        v = values[attr]
        if ci.name == '+' and not ci.issection():
            if ci.minOccurs > len(v):
                raise ZConfig.ConfigurationError("no keys defined")
        if v is None and ci.minOccurs:
            default = ci.getdefault()
            if default is None:
                raise ZConfig.ConfigurationError("no values; required")
            else:
                v = values[attr] = default[:]
        if ci.ismulti():
            if not v:
                default = ci.getdefault()
                if isinstance(default, dict):
                    v.update(default)
                else:
                    v[:] = default
            if len(v) < ci.minOccurs:
                raise ZConfig.ConfigurationError("not enough values")
        if v is None and not ci.issection():
            if ci.ismulti():
                v = ci.getdefault()[:]
            else:
                v = ci.getdefault()
            values[attr] = v
    return self.constuct()


def construct(self):
    values = self._values
    for name, ci in self.type:
        assert ci.attribute is not None
        attr = ci.attribute
        if ci.ismulti():
            if ci.issection():
                v = []
                for s in values[attr]:
                    if s is not None:
                        st = s.getSectionDefinition()
                        try:
                            s = st.datatype(s)
                        except ValueError as e:
                            raise ZConfig.DataConversionError(
                                e, s, (-1, -1, None))
                    v.append(s)
            elif ci.name == '+':
                v = values[attr]
                for key, val in v.items():
                    v[key] = [vi.convert(ci.datatype) for vi in val]
            else:
                v = [vi.convert(ci.datatype) for vi in values[attr]]
        elif ci.issection():
            if values[attr] is not None:
                st = values[attr].getSectionDefinition()
                try:
                    v = st.datatype(values[attr])
                except ValueError as e:
                    raise ZConfig.DataConversionError(
                        e, values[attr], (-1, -1, None))
            else:
                v = None
        elif name == '+':
            v = values[attr]
            if not v:
                for key, val in ci.getdefault().items():
                    v[key] = val.convert(ci.datatype)
            else:
                for key, val in v.items():
                    v[key] = val.convert(ci.datatype)
        else:
            v = values[attr]
            if v is not None:
                v = v.convert(ci.datatype)
        values[attr] = v
        if ci.handler is not None:
            self.handlers.append((ci.handler, v))
    return self.createValue()


def base_createValue(self):
    return SectionValue(self._values, None, self)


def section_createValue(self):
    return SectionValue(self._values, self.name, self)


def sectionmatcher_init(self, info, type_, name, handlers):
    if not name:
        if not info.allowUnnamed():
            raise ZConfig.ConfigurationError("sections may not be unnamed")
    self.name = name
    BaseMatcher.__init__(self, info, type_, handlers)


def schemamatcher_init(self, schema):
    BaseMatcher.__init__(self, schema, schema, [])


def schemamatcher_finish(self):
    v = BaseMatcher.finish(self)
    v = self.type.datatype(v)
    if self.type.handler is not None:
        self.handlers.append((self.type.handler, v))
    return v


def sectionvalue_init(self, values, name, matcher):
    self.__dict__.update(values)
    self._name = name
    self._matcher = matcher
    self._attributes = tuple(values.keys())


def getSectionName(self):
    return self._name


def getSectionType(self):
    return self._matcher.type.name


def getSectionDefinition(self):
    return self._matcher.type


def getSectionAttributes(self):
    return self._attributes


# ---------------------------------------------------------------- handler

def composite_init(self, handlers, schema):
    self._handlers = handlers
    self._convert = schema.registry.get("basic-key")


def composite_call(self, handlermap):
    d = {}
    for name, callback in handlermap.items():
        n = self._convert(name)
        if n in d:
            raise ZConfig.ConfigurationError("handler name not unique")
        d[n] = callback
    L = []
    for handler, value in self._handlers:
        if handler not in d:
            L.append(handler)
    if L:
        raise ZConfig.ConfigurationError("undefined handlers")
    for handler, value in self._handlers:
        f = d[handler]
        if f is not None:
            f(value)


def composite_len(self):
    return len(self._handlers)


# ---------------------------------------------------------------- cmdline

def addOption(self, spec, pos=None):
    if pos is None:
        pos = "<command-line option>", -1, -1
    if "=" not in spec:
        e = ZConfig.ConfigurationSyntaxError("invalid specifier", *pos)
        e.specifier = spec
        raise e
    opt, val = spec.split("=", 1)
    optpath = opt.split("/")
    if "" in optpath:
        e = ZConfig.ConfigurationSyntaxError("'//' not allowed", *pos)
        e.specifier = spec
        raise e
    self.clopts.append((optpath, val, pos))


def createSchemaMatcher(self):
    if not self.clopts:
        return ZConfig.loader.ConfigLoader.createSchemaMatcher(self)
    sm = ExtendedSchemaMatcher(self.schema)
    sm.set_optionbag(self.cook())
    return sm


def cook(self):
    return OptionBag(self.schema, self.schema, self.clopts)


def optionbag_init(self, schema, sectiontype, options):
    self.sectiontype = sectiontype
    self.schema = schema
    self.keypairs = {}
    self.sectitems = []
    self._basic_key = schema.registry.get("basic-key")
    for item in options:
        optpath, val, pos = item
        try:
            name = sectiontype.keytype(optpath[0])
        except ValueError as e:
            url, lineno, colno = pos
            raise ZConfig.DataConversionError(e, optpath[0],
                                              (lineno, colno, url))
        if len(optpath) == 1:
            self.add_value(name, val, pos)
        else:
            self.sectitems.append(item)


def optionbag_basic_key(self, s, pos):
    try:
        return self._basic_key(s)
    except ValueError as e:
        raise ZConfig.ConfigurationSyntaxError("bad basic-key", *pos)


def add_value(self, name, val, pos):
    if name in self.keypairs:
        L = self.keypairs[name]
    else:
        L = []
        self.keypairs[name] = L
    L.append((val, pos))


def optionbag_contains(self, name):
    return name in self.keypairs


def get_key(self, name):
    L = self.keypairs.get(name)
    if not L:
        return []
    del self.keypairs[name]
    return L


def get_section_info(self, type_, name):
    L = []
    R = []
    for item in self.sectitems:
        optpath, val, pos = item
        s = optpath[0]
        bk = self.basic_key(s, pos)
        if name and self._normalize_case(s) == name:
            L.append((optpath[1:], val, pos))
        elif bk == type_:
            L.append((optpath[1:], val, pos))
        else:
            R.append(item)
    if L:
        self.sectitems[:] = R
        return OptionBag(self.schema, self.schema.gettype(type_), L)


def optionbag_finish(self):
    if self.sectitems:
        raise ZConfig.ConfigurationError("not all options consumed")
    if self.keypairs:
        raise ZConfig.ConfigurationError("not all options consumed")


def optionbag_normalize_case(self, string):
    return string.lower()


def mixin_addValue(self, key, value, position):
    try:
        realkey = self.type.keytype(key)
    except ValueError as e:
        raise ZConfig.DataConversionError(e, key, position)
    if realkey in self.optionbag:
        return
    ZConfig.matcher.BaseMatcher.addValue(self, key, value, position)


def mixin_createChildMatcher(self, type_, name):
    sm = ZConfig.matcher.BaseMatcher.createChildMatcher(self, type_, name)
    bag = self.optionbag.get_section_info(type_.name, name)
    if bag is not None:
        sm = ExtendedSectionMatcher(sm.info, sm.type, sm.name, sm.handlers)
        sm.set_optionbag(bag)
    return sm


def finish_optionbag(self):
    for key in list(self.optionbag.keys()):
        for val, pos in self.optionbag.get_key(key):
            url, lineno, colno = pos
            ZConfig.matcher.BaseMatcher.addValue(self, key, val,
                                                 (lineno, colno, url))
    self.optionbag.finish()


def extsection_finish(self):
    self.finish_optionbag()
    return ZConfig.matcher.SectionMatcher.finish(self)


def extschema_finish(self):
    self.finish_optionbag()
    return ZConfig.matcher.SchemaMatcher.finish(self)


def get_config_loader(schema, overrides):
    if not overrides:
        return ZConfig.loader.ConfigLoader(schema)
    from ZConfig import cmdline
    loader = cmdline.ExtendedConfigLoader(schema)
    for opt in overrides:
        loader.addOption(opt)
    return loader
