"""Reference implementation of the loader methods that the configuration
parser calls back into (docs/using-zconfig.rst, statements of C05, C06, C12,
C16, C18).  PARSED, NEVER EXECUTED."""
import os.path
import sys
import urllib.request
from io import StringIO
from urllib.request import pathname2url

import ZConfig
import ZConfig.cfgparser
import ZConfig.info
import ZConfig.matcher
import ZConfig.schema
import ZConfig.url
from ZConfig.loader import CompositeHandler
from ZConfig.loader import _url_from_file
from ZConfig.loader import SchemaLoader
from ZConfig.loader import _get_config_loader


def includeConfiguration(self, section, url, defines):
    # resolve, refuse fragments, refuse cycles, parse into the *current*
    # section with the *same* definitions, close the resource
    url = self.normalizeURL(url)
    if url in self._open_urls:
        raise ZConfig.ConfigurationError("recursive include", url)
    self._open_urls.append(url)
    try:
        with self.openResource(url) as r:
            self._parse_resource(section, r, defines)
    finally:
        self._open_urls.pop()


def parse_resource(self, matcher, resource, defines=None):
    parser = ZConfig.cfgparser.ZConfigParser(resource, self, defines)
    parser.parse(matcher)


def startSection(self, parent, type_, name):
    t = self.schema.gettype(type_)
    if t.isabstract():
        raise ZConfig.ConfigurationError("abstract")
    return parent.createChildMatcher(t, name)


def endSection(self, parent, type_, name, matcher):
    sectvalue = matcher.finish()
    parent.addSection(type_, name, sectvalue)


def importSchemaComponent(self, pkgname):
    schema = self.schema
    if not self._private_schema:
        self._loader = SchemaLoader(self.schema.registry)
        schema = ZConfig.info.createDerivedSchema(self.schema)
        self._private_schema = True
        self.schema = schema
    url = self._loader.schemaComponentSource(pkgname, '')
    if schema.hasComponent(url):
        return
    schema.addComponent(url)
    with self.openResource(url) as resource:
        ZConfig.schema.parseComponent(resource, self._loader, schema)


def loadResource(self, resource):
    # every load starts from the schema the loader was created with and with
    # the private-copy flag cleared -- the two go together: the flag set with
    # the application schema in place would let an import write into it
    self.schema = self._base_schema
    self._private_schema = False
    sm = self.createSchemaMatcher()
    self._open_urls.append(resource.url)
    try:
        self._parse_resource(sm, resource)
    finally:
        self._open_urls.pop()
    return sm.finish(), CompositeHandler(sm.handlers, self.schema)


def normalizeURL(self, url):
    if self.isPath(url):
        url = "file://" + pathname2url(os.path.abspath(url))
    try:
        newurl, fragment = ZConfig.url.urldefrag(url)
    except ValueError as e:
        raise ZConfig.ConfigurationError("invalid URL", url)
    if fragment:
        raise ZConfig.ConfigurationError("fragment", url)
    return newurl


def loadURL(self, url):
    url = self.normalizeURL(url)
    with self.openResource(url) as r:
        return self.loadResource(r)


def loadFile(self, file, url=None):
    if not url:
        url = _url_from_file(file)
    with self.createResource(file, url) as r:
        return self.loadResource(r)


def url_from_file(file_or_path):
    name = getattr(file_or_path, "name", None)
    if not name:
        return None
    if name[0] == "<":
        return None
    if name[-1] == ">":
        return None
    return "file://" + pathname2url(os.path.abspath(name))


# --------------------------------------------------------------------------
# The public load functions: a new loader per call, then the loader's own
# entry point with the arguments as given.

def loadSchema(url):
    return SchemaLoader().loadURL(url)


def loadSchemaFile(file, url=None):
    return SchemaLoader().loadFile(file, url)


def loadConfig(schema, url, overrides=()):
    return _get_config_loader(schema, overrides).loadURL(url)


def loadConfigFile(schema, file, url=None, overrides=()):
    return _get_config_loader(schema, overrides).loadFile(file, url)


# package:<name>:<path> resources.  Anything wrong with the package or the
# file inside it is a schema-resource error carrying the file name and the
# package; a package without a PEP 302 loader is searched along its __path__
# and opened through a normalised file: URL; with a loader, the data of the
# first directory that has it, decoded as UTF-8 -- the last failure is
# reported when no directory has it.

def openPackageResource(package, path):
    try:
        __import__(package)
    except (ImportError, ValueError) as e:
        raise ZConfig.SchemaResourceError(
            "could not load package", filename=path, package=package)
    pkg = sys.modules[package]
    if not hasattr(pkg, "__path__"):
        raise ZConfig.SchemaResourceError(
            "import name does not refer to a package",
            filename=path, package=package)
    try:
        loader = pkg.__loader__
    except AttributeError:
        relpath = os.path.join(*path.split("/"))
        for dirname in pkg.__path__:
            filename = os.path.join(dirname, relpath)
            if os.path.exists(filename):
                break
        else:
            raise ZConfig.SchemaResourceError("schema component not found",
                                              filename=path,
                                              package=package,
                                              path=pkg.__path__)
        url = "file:" + pathname2url(filename)
        url = ZConfig.url.urlnormalize(url)
        return urllib.parse.urlopen(url)
    else:
        v, tb = (None, None)
        for dirname in pkg.__path__:
            loadpath = os.path.join(dirname, path)
            try:
                return StringIO(loader.get_data(loadpath).decode('utf-8'))
            except Exception as e:
                v = ZConfig.SchemaResourceError(
                    "error opening schema component", filename=path,
                    package=package, path=pkg.__path__)
                tb = sys.exc_info()[2]
        if v is not None:
            try:
                raise v.with_traceback(tb)
            finally:
                del tb
        raise ZConfig.SchemaResourceError("schema component not found",
                                          filename=path, package=package,
                                          path=pkg.__path__)
