"""Reference implementation of the loader methods that the configuration
parser calls back into (docs/using-zconfig.rst, statements of C05, C06, C12,
C16, C18).  PARSED, NEVER EXECUTED."""
import os.path
from urllib.request import pathname2url

import ZConfig
import ZConfig.cfgparser
import ZConfig.info
import ZConfig.matcher
import ZConfig.schema
import ZConfig.url
from ZConfig.loader import CompositeHandler
from ZConfig.loader import _url_from_file
from ZConfig.loader import SchemaLoader


def includeConfiguration(self, section, url, defines):
    # resolve, refuse fragments, refuse cycles, parse into the *current*
    # section with the *same* definitions, close the resource
    url = self.normalizeURL(url)
    if url in self._open_urls:
        raise ZConfig.ConfigurationError("recursive include", url)
    self._open_urls.append(url)
    try:
        with self.openResource(url) as r:
            self._parse_resource(section, r, defines)
    finally:
        self._open_urls.pop()


def parse_resource(self, matcher, resource, defines=None):
    parser = ZConfig.cfgparser.ZConfigParser(resource, self, defines)
    parser.parse(matcher)


def startSection(self, parent, type_, name):
    t = self.schema.gettype(type_)
    if t.isabstract():
        raise ZConfig.ConfigurationError("abstract")
    return parent.createChildMatcher(t, name)


def endSection(self, parent, type_, name, matcher):
    sectvalue = matcher.finish()
    parent.addSection(type_, name, sectvalue)


def importSchemaComponent(self, pkgname):
    schema = self.schema
    if not self._private_schema:
        self._loader = SchemaLoader(self.schema.registry)
        schema = ZConfig.info.createDerivedSchema(self.schema)
        self._private_schema = True
        self.schema = schema
    url = self._loader.schemaComponentSource(pkgname, '')
    if schema.hasComponent(url):
        return
    schema.addComponent(url)
    with self.openResource(url) as resource:
        ZConfig.schema.parseComponent(resource, self._loader, schema)


def loadResource(self, resource):
    sm = self.createSchemaMatcher()
    self._open_urls.append(resource.url)
    try:
        self._parse_resource(sm, resource)
    finally:
        self._open_urls.pop()
    return sm.finish(), CompositeHandler(sm.handlers, self.schema)


def normalizeURL(self, url):
    if self.isPath(url):
        url = "file://" + pathname2url(os.path.abspath(url))
    try:
        newurl, fragment = ZConfig.url.urldefrag(url)
    except ValueError as e:
        raise ZConfig.ConfigurationError("invalid URL", url)
    if fragment:
        raise ZConfig.ConfigurationError("fragment", url)
    return newurl


def loadURL(self, url):
    url = self.normalizeURL(url)
    with self.openResource(url) as r:
        return self.loadResource(r)


def loadFile(self, file, url=None):
    if not url:
        url = _url_from_file(file)
    with self.createResource(file, url) as r:
        return self.loadResource(r)


def url_from_file(file_or_path):
    name = getattr(file_or_path, "name", None)
    if not name:
        return None
    if name[0] == "<":
        return None
    if name[-1] == ">":
        return None
    return "file://" + pathname2url(os.path.abspath(name))
