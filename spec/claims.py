"""Per-property claim texts for MANIFEST.json (see DESIGN.md section 2)."""

NOTES = ("Static analysis only: every verdict is computed from the source "
         "text of /repo on every run; nothing of the repository is imported "
         "or executed and no solver is used.  Each check decides the clauses "
         "listed in its level text, not the behaviour of the property as a "
         "whole.  Exit 2 = ANALYSIS-ERROR (anchor vanished / construct outside "
         "the analysable vocabulary), never a pass and never a violation.")

NOT_APPLICABLE = {}

_TB = ("Trusted base: the CFG construction and callee resolution of "
       "/verif/zcstatic (closed world: the repository's own non-test code), "
       "Python's semantics of with/try/finally/short-circuit, the reference "
       "tables in /verif/spec (my reading of docs/*.rst and the property "
       "statements).  Application subclasses overriding extension points are "
       "outside the claim.")

CLAIMS = {
    "C19": {
        "level": "proof",
        "technique": "resource typestate dataflow over a CFG with exception "
                     "edges (all paths, all exits)",
        "text": "Decides the clauses 'every opened resource is closed by the "
                "time the call returns or raises' and 'the URL stream is "
                "closed as soon as read': for every producer call site "
                "(discovered by resolution) all CFG paths to the normal and "
                "exceptional exits consume or transfer the resource; "
                "Resource.__exit__/close are checked path-completely.  Does "
                "not decide stdlib stream behaviour; the clause 'a failed "
                "load leaves nothing behind' is decided as absence of "
                "writers under C13/C12.",
        "note": _TB + "  A context manager's __exit__ is assumed not to "
                "swallow exceptions; a call is assumed able to raise unless "
                "all resolved callees are straight-line total.",
    },
    "C09": {
        "level": "other",
        "technique": "regular-language equivalence of regex automata "
                     "(CPython first-match semantics) + decision-table "
                     "cross-check against parsed reference implementations + "
                     "exception-flow analysis",
        "text": "Decides exactly (over newline-free strings) the accepted "
                "language of basic-key, identifier, dotted-name, "
                "dotted-suffix and ipaddr-or-hostname under CPython's "
                "prefix-match-then-compare semantics, idempotence of the "
                "lower-casing key normalisers, the decision tables of "
                "boolean, range/port-number, suffix multipliers, "
                "inet/socket address parsers and timedelta, the folded "
                "constant tables, docs<->registry agreement and the escape "
                "sets of all stock converters.  Does not decide int()/float() "
                "parsing, inet_pton validity, arithmetic results or socket "
                "constants.",
        "note": _TB + "  Reference languages and reference implementations "
                "(spec/ref_datatypes.py, parsed never run) are the oracle; "
                "the regex engine's model of CPython matching is validated "
                "against re in the thorough tier.",
    },
    "C03": {
        "level": "other",
        "technique": "tagged regex automata (capture-function equivalence), "
                     "branch-condition-to-regular-language translation of "
                     "the dispatcher, decision-table cross-check",
        "text": "Decides the per-line grammar exactly on the domain of "
                "stripped, newline-free lines: the capture functions of "
                "_keyvalue_rx and _section_start_rx under CPython's "
                "backtracking priorities equal unambiguous references; the "
                "dispatcher's outcome map (languages and slice windows) "
                "equals the documented classification; no integer subscript "
                "can see an empty line; the handlers' decision tables "
                "(empty form, rstrip, lower-casing, stack push/pop/compare, "
                "directive set and argument requirement, value hand-off, "
                "error class) equal a parsed reference.  Does not decide "
                "multi-line semantics beyond the per-call stack discipline.",
        "note": _TB + "  Lines contain no newline after strip().",
    },
    "C04": {
        "level": "other",
        "technique": "regular-language equivalence + thread-list maximal-"
                     "munch analysis + decision table with affine slice "
                     "bounds cross-checked against a parsed reference",
        "text": "Decides the splitter completely: the name language and "
                "that the priority-chosen prefix match is the longest; the "
                "five-way split with every slice bound, delimiter position, "
                "kind and error class; one iteration of the assembly loop "
                "(prefix then value appended, rest only from the splitter's "
                "4th result, mapping gets the lower-cased and getenv the "
                "case-preserved name, missing value raises with (source, "
                "name)); the identity fast path.  Does not decide mapping or "
                "environment values.",
        "note": _TB + "  The loop of substitute() is analysed for one "
                "iteration with the loop-carried state (result, rest) "
                "observed at its end.",
    },
    "C07": {
        "level": "other",
        "technique": "interprocedural exception-escape analysis over the "
                     "resolved call graph (receiver-class sensitive, SAX "
                     "callback edges, handler subsumption by class hierarchy) "
                     "+ value-origin tuple-shape rule + cycle-guard rule + "
                     "guard-dominance rules on a CFG",
        "text": "Decides which exception classes can propagate out of "
                "loadConfig, loadConfigFile, ConfigLoader/"
                "ExtendedConfigLoader.loadURL/loadFile and addOption along "
                "every resolved call path, for explicit raises, re-raises and "
                "the documented exceptions of external callees (must be "
                "within the ConfigurationError family or a datatype's own "
                "error); that every position tuple reaching a position sink "
                "has the order the sink unpacks; that the %include recursion "
                "cycle has a membership guard; that integer subscripts and "
                "fixed-arity unpackings of text-derived sequences are "
                "guarded; the exit-status structure of validator.main.  Does "
                "not decide arbitrary implicit Python errors.",
        "note": _TB + "  External callees raise only what DESIGN appendix A6 "
                "attributes to them; exceptions reachable only through the "
                "schema/component SAX parser are attributed to schema "
                "documents (C10) and listed, not reported.",
    },
    "C08": {
        "level": "other",
        "technique": "exception-flow analysis with handler-effect tracking "
                     "at the parser boundary + decision-table cross-check of "
                     "the handlers + sentinel/argument agreement rules",
        "text": "Decides that every ConfigurationError-family exception that "
                "can leave ZConfigParser.parse() outside a nested resource "
                "was built by the parser's error() from its own url/lineno or "
                "passed a handler that assigns lineno and url before "
                "re-raising -- for both spellings of an empty section; that "
                "lineno counts exactly the lines read and error() uses this "
                "parser's url and lineno; that position tuples are written in "
                "the order the consumer unpacks; that placeholder positions "
                "satisfy the fix-up tests; that every DataConversionError "
                "carries the caught exception, the converted value and a "
                "position.  Does not decide which line is the culprit for "
                "faults detected late; resource-level failures of "
                "%include/%import are listed, not armed.",
        "note": _TB + "  Same exception-flow assumptions as C07.",
    },
    "C05": {
        "level": "other",
        "technique": "interprocedural value-origin analysis (shared-by-"
                     "reference / fresh-per-load) + decision-table "
                     "cross-check of handle_define and replace",
        "text": "Decides the structural facts the %define namespace rests "
                "on: every origin of a parser's definitions mapping is the "
                "fresh {} of the constructor or the including parser's own "
                "mapping (no copy on any hop of the %include chain, no "
                "mutable default / class attribute / loader field); no other "
                "reference to it is stored; names are lower-cased by writer "
                "and reader; a value is expanded once, before the guard and "
                "the store, against the same mapping; the redefinition guard "
                "compares the expanded value with the stored one; illegal "
                "names are rejected before the store.  Does not decide "
                "outcomes of particular define/use/include histories (they "
                "follow from these facts and C04; the composition is not "
                "machine-checked).",
        "note": _TB,
    },
    "C06": {
        "level": "other",
        "technique": "value-origin analysis + decision-table cross-check of "
                     "handle_include / includeConfiguration / _parse_resource "
                     "/ parser constructor",
        "text": "Decides the four structural facts that make %include a "
                "textual inclusion: definitions shared by reference; the "
                "reference expanded, joined against the including parser's "
                "own url (= its resource's url), normalised (fragment gate) "
                "and opened under `with`; the nested parser works on the "
                "dispatcher's current section with the same context, and a "
                "directive never rebinds the current section; each parser "
                "has its own initially empty section stack and cannot end "
                "with an open section.  Does not decide equality of outcomes "
                "with the inlined text.",
        "note": _TB,
    },
    "C18": {
        "level": "other",
        "technique": "branch-condition-to-regular-language translation of "
                     "the path/URL classifier (incl. length of the "
                     "priority-chosen regex match) + decision-table "
                     "cross-check of the URL helpers, gates and parser "
                     "constructions",
        "text": "Decides the path-vs-URL classifier exactly as a regular "
                "language; the file: normalisation rewrite (condition and "
                "slice bound) and the agreement of its three copies; that a "
                "filesystem path passes abspath then pathname2url exactly "
                "once and gets the 'file://' prefix on both routes (same "
                "expression); that the three fragment gates raise iff the "
                "fragment is non-empty and pass on the defragmented URL; "
                "that every urljoin base is the parser's own resource URL "
                "and parsers are built with the URL of the resource they "
                "parse; the file-object name rule and package: routing.  "
                "Does not decide what abspath, pathname2url, urljoin, "
                "urlopen do for a particular name or working directory.",
        "note": _TB,
    },
    "C17": {
        "level": "other",
        "technique": "printer templates recovered from the decision table of "
                     "Section.__str__, checked against the line grammar by "
                     "regular-language inclusion and tagged-automaton "
                     "capture equivalence; escape-symmetry and order rules",
        "text": "Decides, per printed line template with holes ranging over "
                "the regular languages of what the parser can store, that "
                "the documented line classification reads the line back as "
                "the same kind, that a header is never the empty form, and "
                "that the parser's capture functions return the printed "
                "type/name and key/value; that every field the reader passes "
                "through $-substitution is printed through the inverse "
                "escape; that values of a key and sections are printed and "
                "collected in stored order (sorting only on keys); that "
                "%define/%include are refused on every path.  Does not "
                "decide blank-line cosmetics or dictionary equality of the "
                "reloaded object (composition of the per-line inverse with "
                "order keeping is not machine-checked).",
        "note": _TB,
    },
    "C20": {
        "level": "other",
        "technique": "decision-table cross-check against parsed references "
                     "(FileHandlerFactory option table, factory memoisation, "
                     "create() wiring, registry operations) + constant-table "
                     "folding + XML<->Python attribute agreement",
        "text": "Decides the logger component's own tables and wiring: the "
                "level table, lower-casing and the 0..50 range test; that "
                "every attribute a factory reads from its section is "
                "declared by the section type bound to it in the component "
                "XML (own or inherited); the file handler factory's option "
                "table over path class x six option truthinesses; that a "
                "factory creates once; which logging calls create() makes "
                "with which configured values and in which order; the "
                "pairing of the reopen registry; agreement between accepted "
                "style names and the style table.  Does not decide anything "
                "the logging package does with these values (rendering, "
                "rotation, stream state), nor that a format accepted at load "
                "time never raises when a record is formatted.",
        "note": _TB,
    },
    "C01": {
        "level": "other",
        "technique": "decision tables by predicate abstraction (three-way "
                     "ordering atoms) cross-checked against a parsed "
                     "reference, per loop iteration; structural wrapper rule "
                     "for datatype calls",
        "text": "Decides necessary conditions of the 'only if' direction: "
                "the section-name rule table, the orientation of every "
                "occurrence-bound comparison, the slot-filling typestate of "
                "addValue/addSection (name reuse refused before "
                "registration; single-valued slot filled twice refused; "
                "unknown key refused), the three-way slot search with its "
                "fall-through raise, the type gate of startSection / "
                "createChildMatcher, and that every call through a datatype "
                "slot in matcher.py/info.py is wrapped into "
                "DataConversionError.  Does not decide the 'if' direction "
                "(that conforming texts are accepted) nor interactions that "
                "depend on concrete schemas; these need execution.",
        "note": _TB + "  Loops are analysed per iteration (one child / one "
                "value); the search loop of addValue through its break / "
                "else exits.",
    },
    "C02": {
        "level": "other",
        "technique": "per-child decision tables of the five slot-handling "
                     "matcher methods cross-checked against a parsed "
                     "reference; order-operation scan with positive control",
        "text": "Decides that slot creation, filling, default injection and "
                "conversion agree on the container kind per (wildcard, "
                "section, multi); that defaults are copies injected only "
                "into empty slots; that every value is converted through its "
                "own child's datatype (sections through their definition's "
                "datatype); that no order-changing operation is applied in "
                "the matcher; the attribute-name derivation; the identity "
                "accessors of section values and that the schema datatype is "
                "applied last.  Does not decide equality of converted values "
                "with reference conversions, nor equality of whole trees.",
        "note": _TB + "  Loops are analysed per iteration.",
    },
    "C14": {
        "level": "other",
        "technique": "decision-table cross-check of the override machinery "
                     "+ sibling agreement + raw-key taint rule + who-may-call "
                     "rule for substitution",
        "text": "Decides that specifier validation precedes recording; that "
                "the overriding matcher converts keys exactly like the base "
                "matcher, consults only the normalised key and suppresses "
                "exactly overridden keys; that pending values go through the "
                "base addValue in stored order before the base finish and "
                "leftovers are refused; that only the configuration parser "
                "calls $-substitution; path-item selection, consumption and "
                "tail hand-down; the key-type wrapper and position order at "
                "the hand-off; extended loader iff overrides.  Does not "
                "decide equality with the hand-edited text.",
        "note": _TB,
    },
    "C16": {
        "level": "other",
        "technique": "CFG path rule (no raise reachable from a callback; "
                     "validation dominates) + decision-table cross-check + "
                     "value-origin analysis of the shared handler list",
        "text": "Decides all-or-nothing structurally (every raise of "
                "__call__ precedes every callback invocation on all CFG "
                "paths; the callback loop is guarded by the missing-name "
                "test), the decision table of __call__/__init__/__len__, the "
                "(handler, converted value) pairing in schema order with the "
                "schema-level handler last, that one list object created per "
                "load is shared by all matchers and handed to the composite "
                "handler, and that both sides normalise handler names with "
                "basic-key.  Does not decide the closing order of nested "
                "sections (C03's stack discipline composed with the "
                "pairing).",
        "note": _TB,
    },
    "C10": {
        "level": "other",
        "technique": "dispatch-table exhaustiveness and DTD agreement "
                     "(folded tables) + decision-table cross-check of the "
                     "SAX callbacks, rule-enforcing parser methods and "
                     "info-layer guards + exception-escape analysis of "
                     "schema loading",
        "text": "Decides the enforcement side of the schema rules: every "
                "handled/cdata tag has its methods and a nesting-table "
                "entry; the nesting table equals the DTD's content models up "
                "to four triaged discrepancies; unknown tag, misplaced "
                "element, wrong document element and stray text are refused "
                "before dispatch; each listed rule (required+default, "
                "multikey default attribute, multisection names, '*' key, "
                "wildcard without attribute, missing name/type, "
                "extends-abstract, implements-concrete, reserved prefix, "
                "'required' values, unknown type, unique names/attributes/"
                "types, keyed-iff-wildcard defaults, default-key collisions "
                "after normalisation) is a raise preceding the constructive "
                "effect, in decision tables equal to a parsed reference; only "
                "SchemaError-family exceptions leave schema loading from the "
                "schema/info/registry layer and parser errors carry the "
                "locator.  Does not decide that every rule-satisfying "
                "document is accepted.",
        "note": _TB,
    },
    "C11": {
        "level": "other",
        "technique": "writer-set = copy-set rule over discovered container "
                     "fields + push/pop pairing over start_/end_ methods + "
                     "decision-table cross-check of derivation, prefix, "
                     "datatype inheritance, component and base-schema "
                     "handling",
        "text": "Decides the copying, pairing and once-only facts schema "
                "composition rests on: every container _add_child writes is "
                "propagated by deriveSectionType and createDerivedSchema "
                "(plus type table and component registry); wildcard-key "
                "defaults are recomputed on a private copy under the new key "
                "type; an extended base contributes key type and datatype "
                "only, explicit attribute > base > default, an extender is "
                "not registered as implementer; prefix push/pop pairing and "
                "composition with the top of the prefix stack; components "
                "are registered before parsing and parsed only once; base "
                "schemas are parsed into the extending schema with "
                "references joined against its URL.  Does not decide the "
                "behavioural equivalence with the written-out expansion.",
        "note": _TB,
    },
    "C12": {
        "level": "other",
        "technique": "who-may-call and who-may-write rules + decision-table "
                     "cross-check of slot search, type gate, %import and "
                     "component-source resolution + ownership analysis of "
                     "load-phase mutator calls",
        "text": "Decides that implementers are registered at exactly one "
                "site, for the type being defined, under a successful "
                "abstract lookup and never for an extender; that an abstract "
                "slot admits exactly a looked-up implementer and an abstract "
                "type named directly is refused; that %import works on a "
                "private per-load derived schema created on the first "
                "import, is idempotent, and refuses names that are not "
                "importable packages; that each public load call builds a "
                "new loader whose schema field only the constructor and "
                "importSchemaComponent write; that no load-phase mutator "
                "call has a receiver shared with the application schema "
                "(one known finding: F8).  Does not decide acceptance of "
                "concrete texts.",
        "note": _TB,
    },
    "C13": {
        "level": "other",
        "technique": "ownership / who-may-write analysis: mutator methods "
                     "discovered from bodies, load-phase reachability with "
                     "SAX callback edges, receiver provenance by value-"
                     "origin analysis; copy-returning accessors; memo and "
                     "process-wide-state rules",
        "text": "Decides schema reusability as an ownership property: every "
                "call of a (transitive) mutator method of a schema class "
                "reachable while a configuration is loaded has a fresh or "
                "builder-private receiver (one known finding: F8, the shared "
                "AbstractType); accessors of schema containers return "
                "copies; the conversion/schema caches store only cache[k] = "
                "f(k) after success; slot tables are created per matcher; no "
                "load-phase function writes a module global, class attribute "
                "or mutable default; the derived schema copies into its own "
                "containers.  Does not decide equality of outcomes across "
                "histories (it follows from the absence of writers, which is "
                "what is checked).",
        "note": _TB,
    },
    "C15": {
        "level": "other",
        "technique": "borrowed language / decision-table rules + raw-key "
                     "taint rule + frame rule on the effects of a key line",
        "text": "Decides the code facts each layout rewrite relies on: "
                "exactly blank and '#' lines are skipped and every line is "
                "stripped; section types, names, defined names are "
                "lower-cased by the parser and references by the "
                "substituter; the key as written reaches only the key-type "
                "call and messages (base and overriding matcher); both "
                "spellings of an empty section finish the section through "
                "the same helper under the same handlers; a key line writes "
                "only the matched child's slot and no parser field, so lines "
                "of different keys commute.  Does not decide the metamorphic "
                "relations themselves.",
        "note": _TB,
    },
}


# --------------------------------------------------------------------------
# Amendments (session 3): rules added or made semantic after the second round
# of seeded changes.  Applied to the texts above; a phrase that no longer
# occurs is an error, so the amendments cannot silently rot.
_AMEND = {
    "C01": [("text", "the three-way slot search with its fall-through raise,",
             "the slot search over two declared slots with its fall-through "
             "raise (the first slot that decides wins),"),
            ("note", "Loops are analysed per iteration (one child / one "
             "value); the search loop of addValue through its break / else "
             "exits.",
             "Loops whose iterations are independent are analysed per "
             "iteration (one child / one value); search loops that carry "
             "state (a remembered wildcard candidate, a break, a for-else) "
             "are analysed on two distinct representative elements in either "
             "order.")],
    "C02": [("text", "and that the schema datatype is applied last.",
             "that the schema datatype is applied last; and that the "
             "schema's defaults reach the key infos as written (presence of "
             "the default attribute, text and key of <default>, order).")],
    "C07": [("text", "the exit-status structure of validator.main.",
             "that no position whose line number is None reaches an error "
             "whose line number is order-compared; and, on the interpreted "
             "paths of validator.main with the file loop run for two files, "
             "that the status is 1 iff a load raised a configuration error, "
             "else 0, with one message per failed load.")],
    "C08": [("text", "that every DataConversionError carries the caught "
             "exception, the converted value and a position.",
             "that every DataConversionError carries the caught exception, "
             "the converted value and a position; that no handler of the "
             "parser overwrites the position of an error located in a nested "
             "resource or by a handler below; that the text whose lines are "
             "counted is the resource text as read; and that errors the "
             "matcher raises about the line being added carry no position or "
             "that line's position.")],
    "C10": [("text", "and parser errors carry the locator.",
             "and parser errors carry the locator; the name converters the "
             "schema parser obtains from the registry accept exactly their "
             "documented languages.")],
    "C13": [("text", "has a fresh or builder-private receiver (one known "
             "finding: F8, the shared AbstractType);",
             "has a fresh or builder-private receiver, never an object read "
             "back from an attribute of an already existing object (one "
             "known finding: F8, the shared AbstractType);")],
    "C16": [("text", "and that both sides normalise handler names with "
             "basic-key.",
             "that child matchers are given their parent's list and closing "
             "a section moves no entries; that both sides normalise handler "
             "names with basic-key and no item kind reads the handler "
             "attribute otherwise.")],
    "C17": [("text", "that every field the reader passes through "
             "$-substitution is printed through the inverse escape;",
             "that every field the schema-less reader (its own handler "
             "overrides included) passes through $-substitution is printed "
             "through an escape that doubles every '$' (pattern-based escapes "
             "are decided on the pattern's syntax tree); that the reader "
             "recognises the empty form on the header text as written;")],
    "C18": [("text", "that the three fragment gates raise iff the fragment is "
             "non-empty and pass on the defragmented URL;",
             "that the three fragment gates raise iff the fragment is "
             "non-empty and pass on the defragmented URL, and that an "
             "%include target is normalised (gated) on every path;")],
    "C20": [("text", "agreement between accepted style names and the style "
             "table.",
             "agreement between accepted style names and the style table; "
             "for each of the four format style classes the placeholder "
             "spellings and the usesTime/format method it effectively has "
             "(own or inherited) against a reference for that style.")],
}
_AMEND["C01"].append(
    ("text", "and that every call through a datatype slot",
     "that the implementer table an abstract slot consults is filled under "
     "'implements' only and that the parser gives the matcher the same "
     "normalised type and name at both ends of a section; and that every call "
     "through a datatype slot"))
_AMEND.setdefault("C06", []).append(
    ("text", "Does not decide equality of outcomes",
     "Also decides that an %include reads the named resource itself each "
     "time (URL from the reference as written via abspath, text from opening "
     "it, nothing remembered).  Does not decide equality of outcomes"))
_AMEND["C07"].append(
    ("text", "Does not decide arbitrary implicit Python errors.",
     "Also decides that rendering a configuration error (str()) never "
     "interprets user text as a format template.  Does not decide arbitrary "
     "implicit Python errors."))
_AMEND["C13"].append(
    ("text", "no load-phase function writes a module global, class attribute "
     "or mutable default;",
     "no load-phase function writes a module global, class attribute, "
     "class-level mutable container (through self) or mutable default;"))
_AMEND["C20"].append(
    ("text", "Does not decide anything the logging package does",
     "Also decides that the sample record of the load-time format check has, "
     "per attribute, the kind and magnitude of value real records carry.  "
     "Does not decide anything the logging package does"))
_AMEND.setdefault("C05", []).append(
    ("text", "Does not decide", "Also decides that handle_define consults and "
     "updates the mapping, and tests the name, only with the case-normalised "
     "name.  Does not decide"))
_AMEND.setdefault("C19", []).append(
    ("text", "consume or transfer the resource;",
     "consume or transfer the resource -- in whatever position the call "
     "stands: a resource created as an argument or a container element is "
     "accepted only when the callee takes ownership of that parameter "
     "(closes, enters, wraps or hands it on, on every path to its normal "
     "exit);"))
_AMEND.setdefault("C19", []).append(
    ("note", "straight-line total.",
     "straight-line total.  A callee that takes ownership of a parameter is "
     "not asked to close it on paths where it raises before the hand-over; "
     "the wrapped resource is a producer site of the callee and is checked on "
     "all exits there."))
_AMEND.setdefault("C14", []).append(
    ("text", "Decides that specifier validation precedes recording;",
     "Decides that specifier validation precedes recording and refuses "
     "exactly the reference's set of specifiers (string tests written "
     "differently are compared as regular languages);"))
_AMEND.setdefault("C18", []).append(
    ("text", "on both routes (same expression);",
     "on both routes (same expression), with loadURL / loadFile taken as each "
     "concrete loader resolves them (overrides seen through);"))
_AMEND.setdefault("C18", []).append(
    ("text", "that every urljoin base is the parser's own resource URL",
     "that every urljoin base is the parser's own resource URL (for a list "
     "of references: for each of them, not the previous result)"))
_AMEND.setdefault("C02", []).append(
    ("text", "text and key of <default>, order).",
     "text and key of <default> -- also the empty text of <default/> -- "
     "through the cdata hand-over, order)."))
_AMEND.setdefault("C03", []).append(
    ("text", "under CPython's backtracking priorities",
     "under CPython's backtracking priorities (with the flags they are "
     "compiled with; re.ASCII and re.IGNORECASE are modelled)"))
_AMEND.setdefault("C06", []).append(
    ("text", "Does not decide equality of outcomes",
     "The join of an include reference against the including URL equals the "
     "reference join.  Does not decide equality of outcomes"))
_AMEND.setdefault("C16", []).append(
    ("note", "Application subclasses",
     "C16.R2 uses the lemma that 'the converted name differs from the written "
     "one' is independent of the table of earlier converted names.  "
     "Application subclasses"))
_AMEND["C01"].append(
    ("text", "at both ends of a section;",
     "at both ends of a section, and that a section type's key type is its "
     "own, else its base's, else basic-key;"))
_AMEND["C07"].append(
    ("text", "Also decides that rendering a configuration error",
     "The include guard is required to hold while every call that leads back "
     "to the parser runs (the chain entry is popped in the finally of the "
     "try that contains them).  Also decides that rendering a configuration "
     "error"))
_AMEND.setdefault("C09", []).append(
    ("text", "docs<->registry agreement",
     "the registry's constructor, lookup order (basic-key normalisation of "
     "dot-free names; stock, then registered, then search) and reverse "
     "lookup, docs<->registry agreement"))
_AMEND.setdefault("C10", []).append(
    ("text", "in decision tables equal to a parsed reference;",
     "in decision tables equal to a parsed reference (including the parser "
     "constructors, the schema element's start and end, the closing "
     "handlers and the component parser's overrides);"))
_AMEND.setdefault("C12", []).append(
    ("text", "and refuses names that are not importable packages;",
     "and refuses names that are not importable packages (the error carries "
     "a copy of the package's search path); the parser hands the expanded, "
     "stripped name to the loader;"))
_AMEND["C13"].append(
    ("text", "the derived schema copies into its own containers.",
     "the derived schema copies into its own containers; type objects are "
     "constructed with their own empty containers."))
_AMEND.setdefault("C16", []).append(
    ("text", "that child matchers are given their parent's list",
     "that child matchers (also the overriding ones) are given their "
     "parent's list as a required argument, that a derived type keeps the "
     "base's item order"))
_AMEND.setdefault("C17", []).append(
    ("text", "that the reader recognises the empty form on the header text "
     "as written;",
     "that the reader recognises the empty form on the header text as "
     "written and strips every line of all surrounding whitespace;"))
_AMEND.setdefault("C05", []).append(
    ("text", "Does not decide outcomes of particular",
     "The reader side (substitute: lookup among the definitions read so far, "
     "the environment only for the env form) equals the reference.  Does not "
     "decide outcomes of particular"))
_AMEND.setdefault("C03", []).append(
    ("text", "directive set and argument requirement,",
     "directive set, argument requirement and argument splitting,"))
_AMEND.setdefault("C19", []).append(
    ("note", "A callee that takes ownership",
     "In the cross-checked decision tables a call inside try/finally may "
     "raise through the finally clause (so clean-up moved out of the finally "
     "is a difference).  A callee that takes ownership"))
# session 4
_AMEND["C01"].append(
    ("text", "and that every call through a datatype slot in matcher.py/"
     "info.py is wrapped into DataConversionError.",
     "that every call through a datatype slot in matcher.py/info.py is "
     "wrapped into DataConversionError; and, for 'the schema' of the "
     "statement, that a schema loader returns the schema parsed from the "
     "resource given (cache hits only under that resource's non-empty URL) "
     "and that the default key type accepts exactly the documented basic-key "
     "language."))
_AMEND["C07"].append(
    ("text", "Does not decide arbitrary implicit Python errors.",
     "Two implicit TypeError sources are attributed as raise sites of the "
     "escape analysis: str.join over a sequence whose inferred element types "
     "include None, and string concatenation with an operand that may be "
     "None (flow-insensitive types; a site is dropped when the function "
     "tests the operand for None-ness before it).  Does not decide other "
     "implicit Python errors."))
_AMEND.setdefault("C12", []).append(
    ("text", "(one known finding: F8).",
     "(one known finding: F8); that every load-phase lookup in the schema's "
     "own tables (type table, component registry: the containers the schema "
     "class creates and createDerivedSchema copies) goes through the "
     "loader's current schema or the schema under construction, never "
     "through a snapshot taken before a %import replaced the loader's schema "
     "(one known finding: F22, the option bag), and that the option bag "
     "looks a type up only for a section an override addresses."))
_AMEND["C13"].append(
    ("text", "type objects are constructed with their own empty containers.",
     "type objects are constructed with their own empty containers; the "
     "builder code that runs inside a load on the implementer table shared "
     "with the application schema (F8) reads and writes it exactly as the "
     "reference does."))
_AMEND.setdefault("C14", []).append(
    ("text", "extended loader iff overrides.",
     "extended loader iff overrides; that the option bag makes no lookup in "
     "the schema's type table through the schema snapshot it was built with "
     "(one known finding: F22 -- an override addressing a section of a "
     "%import-ed type is refused)."))
_AMEND["C07"].append(
    ("technique", "guard-dominance rules on a CFG",
     "guard-dominance rules on a CFG; implicit TypeError sites (None in "
     "str.join / string concatenation) from 0-CFA element types"))
_AMEND.setdefault("C11", []).append(
    ("technique", "component and base-schema handling",
     "component and base-schema handling + value-origin rule for tables "
     "keyed by key-type output (re-keying on derivation)"))
_AMEND["C11"].append(
    ("text", "Does not decide", "Also decides that no table keyed by "
     "key-type-normalised names is handed verbatim to a derived type whose "
     "key type may differ (one known finding: F25, the key map under "
     "extends + keytype).  Does not decide"))
_AMEND["C12"].append(
    ("technique", "ownership analysis of load-phase mutator calls",
     "ownership analysis of load-phase mutator calls + stale-snapshot rule "
     "(value origins of the receivers of vocabulary lookups) + "
     "restore/reset rule over the CFG of the top-level load function"))
_AMEND["C12"].append(
    ("text", "and that the option bag looks a type up only for a section an "
     "override addresses.",
     "that the option bag looks a type up only for a section an override "
     "addresses; that every loader field a load re-binds is put back or "
     "reset by the top-level load function on every path (F23, repaired); "
     "and that the shipped logger component declares the implementers its "
     "documentation names."))
_AMEND["C13"].append(
    ("technique", "memo and process-wide-state rules",
     "memo and process-wide-state rules (cache stores are the last effect "
     "of their function, on the CFG)"))
_AMEND["C14"].append(
    ("technique", "who-may-call rule for substitution",
     "who-may-call rule for substitution + judged-before-dropped ordering "
     "rule on the CFG of the key/value handler with callee escape sets + "
     "stale-snapshot rule (shared with C12)"))
_AMEND["C14"].append(
    ("text", "an override addressing a section of a %import-ed type is "
     "refused).",
     "an override addressing a section of a %import-ed type is refused); "
     "that nothing the parser does with a key/value line before the "
     "hand-over to the section can reject it (one known finding: F24 -- a "
     "line for an overridden key is $-expanded first); that errors raised "
     "when a section is finished keep their class on the way through the "
     "parser, for both spellings of a section."))
for _pid, _items in _AMEND.items():
    for _field, _old, _new in _items:
        assert _old in CLAIMS[_pid][_field], (_pid, _old)
        CLAIMS[_pid][_field] = CLAIMS[_pid][_field].replace(_old, _new)
