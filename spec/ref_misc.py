"""Reference implementations of the small constructors, predicates, exception
classes and helpers that the larger references rely on (statements of C01,
C02, C04, C07, C08, C09, C13, C16, C17, C18, C19, C20).
PARSED, NEVER EXECUTED."""
import re
import sys
import urllib.parse
import urllib.request
from collections import OrderedDict

import ZConfig
import ZConfig.components.logger.formatter
import ZConfig.datatypes
from ZConfig.components.logger.factory import Factory
from ZConfig.components.logger.formatter import _control_char_rewrites
from ZConfig.components.logger.formatter import ctrl_char_insert
from ZConfig.components.logger.handlers import _log_format_variables
from ZConfig.components.logger.handlers import _syslog_facilities
from ZConfig.datatypes import stock_datatypes
from ZConfig.info import BaseInfo
from ZConfig.info import BaseKeyInfo
from ZConfig.loader import BaseLoader
from ZConfig.loader import Resource
from ZConfig.loader import SchemaLoader
from ZConfig.components.logger.handlers import HandlerFactory
from ZConfig.schemaless import Context
from ZConfig.schemaless import Resource as sl_Resource
from ZConfig.schemaless import Parser
from ZConfig.schemaless import Section


# ------------------------------------------------------------ exceptions

def configurationerror_init(self, msg, url=None):
    self.message = msg
    self.url = url
    Exception.__init__(self, msg)


def parseerror_init(self, msg, url, lineno, colno=None):
    self.lineno = lineno
    self.colno = colno
    ZConfig.ConfigurationError.__init__(self, msg, url)


def schemaerror_init(self, msg, url=None, lineno=None, colno=None):
    ZConfig._ParseError.__init__(self, msg, url, lineno, colno)


def dataconversionerror_init(self, exception, value, position):
    ZConfig.ConfigurationError.__init__(self, str(exception))
    self.exception = exception
    self.value = value
    self.lineno, self.colno, self.url = position


def replacementerror_init(self, source, name, url=None, lineno=None):
    self.source = source
    self.name = name
    ZConfig.ConfigurationSyntaxError.__init__(
        self, "no replacement for " + repr(name), url, lineno)


# ------------------------------------------------------------------ info

def const_false(self):
    return False


def const_true(self):
    return True


def unbounded_gt(self, other):
    if isinstance(other, self.__class__):
        return False
    return True


def unbounded_eq(self, other):
    return isinstance(other, self.__class__)


def valueinfo_init(self, value, position):
    self.value = value
    self.position = position


def basekeyinfo_init(self, name, datatype, minOccurs, maxOccurs, handler,
                     attribute):
    BaseInfo.__init__(self, name, datatype, minOccurs, maxOccurs, handler,
                      attribute)
    self._finished = False


def keyinfo_init(self, name, datatype, minOccurs, handler, attribute):
    BaseKeyInfo.__init__(self, name, datatype, minOccurs, 1, handler,
                         attribute)
    if self.name == "+":
        self._default = OrderedDict()


def multikeyinfo_init(self, name, datatype, minOccurs, maxOccurs, handler,
                      attribute):
    BaseKeyInfo.__init__(self, name, datatype, minOccurs, maxOccurs, handler,
                         attribute)
    if self.name == "+":
        self._default = OrderedDict()
    else:
        self._default = []


def sectiontype_len(self):
    return len(self._children)


def sectiontype_getitem(self, index):
    return self._children[index]


def sectiontype_iter(self):
    return iter(self._children)


def abstracttype_iter(self):
    return iter(self._subtypes.items())


def itertypes(self):
    return iter(sorted(self._types.items()))


def getinfo(self, key):
    if not key:
        raise ZConfig.ConfigurationError("cannot match a key without a name")
    try:
        return self._keymap[key]
    except KeyError:
        raise ZConfig.ConfigurationError("no key matching")


# ---------------------------------------------------------------- loader

def resource_init(self, file, url):
    self.file = file
    self.url = url


def resource_enter(self):
    return self


def resource_getattr(self, name):
    return getattr(self.file, name)


def resource_close(self):
    if self.file is not None:
        self.file.close()
        self.file = None
        self.closed = True


def resource_exit(self, t, v, tb):
    self.close()


def createResource(self, file, url):
    return Resource(file, url)


def raise_open_error(self, url, message):
    if url[:7].lower() == "file://":
        what = "file"
        ident = urllib.request.url2pathname(url[7:])
    else:
        what = "URL"
        ident = url
    raise ZConfig.ConfigurationError("error opening", url)


def loadSchema(url):
    return SchemaLoader().loadURL(url)


def loadSchemaFile(file, url=None):
    return SchemaLoader().loadFile(file, url)


def schemaloader_init(self, registry=None):
    if registry is None:
        registry = ZConfig.datatypes.Registry()
    BaseLoader.__init__(self)
    self.registry = registry
    self._cache = {}


def configloader_init(self, schema):
    if schema.isabstract():
        raise ZConfig.SchemaError("cannot check an abstract type")
    BaseLoader.__init__(self)
    self.schema = schema
    self._base_schema = schema
    self._private_schema = False
    self._open_urls = []


def configloader_createSchemaMatcher(self):
    return ZConfig.matcher.SchemaMatcher(self.schema)


# -------------------------------------------------------------- cmdline

def extloader_init(self, schema):
    ZConfig.loader.ConfigLoader.__init__(self, schema)
    self.clopts = []


def set_optionbag(self, bag):
    self.optionbag = bag


def optionbag_keys(self):
    return self.keypairs.keys()


# ------------------------------------------------------------ datatypes

def regex_init(self, regex):
    self._rx = re.compile(regex)


def range_init(self, conversion, min=None, max=None):
    self._min = min
    self._max = max
    self._conversion = conversion


def memo_init(self, conversion):
    self._memo = {}
    self._conversion = conversion


def inet_init(self, default_host):
    self.DEFAULT_HOST = default_host


def registry_init(self, stock=None):
    if stock is None:
        stock = stock_datatypes.copy()
    self._stock = stock
    self._other = {}
    self._basic_key = None


def registry_register(self, name, conversion):
    if name in self._stock:
        raise ValueError("conflicts with built-in type")
    if name in self._other:
        raise ValueError("already registered")
    self._other[name] = conversion


def integer(value):
    return int(value)


def float_conversion(v):
    return float(v)


def null_conversion(value):
    return value


def string_list(s):
    return s.split()


# ------------------------------------------------------------ schemaless

def sl_loadConfigFile(file, url=None):
    c = Context()
    Parser(sl_Resource(file, url), c).parse(c.top)
    return c.top


def sl_context_init(self):
    self.top = Section()
    self.sections = []


def sl_endSection(self, container, type_, name, newsect):
    pass


def sl_section_init(self, type='', name='', data=None, sections=None):
    dict.__init__(self)
    if data:
        self.update(data)
    self.sections = sections or []
    self.type, self.name = type, name


# --------------------------------------------------------------- matcher

def getSectionMatcher(self):
    return self._matcher


# ---------------------------------------------------------------- logger

def syslog_facility(value):
    value = value.lower()
    if value not in _syslog_facilities:
        raise ValueError("Syslog facility must be one of ...")
    return value


def get_or_post(value):
    value = value.upper()
    if value != 'GET' and value != 'POST':
        raise ValueError("method must be GET or POST")
    return value


def http_handler_url(value):
    scheme, netloc, path, param, query, fragment = urllib.parse.urlparse(
        value)
    if scheme != 'http':
        raise ValueError('url must be an http url')
    if not netloc:
        raise ValueError('url must specify a location')
    if not path:
        raise ValueError('url must specify a path')
    q = []
    if param:
        q.append(';')
        q.append(param)
    if query:
        q.append('?')
        q.append(query)
    if fragment:
        q.append('#')
        q.append(fragment)
    return (netloc, path + ''.join(q))


def log_format(value):
    value = ZConfig.components.logger.formatter.ctrl_char_insert(value)
    try:
        value % _log_format_variables
    except (ValueError, KeyError):
        raise ValueError('Invalid log format string')
    return value


def ctrl_char_insert(value):
    for pattern, replacement in _control_char_rewrites:
        value = value.replace(pattern, replacement)
    return value


def escaped_string(value):
    return ctrl_char_insert(value)


def handlerfactory_init(self, section):
    Factory.__init__(self)
    self.section = section
    factory = ZConfig.components.logger.formatter.FormatterFactory(section)
    self.create_formatter = factory


def handlerfactory_getLevel(self):
    return self.section.level


def filehandler_create_loghandler(self):
    return self._factory()


def logger_startup(self):
    self()


def logger_reopen(self):
    logger = self()
    for handler in logger.handlers:
        reopen = getattr(handler, "reopen", None)
        if reopen is not None and callable(reopen):
            reopen()


def smtp_init(self, section):
    HandlerFactory.__init__(self, section)
    username = self.section.smtp_username
    password = self.section.smtp_password
    if username:
        if not password:
            raise ValueError('both or none')
    elif password:
        raise ValueError('both or none')


def mapping(section):
    return section.mapping


# Registry lookups (docs/using-zconfig.rst 'Standard Datatypes' / registry
# API): a dot-free name is normalised through basic-key (the registered one,
# else the stock one) before lookup; stock names win over registered ones;
# anything else is searched as a dotted Python name and remembered.

def registry_get(self, name):
    if '.' not in name:
        if self._basic_key is None:
            self._basic_key = self._other.get("basic-key")
            if self._basic_key is None:
                self._basic_key = self._stock.get("basic-key")
            if self._basic_key is None:
                self._basic_key = stock_datatypes["basic-key"]
        name = self._basic_key(name)
    t = self._stock.get(name)
    if t is None:
        t = self._other.get(name)
        if t is None:
            t = self.search(name)
    return t


def registry_search(self, name):
    if "." not in name:
        raise ValueError("unloadable datatype name")
    components = name.split('.')
    start = components[0]
    g = {}
    package = __import__(start, g, g)
    modulenames = [start]
    for component in components[1:]:
        modulenames.append(component)
        try:
            package = getattr(package, component)
        except AttributeError:
            n = '.'.join(modulenames)
            package = __import__(n, g, g, component)
    self._other[name] = package
    return package


def registry_find_name(self, conversion):
    for dct in self._other, self._stock:
        for k, v in dct.items():
            if v is conversion:
                return k
    return str(conversion)


def schemaresourceerror_init(self, msg, url=None, lineno=None, colno=None,
                             path=None, package=None, filename=None):
    # carries what was looked for; the package's search path is copied (the
    # error must not alias the package's own __path__ list)
    self.filename = filename
    self.package = package
    if path is not None:
        path = path[:]
    self.path = path
    ZConfig.SchemaError.__init__(self, msg, url, lineno, colno)
