"""Reference for ZConfig.url and the URL-handling parts of the loaders and the
schema parser (statement of C18).  PARSED, NEVER EXECUTED."""
import http.client
import urllib.parse
import urllib.request
import xml.sax
from io import StringIO

import ZConfig
from ZConfig import url
from ZConfig.loader import openPackageResource
from ZConfig.url import urlnormalize
from ZConfig.schema import ComponentParser
from ZConfig.schema import SchemaParser


def urlnormalize(url):
    lc = url.lower()
    if not lc.startswith("file:/"):
        return url
    if lc.startswith("file:///"):
        return url
    return "file://" + url[5:]


def urldefrag(url):
    url, fragment = urllib.parse.urldefrag(url)
    return urlnormalize(url), fragment


def urljoin(base, relurl):
    url = urllib.request.urljoin(base, relurl)
    if url.startswith("file:/") and not url.startswith("file:///"):
        url = "file://" + url[5:]
    return url


def openResource(self, url):
    url = str(url)
    if url.startswith("package:"):
        parts = url.split(":", 2)
        if len(parts) != 3:
            raise ZConfig.ConfigurationError("bad package URL", url)
        _, package, filename = parts
        file = openPackageResource(package, filename)
        return self.createResource(file, url)
    try:
        file = urllib.request.urlopen(url)
    except urllib.request.URLError as e:
        self._raise_open_error(url, e.reason)
    except OSError as e:
        self._raise_open_error(url, str(e))
    except ValueError as e:
        self._raise_open_error(url, str(e))
    except http.client.HTTPException as e:
        self._raise_open_error(url, str(e))
    try:
        data = file.read()
    finally:
        file.close()
    if isinstance(data, bytes):
        try:
            data = data.decode('utf-8')
        except UnicodeDecodeError as e:
            self._raise_open_error(url, str(e))
    file = StringIO(data)
    return self.createResource(file, url)


def parseResource(resource, loader):
    parser = SchemaParser(loader, resource.url)
    xml.sax.parse(resource.file, parser)
    return parser._schema


def parseComponent(resource, loader, schema):
    parser = ComponentParser(loader, resource.url, schema)
    xml.sax.parse(resource.file, parser)


def loadComponent(self, src):
    parser = ComponentParser(self._loader, src, self._schema)
    with self._loader.openResource(src) as r:
        xml.sax.parse(r.file, parser)


def extendSchema(self, src):
    parser = SchemaParser(self._loader, src, self)
    with self._loader.openResource(src) as r:
        xml.sax.parse(r.file, parser)


def urlunsplit(parts):
    parts = list(parts)
    parts.insert(3, '')
    url = urllib.request.urlunparse(tuple(parts))
    if parts[0] == "file":
        if url.startswith("file:/"):
            if not url.startswith("file:///"):
                url = "file://" + url[5:]
    return url
