"""Reference implementation of ZConfig.substitution (docs/py-mod-subst.rst and
the statement of C04).  PARSED, NEVER EXECUTED."""
import os

import ZConfig
from ZConfig.substitution import _name_match
from ZConfig.substitution import _split


def isname(s):
    m = _name_match(s)
    if not m:
        return False
    if m.group() == s:
        return True
    return False


def split(s):
    # (prefix, lower-cased name, name, rest, kind)
    if "$" not in s:
        return s, None, None, None, None
    i = s.find("$")
    c = s[i + 1:i + 2]
    if c == "":
        raise ZConfig.SubstitutionSyntaxError()
    if c == "$":
        return s[:i + 1], None, None, s[i + 2:], None
    if c == "{":
        m = _name_match(s, i + 2)
        if not m:
            raise ZConfig.SubstitutionSyntaxError()
        if not s.startswith("}", m.end()):
            raise ZConfig.SubstitutionSyntaxError()
        return s[:i], m.group(0).lower(), m.group(0), s[m.end() + 1:], "define"
    if c == "(":
        m = _name_match(s, i + 2)
        if not m:
            raise ZConfig.SubstitutionSyntaxError()
        if not s.startswith(")", m.end()):
            raise ZConfig.SubstitutionSyntaxError()
        return s[:i], m.group(0).lower(), m.group(0), s[m.end() + 1:], "env"
    m = _name_match(s, i + 1)
    if not m:
        raise ZConfig.SubstitutionSyntaxError()
    return s[:i], m.group(0).lower(), m.group(0), s[m.end():], "define"


def substitute(s, mapping):
    if "$" not in s:
        return s
    result = ""
    rest = s
    while rest:
        p, name, namecase, rest, vtype = _split(rest)
        result += p
        if name:
            if vtype == "define":
                v = mapping.get(name)
            elif vtype == "env":
                v = os.getenv(namecase)
            else:
                v = None
            if v is None:
                raise ZConfig.SubstitutionReplacementError(s, namecase)
            result += v
    return result
