"""Reference for the schema parser's rule-enforcing methods (docs/schema.dtd,
docs/using-zconfig.rst 'Writing Configuration Schema', statements of C02,
C10, C11, C12).  PARSED, NEVER EXECUTED."""
import os
import sys

import ZConfig
from ZConfig import info
from ZConfig import url
from ZConfig.schema import BaseParser


def get_name_info(self, attrs, element, default=None):
    name = attrs.get("name", default)
    if not name:
        self.error("name must be specified and non-empty")
    aname = attrs.get("attribute")
    if aname:
        aname = self.identifier(aname)
        if aname.startswith("getSection"):
            self.error("reserved attribute prefix")
    if name == "*" or name == "+":
        if not aname:
            self.error("container attribute must be specified")
        return name, None, aname
    try:
        name = self._stack[-1].keytype(name)
    except ValueError as e:
        self.error("could not convert key name to keytype")
    if not aname:
        aname = self.basic_key(name)
        aname = self.identifier(aname.replace('-', '_'))
    return None, name, aname


def get_key_info(self, attrs, element):
    any_name, name, attribute = self.get_name_info(attrs, element)
    if any_name == '*':
        self.error("may not specify '*' for name")
    if not name and any_name != '+':
        self.error("name may not be omitted or empty")
    datatype = self.get_datatype(attrs, "datatype", "string")
    handler = self.get_handler(attrs)
    return name or any_name, datatype, handler, attribute


def get_required(self, attrs):
    if "required" not in attrs:
        return False
    v = attrs["required"]
    if v == "yes":
        return True
    if v == "no":
        return False
    self.error("value for 'required' must be 'yes' or 'no'")


def get_ordinality(self, attrs):
    minOccurs, maxOccurs = 0, info.Unbounded
    if self.get_required(attrs):
        minOccurs = 1
    return minOccurs, maxOccurs


def get_sectiontype(self, attrs):
    type_name = attrs.get("type")
    if not type_name:
        self.error("section must specify type")
    return self._schema.gettype(type_name)


def get_handler(self, attrs):
    v = attrs.get("handler")
    if v is None:
        return v
    return self.basic_key(v)


def get_datatype(self, attrs, attrkey, default, base=None):
    if attrkey in attrs:
        dtname = self.get_classname(attrs[attrkey])
    else:
        convert = getattr(base, attrkey, None)
        if convert is not None:
            return convert
        dtname = default
    try:
        return self._registry.get(dtname)
    except ValueError as e:
        self.error(e.args[0])


def get_sect_typeinfo(self, attrs, base=None):
    keytype = self.get_datatype(attrs, "keytype", "basic-key", base)
    valuetype = self.get_datatype(attrs, "valuetype", "string")
    datatype = self.get_datatype(attrs, "datatype", "null", base)
    return keytype, valuetype, datatype


def push_prefix(self, attrs):
    name = attrs.get("prefix")
    if name:
        if self._prefixes:
            convert = self._registry.get("dotted-suffix")
        else:
            convert = self._registry.get("dotted-name")
        try:
            name = convert(name)
        except ValueError as err:
            self.error("not a valid prefix")
        if name[0] == ".":
            prefix = self._prefixes[-1] + name
        else:
            prefix = name
    elif self._prefixes:
        prefix = self._prefixes[-1]
    else:
        prefix = ''
    self._prefixes.append(prefix)


def pop_prefix(self):
    del self._prefixes[-1]


def get_classname(self, name):
    name = str(name)
    if name.startswith("."):
        return self._prefixes[-1] + name
    return name


def start_key(self, attrs):
    name, datatype, handler, attribute = self.get_key_info(attrs, "key")
    minOccurs = 1 if self.get_required(attrs) else 0
    key = info.KeyInfo(name, datatype, minOccurs, handler, attribute)
    if "default" in attrs:
        if minOccurs:
            self.error("required key cannot have a default value")
        key.adddefault(str(attrs["default"]).strip(), self.get_position())
    if name != "+":
        key.finish()
    self._stack[-1].addkey(key)
    self._stack.append(key)


def end_key(self):
    key = self._stack.pop()
    if key.name == "+":
        key.computedefault(self._stack[-1].keytype)
        key.finish()


def start_multikey(self, attrs):
    if "default" in attrs:
        self.error("default values for multikey must use default elements")
    name, datatype, handler, attribute = self.get_key_info(attrs, "multikey")
    minOccurs, maxOccurs = self.get_ordinality(attrs)
    key = info.MultiKeyInfo(name, datatype, minOccurs, maxOccurs, handler,
                            attribute)
    self._stack[-1].addkey(key)
    self._stack.append(key)


def end_multikey(self):
    multikey = self._stack.pop()
    if multikey.name == "+":
        multikey.computedefault(self._stack[-1].keytype)
    multikey.finish()


def start_section(self, attrs):
    sectiontype = self.get_sectiontype(attrs)
    handler = self.get_handler(attrs)
    minOccurs = 1 if self.get_required(attrs) else 0
    any_name, name, attribute = self.get_name_info(attrs, "section", "*")
    if any_name and not attribute:
        self.error("attribute must be specified")
    section = info.SectionInfo(any_name or name, sectiontype, minOccurs, 1,
                               handler, attribute)
    self._stack[-1].addsection(name, section)
    self._stack.append(section)


def start_multisection(self, attrs):
    sectiontype = self.get_sectiontype(attrs)
    minOccurs, maxOccurs = self.get_ordinality(attrs)
    any_name, name, attribute = self.get_name_info(attrs, "multisection", "*")
    if any_name != "*" and any_name != "+":
        self.error("multisection must specify '*' or '+' for the name")
    handler = self.get_handler(attrs)
    section = info.SectionInfo(any_name or name, sectiontype, minOccurs,
                               maxOccurs, handler, attribute)
    self._stack[-1].addsection(name, section)
    self._stack.append(section)


def start_abstracttype(self, attrs):
    name = attrs.get("name")
    if not name:
        self.error("abstracttype name must not be omitted or empty")
    name = self.basic_key(name)
    abstype = info.AbstractType(name)
    self._schema.addtype(abstype)
    self._stack.append(abstype)


def start_sectiontype(self, attrs):
    name = attrs.get("name")
    if not name:
        self.error("sectiontype name must not be omitted or empty")
    name = self.basic_key(name)
    self.push_prefix(attrs)
    if "extends" in attrs:
        basename = self.basic_key(attrs["extends"])
        base = self._schema.gettype(basename)
        if base.isabstract():
            self.error("sectiontype cannot extend an abstract type")
        keytype, valuetype, datatype = self.get_sect_typeinfo(attrs, base)
        sectinfo = self._schema.deriveSectionType(base, name, keytype,
                                                  valuetype, datatype)
    else:
        keytype, valuetype, datatype = self.get_sect_typeinfo(attrs)
        sectinfo = self._schema.createSectionType(name, keytype, valuetype,
                                                  datatype)
    if "implements" in attrs:
        ifname = self.basic_key(attrs["implements"])
        interface = self._schema.gettype(ifname)
        if not interface.isabstract():
            self.error("implements does not name an abstracttype")
        interface.addsubtype(sectinfo)
    self._stack.append(sectinfo)


def end_sectiontype(self):
    self.pop_prefix()
    self._stack.pop()


def end_pop(self):
    self._stack.pop()


def start_import(self, attrs):
    src = attrs.get("src", "").strip()
    pkg = attrs.get("package", "").strip()
    filename = attrs.get("file", "").strip()
    if not (src or pkg):
        self.error("import must specify either src or package")
    if src and pkg:
        self.error("import may only specify one of src or package")
    if src:
        if filename:
            self.error("import may not specify file and src")
        src = url.urljoin(self._url, src)
        src, fragment = url.urldefrag(src)
        if fragment:
            self.error("import src may not include a fragment identifier")
        schema = self._loader.loadURL(src)
        for n in schema.gettypenames():
            self._schema.addtype(schema.gettype(n))
    else:
        if os.path.dirname(filename):
            self.error("file may not include a directory part")
        pkg = self.get_classname(pkg)
        src = self._loader.schemaComponentSource(pkg, filename)
        if not self._schema.hasComponent(src):
            self._schema.addComponent(src)
            self.loadComponent(src)


def characters_default(self, data):
    key = self._attrs.get("key")
    self._stack[-1].adddefault(data, self._position, key)


def characters_description(self, data):
    if self._stack[-1].description is not None:
        self.error("at most one <description>")
    self._stack[-1].description = data


def characters_example(self, data):
    if self._stack[-1].example is not None:
        self.error("at most one <example>")
    self._stack[-1].example = data


def basic_key(self, s):
    try:
        return self._basic_key(s)
    except ValueError as e:
        self.error(str(e))


def identifier(self, s):
    try:
        return self._identifier(s)
    except ValueError as e:
        self.error(str(e))


def error(self, message, kind=None):
    kind = kind or ZConfig.SchemaError
    raise self.initerror(kind(message))


def initerror(self, e):
    if self._locator is not None:
        e.colno = self._locator.getColumnNumber()
        e.lineno = self._locator.getLineNumber()
        e.url = self._locator.getSystemId()
    return e


def component_start_key(self, attrs):
    self._check_not_toplevel("key")
    BaseParser.start_key(self, attrs)


def start_component(self, attrs):
    self._schema = self._parent
    self.push_prefix(attrs)


def end_component(self):
    self.pop_prefix()


def startElement(self, name, attrs):
    attrs = dict(attrs)
    if self._elem_stack:
        parent = self._elem_stack[-1]
        if name not in self._allowed_parents:
            self.error("Unknown tag")
        if parent not in self._allowed_parents[name]:
            self.error("may not be nested")
    elif name != self._top_level:
        self.error("Unknown document type", ZConfig.UnknownDocumentTypeError)
    self._elem_stack.append(name)
    if name == self._top_level:
        if self._schema is not None:
            self.error("schema element improperly nested")
        getattr(self, "start_" + name)(attrs)
    elif name in self._handled_tags:
        if self._schema is None:
            self.error("element outside of schema")
        getattr(self, "start_" + name)(attrs)
    elif name in self._cdata_tags:
        if self._schema is None:
            self.error("element outside of schema")
        if self._cdata is not None:
            self.error("element improperly nested")
        self._cdata = []
        self._position = None
        self._attrs = attrs


def characters(self, data):
    if self._cdata is not None:
        if self._position is None:
            self._position = self.get_position()
        self._cdata.append(data)
    elif data.strip():
        self.error("unexpected non-blank character data")


def endElement(self, name):
    del self._elem_stack[-1]
    if name in self._handled_tags:
        getattr(self, "end_" + name)()
    else:
        data = ''.join(self._cdata).strip()
        self._cdata = None
        if self._position is None:
            # an empty element has no character data to take a position from
            self._position = self.get_position()
        getattr(self, "characters_" + name)(data)


def start_schema(self, attrs):
    self.push_prefix(attrs)
    handler = self.get_handler(attrs)
    keytype, valuetype, datatype = self.get_sect_typeinfo(attrs)
    if self._extending_parser is None:
        self._schema = info.SchemaType(keytype, valuetype, datatype, handler,
                                       self._url, self._registry)
    else:
        self._schema = self._extending_parser._schema
    self._stack = [self._schema]
    if "extends" in attrs:
        sources = attrs["extends"].split()
        sources.reverse()
        for src in sources:
            src = url.urljoin(self._url, src)
            src, fragment = url.urldefrag(src)
            if fragment:
                self.error("schema extends may not include a fragment")
            self.extendSchema(src)
        if self._base_keytypes and "keytype" not in attrs:
            keytype = self._base_keytypes[0]
            for kt in self._base_keytypes[1:]:
                if kt is not keytype:
                    self.error("conflicting keytypes")
        if self._base_datatypes and "datatype" not in attrs:
            datatype = self._base_datatypes[0]
            for dt in self._base_datatypes[1:]:
                if dt is not datatype:
                    self.error("conflicting datatypes")
    self._schema.keytype = keytype
    self._schema.valuetype = valuetype
    self._schema.datatype = datatype
    if self._extending_parser is not None:
        self._extending_parser._base_keytypes.append(keytype)
        self._extending_parser._base_datatypes.append(datatype)


def schemaComponentSource(self, package, filename):
    parts = package.split(".")
    if not parts:
        raise ZConfig.SchemaError("illegal schema component name")
    if "" in parts:
        raise ZConfig.SchemaError("illegal schema component name")
    filename = filename or "component.xml"
    try:
        __import__(package)
    except ImportError as e:
        raise ZConfig.SchemaResourceError("could not load package",
                                          filename=filename, package=package)
    pkg = sys.modules[package]
    if not hasattr(pkg, "__path__"):
        raise ZConfig.SchemaResourceError("not a package", filename=filename,
                                          package=package)
    return f"package:{package}:{filename}"


# --------------------------------------------------------------------------
# Constructors and the small methods every element passes through: the
# parser starts with nothing remembered (no locator, no schema, empty stacks),
# one type / info object is popped per closed element, a base schema's
# description is offered to the extending parser and the top-level schema takes
# the last offered one only if it has none of its own.

def baseparser_init(self, loader, url):
    self._registry = loader.registry
    self._loader = loader
    self._basic_key = self._registry.get("basic-key")
    self._identifier = self._registry.get("identifier")
    self._cdata = None
    self._locator = None
    self._prefixes = []
    self._schema = None
    self._stack = []
    self._url = url
    self._elem_stack = []


def schemaparser_init(self, loader, url, extending_parser=None):
    BaseParser.__init__(self, loader, url)
    self._extending_parser = extending_parser
    self._base_keytypes = []
    self._base_datatypes = []
    self._descriptions = []


def componentparser_init(self, loader, url, schema):
    BaseParser.__init__(self, loader, url)
    self._parent = schema


def setDocumentLocator(self, locator):
    self._locator = locator


def endDocument(self):
    if self._schema is None:
        self.error("no document element found")


def get_position(self):
    if self._locator:
        return (self._locator.getLineNumber(),
                self._locator.getColumnNumber(),
                (self._locator.getSystemId() or self._url))
    return None, None, self._url


def characters_metadefault(self, data):
    self._stack[-1].metadefault = data


def end_import(self):
    pass


def end_pop(self):
    # end_section / end_multisection / end_abstracttype
    self._stack.pop()


def end_schema(self):
    del self._stack[-1]
    assert not self._stack
    self.pop_prefix()
    assert not self._prefixes
    schema = self._schema
    if self._extending_parser is None:
        if self._descriptions and not schema.description:
            schema.description = self._descriptions[-1]
    elif schema.description:
        self._extending_parser._descriptions.append(schema.description)
        schema.description = None


def component_characters_description(self, data):
    if self._stack:
        self._stack[-1].description = data


def component_start_key(self, attrs):
    self._check_not_toplevel("key")
    BaseParser.start_key(self, attrs)


def component_start_multikey(self, attrs):
    self._check_not_toplevel("multikey")
    BaseParser.start_multikey(self, attrs)


def component_start_section(self, attrs):
    self._check_not_toplevel("section")
    BaseParser.start_section(self, attrs)


def component_start_multisection(self, attrs):
    self._check_not_toplevel("multisection")
    BaseParser.start_multisection(self, attrs)


def start_component(self, attrs):
    self._schema = self._parent
    self.push_prefix(attrs)


def end_component(self):
    self.pop_prefix()


def check_not_toplevel(self, what):
    if not self._stack:
        self.error("cannot define a top-level item in a component")
