#!/venv/bin/python
"""Regenerates MANIFEST.json from the rule modules present in rules/ and the
per-property metadata in spec/claims.py."""
import json
import os
import sys

HERE = os.path.dirname(os.path.abspath(__file__))
sys.path.insert(0, HERE)
from spec import claims  # noqa: E402


def main():
    props = [json.loads(l) for l in open(os.path.join(HERE, "properties.jsonl"))]
    checks, na = [], []
    for p in props:
        pid = p["id"]
        c = claims.CLAIMS.get(pid)
        if c is None or not os.path.exists(
                os.path.join(HERE, "rules", pid.lower() + ".py")):
            na.append({"property_id": pid,
                       "reason": claims.NOT_APPLICABLE.get(
                           pid, "rules of DESIGN section 2 not implemented "
                           "yet; nothing weaker is claimed")})
            continue
        checks.append({
            "property_id": pid,
            "quick_cmd": "./check %s --tier quick" % pid,
            "thorough_cmd": "./check %s --tier thorough" % pid,
            "evidence_file": "/verif/evidence/%s.json" % pid,
            "replay_cmd_template": "./check %s --replay {path}" % pid,
            "engine": "zcstatic",
            "level_claimed": {"category": c["level"], "text": c["text"],
                              "design_ref": "DESIGN.md section 2, " + pid},
            "level_note": c["note"],
            "technique": c["technique"],
        })
    man = {
        "version": 1,
        "setup_cmd": "/venv/bin/python -m compileall -q zcstatic rules spec "
                     "selftest >/dev/null; /venv/bin/python -c \"import ast\"",
        "hooks": {
            "guard": "ZCONFIG_VERIF",
            "enable": "none needed: the checks read the source tree and "
                      "never execute it; no hook commits exist",
            "baseline_off_cmd": "cd /repo && /venv/bin/python -m pytest -ra -q "
                                "-p no:cacheprovider --timeout=900 "
                                "--continue-on-collection-errors",
            "source_commits": [],
            "add_only": True,
        },
        "engines": [{
            "name": "zcstatic",
            "path": "/verif/zcstatic",
            "serves_properties": [c["property_id"] for c in checks],
            "kind_free_text": "purpose-built static analyser for ZConfig "
                              "(ast-based resolver, CFG with exception edges, "
                              "call graph + exception flow, regex/string "
                              "automata, finite decision tables, typestate); "
                              "stdlib only; never imports or runs the repo",
        }],
        "checks": checks,
        "not_applicable": na,
        "notes": claims.NOTES,
    }
    with open(os.path.join(HERE, "MANIFEST.json"), "w") as f:
        json.dump(man, f, indent=1)
    print("MANIFEST.json: %d checks, %d not_applicable" % (len(checks), len(na)))


if __name__ == "__main__":
    main()
