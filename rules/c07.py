"""C07 -- user input can only produce configuration errors.

Decides: the set of exception classes that can propagate out of the public
load entry points along every resolved call-graph path, for explicit raises
and the documented exceptions of external callees (R1); the element order of
every position tuple that reaches a position sink (R2); that every call-graph
cycle driven by configuration text has a membership guard (R3); that integer
subscripts and fixed-arity unpackings of text-derived sequences are guarded
(R4, R8); the structure of validator.main (R7).
Does not decide arbitrary implicit Python errors (AttributeError on an
unexpected None, etc.).
"""
import ast

from zcstatic import absint as A
from zcstatic import cfg as cfgmod
from zcstatic.excflow import PSEUDO_OWN, UNKNOWN
from zcstatic.model import dotted, src, walk_shallow
from zcstatic.report import AnalysisError

LD = "ZConfig.loader"
CFGERR = "ZConfig.ConfigurationError"

ENTRY_POINTS = [
    (LD + ".loadConfig", None),
    (LD + ".loadConfigFile", None),
    (LD + ".BaseLoader.loadURL", LD + ".ConfigLoader"),
    (LD + ".BaseLoader.loadFile", LD + ".ConfigLoader"),
    (LD + ".BaseLoader.loadURL", "ZConfig.cmdline.ExtendedConfigLoader"),
    (LD + ".BaseLoader.loadFile", "ZConfig.cmdline.ExtendedConfigLoader"),
    ("ZConfig.cmdline.ExtendedConfigLoader.addOption", None),
]

# Reasoned, frozen exceptions (keyed by raising construct, never by line):
#  (function containing the raising site, normalised construct) -> reason
ALLOWED_SITES = {
    ("ZConfig.matcher.SchemaMatcher.finish", "self.type.datatype"):
        "ValueError of the schema-level datatype: there is no enclosing "
        "container to attribute a position to; it is an error raised by a "
        "datatype function itself, which the property lets through",
}


def site_function(m, site):
    """Qualified name of the function containing 'path:line ...'."""
    loc = site.split(" ")[0]
    path, _, line = loc.rpartition(":")
    line = int(line)
    best = None
    for fi in m.functions.values():
        if m.rel(fi.module.path) == path:
            n = fi.node
            if n.lineno <= line <= (n.end_lineno or n.lineno):
                if best is None or n.lineno >= best.node.lineno:
                    best = fi
    return best.qualname if best else "?"


def chain_modules(chain):
    return [c.split(":")[0].split(" ")[0] for c in chain]


def run(ctx):
    run, m, P = ctx.run, ctx.model, ctx.program
    run.explanation = (
        "Decides which exception classes can leave the load entry points: a "
        "fixpoint over the resolved call graph (receiver-class-sensitive, "
        "with SAX callback edges) of explicit raises, re-raises and the "
        "documented exceptions of external callees, filtered by the enclosing "
        "handlers through the class hierarchy; plus tuple-shape, recursion-"
        "guard, subscript-guard and unpack-arity rules for four classes of "
        "implicit raisers.  Does not decide arbitrary implicit Python errors.")
    run.assumptions = [
        "external callees raise only what DESIGN appendix A6 lists "
        "(bytes.decode and xml.sax.parse deliberately not attributed)",
        "calls through attributes named like datatype slots raise ValueError "
        "or the datatype's own error; other unknown attribute calls raise "
        "nothing relevant",
        "exceptions whose call chain passes through the schema/component SAX "
        "parser are driven by schema documents (C10), not by configuration "
        "text; only ConfigurationError-family classes are expected there but "
        "others are listed, not reported"]
    run.rule("C07.R1", "escape set of every load entry point is within the "
             "configuration-error family (or a datatype's own error)",
             floor=len(ENTRY_POINTS))
    run.rule("C07.R2", "every position tuple reaching a position sink has the "
             "element order the sink unpacks", floor=4)
    run.rule("C07.R3", "every call-graph cycle through the configuration "
             "parser has a membership guard raising a configuration error")
    run.rule("C07.R4", "integer subscripts of text-derived sequences in the "
             "parser are guarded", floor=2)
    run.rule("C07.R7", "validator.main: one handler for ConfigurationError "
             "around the load; returns int(flag)")
    run.rule("C07.R8", "tuple-unpacking of split() results has a guard on the "
             "number of fields", floor=1)

    ef = ctx.excflow
    _install_specialisations(ctx, ef)

    # ------------------------------------------------------------------ R1
    listed = []
    for q, rc in ENTRY_POINTS:
        fi = m.fn(q)
        esc = ef.escapes(fi, rc)
        bad = {}
        for k, info in esc.items():
            cls = k[0]
            if cls == PSEUDO_OWN or ef.is_sub(cls, CFGERR):
                continue
            bad[k] = info
        name = q if rc is None else "%s[self:%s]" % (q, rc.split(".")[-1])
        n_bad = 0
        for k, info in sorted(bad.items()):
            chain = ef.chain(fi, k, rc)
            sfn = site_function(m, k[1])
            construct = k[1].split(" ", 1)[1] if " " in k[1] else "raise"
            construct = construct.replace("slot ", "")
            if k[0] == "builtins.AssertionError" and _assert_unreachable(
                    ctx, sfn, k[1]):
                listed.append({"entry": name, "class": k[0], "site": k[1],
                               "reason": "no consistent path of the function "
                               "(callees executed inline) reaches this "
                               "assertion failure: a defensive check that "
                               "cannot fire"})
                continue
            if (sfn, construct) in ALLOWED_SITES:
                listed.append({"entry": name, "class": k[0], "site": k[1],
                               "reason": ALLOWED_SITES[(sfn, construct)]})
                continue
            if sfn.startswith("ZConfig.schemaless."):
                listed.append({"entry": name, "class": k[0], "site": k[1],
                               "reason": "raised by the schema-less context; "
                               "the loader constructs the parser with itself "
                               "as context (field typing is not context "
                               "sensitive)"})
                continue
            if any(c.startswith("ZConfig.schema.") and (
                    ".start" in c or ".end" in c or ".characters" in c
                    or "parseComponent" in c or "parseResource" in c)
                   for c in chain[1:]):
                listed.append({"entry": name, "class": k[0], "site": k[1],
                               "reason": "reached only through the schema/"
                               "component SAX parser: driven by a schema "
                               "document, not by configuration text"})
                continue
            if info.get("amb") or k[0] == UNKNOWN:
                run.soft_error("C07.R1: %s may let %s escape but the call "
                               "chain contains an unresolved receiver: %s"
                               % (name, k[0], " -> ".join(chain)))
                continue
            n_bad += 1
            run.fail("C07.R1", sfn, "%s: %s" % (k[0].split(".")[-1],
                                                construct),
                     "%s can escape from %s (not a configuration error)"
                     % (k[0], name), loc=k[1].split(" ")[0],
                     witness={"entry": name, "class": k[0], "site": k[1],
                              "chain": chain})
        if not n_bad:
            run.ok("C07.R1", name, "escape set",
                   "all %d (class, raise site) pairs that can leave are "
                   "ConfigurationError-family or datatype-own (%d identities "
                   "analysed)" % (len(esc), len(ef.tab)),
                   loc=m.loc(fi, fi.node))
    run.analysed["identities"] = len(ef.tab)
    run.analysed["fixpoint_iterations"] = ef.iterations
    run.extra["listed_not_reported"] = listed[:60]

    # R9 (borrowed from C02.R1): slot kind safety.  A value of the wrong
    # kind in a slot (a ValueInfo where a section value belongs, a list where
    # a mapping belongs) surfaces later as AttributeError/TypeError from
    # finish()/constuct(); the per-child decision tables of the methods that
    # fill and consume slots must agree with the reference.
    from rules.common import crosscheck
    run.rule("C07.R10", "rendering a configuration error (str()) never "
             "interprets user text as a format: every %-format / .format "
             "template in the error classes is a literal", floor=3)
    run.rule("C07.R9", "slot kind safety: the methods that fill and consume "
             "slots agree on the kind of value per child (borrowed from "
             "C02.R1)", floor=4)
    BM = "ZConfig.matcher.BaseMatcher"
    def family(p, base):
        # C07 only cares that a refusal is *some* configuration error
        if base[0] == "raise" and (base[1] in m.classes and m.is_subclass(
                base[1], CFGERR)):
            return ("raise", "<configuration error>")
        return base
    for live, ref in (("addValue", "addValue"), ("addSection", "addSection"),
                      ("finish", "finish"), ("constuct", "construct")):
        crosscheck(ctx, "C07.R9", BM + "." + live, "ref_matcher.py", ref, BM,
                   "per-child slot handling of " + live, outcome_norm=family)

    crosscheck(ctx, "C07.R1", "ZConfig.loader.BaseLoader._raise_open_error",
               "ref_misc.py", "raise_open_error",
               "ZConfig.loader.BaseLoader",
               "open failures always become a ConfigurationError")

    _r2_positions(ctx)
    _r3_cycles(ctx)
    _r4_subscripts(ctx)
    run.rule("C07.R5", "mapping lookups with non-constant keys on load paths "
             "are guarded (try / membership test / iteration / slot table)",
             floor=12)
    _r5_mappings(ctx)
    _r7_validator(ctx)
    _r10_messages(ctx)
    _r8_unpack(ctx)


_ASSERT_CACHE = {}


def _assert_unreachable(ctx, sfn, site):
    """True when no consistent interpreted path of function `sfn` (repository
    callees executed inline, depth 2) ends in the AssertionError raised at
    `site` ("file:line ...")."""
    from zcstatic import absint as A
    m, P = ctx.model, ctx.program
    fi = m.functions.get(sfn)
    if fi is None:
        return False
    try:
        line = int(site.split(" ")[0].rsplit(":", 1)[1])
    except (ValueError, IndexError):
        return False
    key = (sfn, line)
    if key in _ASSERT_CACHE:
        return _ASSERT_CACHE[key]
    res = False
    try:
        paths = A.Interp(fi, P, inline=lambda f: True, max_inline=2,
                         try_raises=False).paths()
        hit = False
        for p in paths:
            if p.outcome[0] != "raise" or not str(p.outcome[1]).endswith(
                    "AssertionError"):
                continue
            for e in p.effects:
                if e[0] == "raise" and getattr(e[-1], "lineno", None) == line:
                    hit = True
            if not any(e[0] == "raise" for e in p.effects):
                hit = True      # an `assert` statement: no raise effect
        res = not hit and len(paths) > 0
    except Exception:
        res = False
    _ASSERT_CACHE[key] = res
    return res


def _install_specialisations(ctx, ef):
    """Registry.get("<constant>") with a constant that folds to a stock key
    and is in the basic-key language raises nothing."""
    m = ctx.model
    from rules.c09 import stock_table
    try:
        _, stock = stock_table(ctx)
    except AnalysisError:
        stock = {}
    keys = set(stock)
    get_q = "ZConfig.datatypes.Registry.get"

    def skip(fi, call, ident):
        if ident[0] == get_q and call.args:
            vals = possible_constants(fi, call.args[0])
            if vals is not None and vals <= keys:
                return True
        return False
    ef.skip_call = skip


def possible_constants(fi, e, depth=3):
    """The finite set of constants an expression can evaluate to (a literal,
    a conditional expression over such, a local every binding of which is
    such), or None when it is not a finite set of literals."""
    if isinstance(e, ast.Constant):
        return {e.value}
    if isinstance(e, ast.IfExp):
        a = possible_constants(fi, e.body, depth)
        b = possible_constants(fi, e.orelse, depth)
        return None if a is None or b is None else a | b
    if isinstance(e, ast.Name) and depth > 0 and e.id not in fi.params:
        out = set()
        binds = [n for n in walk_shallow(fi.node)
                 if isinstance(n, ast.Assign) and any(
                     isinstance(t, ast.Name) and t.id == e.id
                     for t in n.targets)]
        others = [n for n in walk_shallow(fi.node)
                  if isinstance(n, ast.Name) and n.id == e.id
                  and isinstance(n.ctx, ast.Store)]
        if not binds or len(others) != len(binds):
            return None
        for b in binds:
            v = possible_constants(fi, b.value, depth - 1)
            if v is None:
                return None
            out |= v
        return out
    return None


# ---------------------------------------------------------------------- R2

def _elem_kind(ctx, fi, e):
    """'int' | 'str' | 'none' | 'any' for a tuple element expression."""
    P = ctx.program
    if isinstance(e, ast.Constant):
        if e.value is None:
            return "none"
        if isinstance(e.value, bool):
            return "any"
        if isinstance(e.value, int):
            return "int"
        if isinstance(e.value, str):
            return "str"
        return "any"
    if isinstance(e, ast.UnaryOp) and isinstance(e.op, ast.USub):
        return _elem_kind(ctx, fi, e.operand)
    if isinstance(e, ast.Name):
        # a name unpacked from another position tuple: the kinds of the
        # elements it can come from
        try:
            os_ = ctx.flow.origins(fi, e, depth=6)
        except Exception:
            os_ = []
        ks = set()
        # (an element "of a constant" is the unpacking of a None default that
        # the function replaces before use)
        os_ = [o for o in os_ if not o.kind.endswith("-of-const")]
        for o in os_:
            if o.kind == "const" and isinstance(o.node, ast.Constant):
                ks.add(_elem_kind(ctx, o.fi, o.node))
            elif o.kind == "other" and isinstance(o.node, ast.UnaryOp):
                ks.add(_elem_kind(ctx, o.fi, o.node))
            else:
                ks.add("any")
        if os_ and len(ks) == 1 and "any" not in ks:
            return ks.pop()
        if os_ and "none" in ks and ks <= {"none", "int"}:
            return "none"
    t = P.type_of(fi, fi.module, e)
    t = t - {"none"}
    if t == {"int"}:
        return "int"
    if t == {"str"}:
        return "str"
    if isinstance(e, ast.Attribute) and e.attr in ("lineno", "colno"):
        return "int"
    if isinstance(e, ast.Call) and isinstance(e.func, ast.Attribute) \
            and e.func.attr in ("getLineNumber", "getColumnNumber"):
        return "int"
    if isinstance(e, ast.Attribute) and e.attr in ("url", "_url"):
        return "str"
    return "any"


SINK_ORDER = ("int", "int", "str")   # (lineno, colno, url)


# reasoned exception, keyed by function: a position whose line number is None
NONE_LINENO_OK = {
    "ZConfig.schema.BaseParser.get_position":
        "the branch without a locator: xml.sax (expat) calls "
        "setDocumentLocator before any element event, so schema positions "
        "always come from the locator branch",
}


def _none_field_filled(ctx, o):
    """The None origin `o` is the reset value of a field self.F that a reader
    function hands on.  True when every function that calls the reader first
    executes `if self.F is None: self.F = <something>` (guard-and-fill) in the
    block of the call or an enclosing one."""
    import re as _re
    m, P = ctx.model, ctx.program
    field = reader = None
    for hop in o.path:
        mo = _re.match(r"(\w+): self\.(\w+)$", hop)
        if mo:
            reader, field = mo.group(1), mo.group(2)
    if field is None or o.fi.cls is None:
        return False
    rfn = None
    for k in m.mro(o.fi.cls.qualname):
        c = m.classes.get(k)
        if c is not None and reader in c.methods:
            rfn = c.methods[reader]
            break
    if rfn is None:
        return False
    callers = []
    for fi in m.functions.values():
        if fi.module is not rfn.module:
            continue
        for call, cs in P.calls_in(fi):
            if any(c.kind == "repo" and c.fn is rfn for c in cs):
                callers.append((fi, call))
    if not callers:
        return False
    for fi, call in callers:
        ok = False
        for st in _stmts_before(fi, call):
            if isinstance(st, ast.If) and not st.orelse \
                    and src(st.test) == "self.%s is None" % field \
                    and any(isinstance(b, ast.Assign) and any(
                        src(t) == "self." + field for t in b.targets)
                        and not (isinstance(b.value, ast.Constant)
                                 and b.value.value is None)
                        for b in st.body):
                ok = True
        if not ok:
            return False
    return True


def _r2_positions(ctx):
    run, m, P, F = ctx.run, ctx.model, ctx.program, ctx.flow
    # the order the consumer unpacks
    dce = m.fn("ZConfig.DataConversionError.__init__")
    order = None
    for n in ast.walk(dce.node):
        if isinstance(n, ast.Assign) and isinstance(n.targets[0], ast.Tuple) \
                and isinstance(n.value, ast.Name) \
                and n.value.id == dce.params[-1]:
            order = [t.attr if isinstance(t, ast.Attribute) else src(t)
                     for t in n.targets[0].elts]
    if order != ["lineno", "colno", "url"]:
        run.fail("C07.R2", dce.qualname, "position unpacking",
                 "DataConversionError unpacks its position as %s, not "
                 "(lineno, colno, url)" % order, loc=m.loc(dce, dce.node))
        return
    # sinks: DataConversionError(_, _, pos), ValueInfo(_, pos),
    #        <matcher>.addValue(_, _, pos), adddefault(_, pos, ...)
    sinks = []
    for fi in m.functions.values():
        if "/tests/" in fi.module.path:
            continue
        for call, callees in P.calls_in(fi):
            for c in callees:
                if c.kind != "repo":
                    continue
                q = c.fn.qualname
                idx = None
                if q == "ZConfig.DataConversionError.__init__":
                    idx = 2
                elif q == "ZConfig.info.ValueInfo.__init__":
                    idx = 1
                elif q in ("ZConfig.matcher.BaseMatcher.addValue",
                           "ZConfig.cmdline.MatcherMixin.addValue"):
                    idx = 2 + (1 if c.how == "basecall" else 0)
                elif q == "ZConfig.info.BaseKeyInfo.adddefault":
                    idx = 1
                if idx is not None and idx < len(call.args):
                    sinks.append((fi, call, call.args[idx], q))
    # consumers that order-compare the line number of a caught error
    lineno_ordered = []
    for fi in m.functions.values():
        if fi.module.name != "ZConfig.cfgparser":
            continue
        for n_ in walk_shallow(fi.node):
            if isinstance(n_, ast.Compare) and len(n_.ops) == 1 \
                    and isinstance(n_.ops[0], (ast.Lt, ast.LtE, ast.Gt,
                                               ast.GtE)) \
                    and "lineno" in src(n_.left) and "self" not in src(
                        n_.left):
                lineno_ordered.append("%s in %s" % (src(n_), fi.name))
    seen = set()
    n = 0
    for fi, call, arg, q in sinks:
        for o in F.origins(fi, arg, depth=6):
            if o.kind == "const" and isinstance(o.node, ast.Constant) \
                    and o.node.value is None and o.fi is not None:
                # a position that can be None: the sinks unpack it
                if o.fi.module.name in ("ZConfig.sphinx", "ZConfig.pygments",
                                        "ZConfig.schema2html",
                                        "ZConfig._schema_utils"):
                    continue    # documentation tooling, not a load path
                key = (o.fi.qualname, "None -> " + q.rsplit(".", 2)[-2])
                if key not in seen and _none_field_filled(ctx, o):
                    seen.add(key)
                    run.ok("C07.R2", o.fi.qualname, "position None",
                           "the None is a field's reset value; every caller "
                           "of the reader fills the field when it is still "
                           "None before the call", loc=m.loc(o.fi, o.node))
                    n += 1
                if key not in seen:
                    seen.add(key)
                    n += 1
                    run.fail("C07.R2", o.fi.qualname, "position None",
                             "a position that can be None reaches %s (in %s), "
                             "which unpacks it as (lineno, colno, url): "
                             "TypeError instead of the conversion error; "
                             "value path: %s"
                             % (q, fi.qualname, " <- ".join(o.path[-4:])),
                             loc=m.loc(o.fi, o.node),
                             witness={"sink": q, "via": o.path[-5:]})
                continue
            if o.kind != "display" or not isinstance(o.node, ast.Tuple):
                continue
            key = (o.fi.qualname, src(o.node))
            if key in seen:
                continue
            seen.add(key)
            n += 1
            elts = o.node.elts
            kinds = [_elem_kind(ctx, o.fi, e) for e in elts]
            bad = None
            if len(elts) != 3:
                bad = "has %d elements, the sink unpacks 3" % len(elts)
            else:
                for i, (k, want) in enumerate(zip(kinds, SINK_ORDER)):
                    if k in ("int", "str") and k != want:
                        bad = ("element %d is a %s where the sink expects "
                               "%s (%s)" % (i, k, order[i], want))
                        break
                if bad is None and kinds[0] == "none" and lineno_ordered \
                        and o.fi.qualname not in NONE_LINENO_OK:
                    bad = ("has None as line number, but the line number of "
                           "an error is order-compared (%s): TypeError"
                           % lineno_ordered[0])
            run.check(bad is None, "C07.R2", o.fi.qualname, src(o.node),
                      "element kinds %s agree with (lineno, colno, url); "
                      "reaches %s" % (kinds, q.split(".")[-2]),
                      "position tuple %s %s; it reaches %s in %s"
                      % (src(o.node), bad, q, fi.qualname),
                      loc=m.loc(o.fi, o.node),
                      witness={"tuple": src(o.node), "kinds": kinds,
                               "sink": q, "via": o.path[-4:]})
    # ordered comparison on a field that may hold a str: e.lineno < 0
    run.analysed["position_tuples"] = n


# ---------------------------------------------------------------------- R3

def _r3_cycles(ctx):
    run, m, P = ctx.run, ctx.model, ctx.program
    parse = m.fn("ZConfig.cfgparser.ZConfigParser.parse")
    # functions reachable from parse, with successor map
    reach = P.reachable([parse])
    succ = {q: [g.qualname for g in P.successors(f)] for q, f in reach.items()}
    # does parse lie on a cycle?  find one shortest cycle through parse
    from collections import deque
    prev = {}
    dq = deque()
    for s in succ[parse.qualname]:
        if s not in prev:
            prev[s] = parse.qualname
            dq.append(s)
    cyc = None
    while dq:
        q = dq.popleft()
        if q == parse.qualname:
            cyc = [q]
            while prev[cyc[-1]] != parse.qualname:
                cyc.append(prev[cyc[-1]])
            cyc.append(parse.qualname)
            cyc.reverse()
            break
        for s in succ.get(q, []):
            if s not in prev:
                prev[s] = q
                dq.append(s)
    if cyc is None:
        run.ok("C07.R3", parse.qualname, "no recursion",
               "the configuration parser is not on any call-graph cycle")
        return
    # a guard: some function on the cycle contains  `if X in self.F: raise
    # <ConfigurationError>`  that dominates the recursive call, with
    # self.F.append(X) before and a pop/remove in a finally after.
    guard = None
    unheld = None
    # functions from which the parser is reached again
    back = {parse.qualname}
    grew = True
    while grew:
        grew = False
        for q, ss in succ.items():
            if q not in back and any(x in back for x in ss):
                back.add(q)
                grew = True
    for q in cyc:
        fi = m.functions[q]
        nxt = cyc[(cyc.index(q) + 1) % len(cyc)] if q != cyc[-1] else None
        for n in walk_shallow(fi.node):
            if isinstance(n, ast.If) and isinstance(n.test, ast.Compare) \
                    and len(n.test.ops) == 1 \
                    and isinstance(n.test.ops[0], ast.In) \
                    and any(isinstance(x, ast.Raise) for x in n.body):
                coll = n.test.comparators[0]
                key = n.test.left
                if not (isinstance(coll, ast.Attribute)
                        and isinstance(coll.value, ast.Name)):
                    continue
                # raise class
                rs = [x for x in n.body if isinstance(x, ast.Raise)][0]
                cls = m.resolve(fi.module, rs.exc.func) if isinstance(
                    rs.exc, ast.Call) else None
                if not cls or not m.is_subclass(cls, CFGERR):
                    continue
                # append before / pop in finally covering a call
                ctext = src(coll)
                appended = any(
                    isinstance(x, ast.Call) and isinstance(x.func,
                                                           ast.Attribute)
                    and x.func.attr == "append" and src(x.func.value) == ctext
                    and x.args and src(x.args[0]) == src(key)
                    and x.lineno > n.lineno
                    for x in walk_shallow(fi.node))
                popped = False
                # calls of this function that lead back to the parser
                back_calls = [
                    x for x in walk_shallow(fi.node)
                    if isinstance(x, ast.Call) and any(
                        c.kind == "repo" and c.fn.qualname in back
                        for c in P.resolve_call(fi, x))]
                covered = set()
                for t in walk_shallow(fi.node):
                    if isinstance(t, ast.Try) and t.finalbody \
                            and t.lineno > n.lineno:
                        for x in ast.walk(ast.Module(body=t.finalbody,
                                                     type_ignores=[])):
                            if isinstance(x, ast.Call) and isinstance(
                                    x.func, ast.Attribute) \
                                    and x.func.attr in ("pop", "remove") \
                                    and src(x.func.value) == ctext:
                                popped = True
                                # the entry stays in the chain for exactly
                                # what this try's body does
                                inside = {id(y) for y in ast.walk(
                                    ast.Module(body=t.body, type_ignores=[]))}
                                covered |= {id(c) for c in back_calls
                                            if id(c) in inside}
                # every call that continues the cycle happens while the
                # entry is in the chain
                held = bool(back_calls) and all(id(c) in covered
                                                for c in back_calls)
                # ... and the membership test is made on every way to them
                # (a test that a cache hit, an early branch or a flag can
                # skip guards only some includes)
                gcf = cfgmod.CFG(fi.node)
                tests = gcf.nodes_for(n.test) or gcf.nodes_for(n) \
                    or gcf.node_containing(n.test.left)
                dom = gcf.dominators()
                for c in back_calls:
                    for cn in gcf.node_containing(c):
                        if not any(t.id in dom.get(cn.id, ()) for t in tests):
                            held = False
                if appended and popped and held:
                    guard = (fi, n, ctext)
                elif appended and popped:
                    unheld = (fi, [src(c) for c in back_calls
                                   if id(c) not in covered])
    if guard is None and unheld is None:
        # the guard may have been moved into a private helper of a function
        # on the cycle (`self._check_not_recursive(url)`): a membership test
        # on a field of self together with a raise of a configuration error.
        # The rule reads the guard's placement off the cycle function itself;
        # a delegated guard is outside its vocabulary -- no verdict, not a
        # violation
        for q in cyc:
            fi = m.functions[q]
            for call in walk_shallow(fi.node):
                if not isinstance(call, ast.Call):
                    continue
                for c in P.resolve_call(fi, call):
                    if c.kind != "repo" or c.fn.qualname in cyc \
                            or not c.fn.name.startswith("_"):
                        continue
                    tests = [x for x in ast.walk(c.fn.node)
                             if isinstance(x, ast.Compare) and len(x.ops) == 1
                             and isinstance(x.ops[0], (ast.In, ast.NotIn))
                             and isinstance(x.comparators[0], ast.Attribute)]
                    raises = [x for x in ast.walk(c.fn.node)
                              if isinstance(x, ast.Raise)]
                    if tests and raises:
                        run.soft_error(
                            "C07.R3: the include guard seems to be delegated "
                            "to the helper %s (called from %s); the rule "
                            "decides the guard's placement in the cycle's own "
                            "functions only -- no verdict"
                            % (c.fn.qualname, fi.qualname))
                        return
    run.check(guard is not None, "C07.R3",
              " -> ".join(c.split(".")[-1] for c in cyc), "include recursion",
              "cycle is guarded in %s: membership test on %s raising a "
              "configuration error, append before and pop in a finally whose "
              "try body contains every call that leads back to the parser"
              % ((guard[0].qualname, guard[2]) if guard else ("", "")),
              ("the guard of %s does not hold while %s run(s): the entry is "
               "removed from the chain before the nested parse, so only "
               "cycles through the top resource are refused"
               % (unheld[0].qualname, unheld[1])) if unheld else
              "the cycle %s is driven by configuration text (%%include) and "
              "has no guard: a file that includes itself recurses until "
              "RecursionError" % " -> ".join(cyc),
              loc=m.loc(parse, parse.node), witness={"cycle": cyc})


# ---------------------------------------------------------------------- R4

def _r4_subscripts(ctx):
    """Integer subscripts in cfgparser/substitution: parse()'s are decided by
    the language analysis of C03.R4 (re-run here); the remaining ones must be
    indices into tuples of known length, match groups, or split() results
    under a length guard / a non-blank guarantee."""
    run, m, P = ctx.run, ctx.model, ctx.program
    from rules import c03
    from zcstatic import strlang as S
    fn, omap, index_sites, rebinding, n_paths, paths, ab = c03.dispatcher(
        ctx, [S.cs_of("#"), S.cs_of("<"), S.cs_of(">"), S.cs_of("/"),
              S.cs_of("%"), S.category("space")])
    empty = S.lang_full("", ab)
    decided = {id(node) for node, k, pre in index_sites}
    for node, k, pre in index_sites:
        run.check((pre & empty).is_empty(), "C07.R4", fn.qualname, src(node),
                  "path language excludes the empty line",
                  "%s can be evaluated on an empty line (IndexError)"
                  % src(node), loc=m.loc(fn, node), witness={"line": ""})
    # other integer subscripts in the parser module
    for q in ("ZConfig.cfgparser", "ZConfig.substitution"):
        for fi in m.functions.values():
            if fi.module.name != q or fi.qualname == fn.qualname:
                continue
            for n in walk_shallow(fi.node):
                if not (isinstance(n, ast.Subscript)
                        and isinstance(n.ctx, ast.Load)):
                    continue
                sl = n.slice
                idx = None
                if isinstance(sl, ast.Constant) and isinstance(sl.value, int):
                    idx = sl.value
                elif isinstance(sl, ast.UnaryOp) and isinstance(
                        sl.operand, ast.Constant):
                    idx = -sl.operand.value
                if idx is None or id(n) in decided:
                    # (a subscript of the line inside a helper of parse() is
                    # decided above, on the paths that run through it)
                    continue
                ok, why = _subscript_guard(ctx, fi, n, idx)
                run.check(ok, "C07.R4", fi.qualname, src(n), why,
                          "%s has no guard establishing that the sequence is "
                          "long enough (IndexError on crafted text): %s"
                          % (src(n), why), loc=m.loc(fi, n))


def _subscript_guard(ctx, fi, node, idx):
    m, F = ctx.model, ctx.flow
    base = node.value
    if not isinstance(base, ast.Name):
        return False, "subscripted expression is not a plain name"
    origins = F._assignments(fi, base.id)
    for val, how in origins:
        if how != "plain":
            return False, "bound by %s" % (how,)
        if isinstance(val, ast.Call) and isinstance(val.func, ast.Attribute) \
                and val.func.attr in ("split", "rsplit"):
            need = idx + 1 if idx >= 0 else -idx
            if need >= 2:
                # needs a len() guard dominating the use
                p_ = node
                while p_ is not None and p_ is not fi.node:
                    par = getattr(p_, "_parent", None)
                    if isinstance(par, ast.IfExp) and (
                            (p_ is par.body and _len_at_least(
                                par.test, base.id, need, True))
                            or (p_ is par.orelse and _len_at_least(
                                par.test, base.id, need, False))):
                        return True, "guarded by the conditional " \
                            "expression's test %s" % src(par.test)
                    p_ = par
                g = cfgmod.CFG(fi.node)
                for cn in g.node_containing(node):
                    conds = g.path_conditions(cn)
                    for t, pol in conds:
                        txt = src(t.ast)
                        if _len_at_least(t.ast, base.id, need, pol):
                            return True, ("dominated by %s%s"
                                          % ("" if pol else "not ", txt))
                return False, "no dominating len() test"
            # first field of split(None, ...) of a string that starts with a
            # non-space character: the string is the 'value' group of the
            # key/value pattern (C03.R1: value = \S.*) handed over by
            # handle_directive under its "argument present" guard
            recv = val.func.value
            if isinstance(recv, ast.Name) and recv.id in fi.params:
                callers = F.callers(fi)
                hd = [c for c in callers
                      if c[0].name == "handle_directive"]
                if hd and len(hd) == len(callers):
                    caller = hd[0][0]
                    g = cfgmod.CFG(caller.node, is_noreturn=lambda call:
                                   _is_error_call(call))
                    call = hd[0][1]
                    arg = F.arg_for_param(call, hd[0][2],
                                          fi.params.index(recv.id), recv.id)
                    if isinstance(arg, ast.Name):
                        for cn in g.node_containing(call):
                            for t, pol in g.path_conditions(cn):
                                if src(t.ast) == arg.id and pol:
                                    return True, (
                                        "%s is the non-empty 'value' group "
                                        "of the key/value pattern (starts "
                                        "with a non-space character, "
                                        "C03.R1), guarded in %s"
                                        % (recv.id, caller.name))
                return False, "split() of a string not shown non-blank"
            return False, "split() of a non-parameter"
        if isinstance(val, ast.Call) and isinstance(val.func, ast.Attribute) \
                and val.func.attr in ("group", "groups"):
            return True, "match groups"
    return False, "origin of %s not recognised" % base.id


def _len_at_least(test, name, need, polarity):
    """Does `test` having truth value `polarity` imply len(name) >= need?"""
    if isinstance(test, ast.UnaryOp) and isinstance(test.op, ast.Not):
        return _len_at_least(test.operand, name, need, not polarity)
    if not (isinstance(test, ast.Compare) and len(test.ops) == 1):
        return False
    l, op, r = test.left, test.ops[0], test.comparators[0]
    flip = {ast.Lt: ast.Gt, ast.Gt: ast.Lt, ast.LtE: ast.GtE,
            ast.GtE: ast.LtE, ast.Eq: ast.Eq, ast.NotEq: ast.NotEq}
    if isinstance(l, ast.Constant) and type(op) in flip:
        l, r, op = r, l, flip[type(op)]()
    if not (isinstance(l, ast.Call) and src(l) == "len(%s)" % name
            and isinstance(r, ast.Constant) and isinstance(r.value, int)):
        return False
    c = r.value
    if polarity:
        return (isinstance(op, ast.Eq) and c >= need) \
            or (isinstance(op, ast.GtE) and c >= need) \
            or (isinstance(op, ast.Gt) and c + 1 >= need)
    return (isinstance(op, ast.Lt) and c >= need) \
        or (isinstance(op, ast.LtE) and c + 1 >= need)


def _is_error_call(call):
    return isinstance(call.func, ast.Attribute) and call.func.attr == "error"


# ---------------------------------------------------------------------- R5

# Reasoned, frozen exceptions to R5, keyed by (function, construct).
R5_EXCEPTIONS = {}


def _stmts_before(fi, node):
    """Statements that precede `node` in its own block or in an enclosing
    block of the function (so they have run whenever `node` runs, unless they
    left the function)."""
    out = []
    p = node
    while p is not None and p is not fi.node:
        par = getattr(p, "_parent", None)
        if par is None:
            break
        for fld in ("body", "orelse", "finalbody"):
            blk = getattr(par, fld, None)
            if isinstance(blk, list) and p in blk:
                out.extend(blk[:blk.index(p)])
        p = par
    return out


def _r5_structural_guard(fi, x, key_txt, base_txt):
    """Two idioms that establish the key's presence before the lookup.

    (f) `sys.modules[k]` after `__import__(k)` earlier in the function;
    (g) the key is the target of a loop over a sequence S, and an earlier
        statement walks the same S testing `key in/not in <the mapping>`
        and is followed by a raise before the lookup loop is reached
        (all-or-nothing validation pass, then the pass that uses it)."""
    before = _stmts_before(fi, x)
    if base_txt == "sys.modules":
        for st in before:
            for n in ast.walk(st):
                if isinstance(n, ast.Call) and src(n.func) == "__import__" \
                        and n.args and src(n.args[0]) == key_txt:
                    return "follows __import__(%s) in the same function" \
                        % key_txt
        return None
    # (h) the key was put into the mapping by an earlier statement: either
    # `D[K] = ...` outright or `if K not in D: D[K] = ...`
    for st in before:
        cands = [st]
        if isinstance(st, ast.If) and not st.orelse and isinstance(
                st.test, ast.Compare) and len(st.test.ops) == 1 \
                and isinstance(st.test.ops[0], ast.NotIn) \
                and src(st.test.left) == key_txt \
                and src(st.test.comparators[0]) == base_txt:
            cands = list(st.body)
        for c in cands:
            if isinstance(c, ast.Assign) and any(
                    isinstance(t, ast.Subscript) and src(t.value) == base_txt
                    and src(t.slice) == key_txt for t in c.targets):
                return "the key was stored into %s by an earlier statement " \
                    "(%s)" % (base_txt, src(st).split("\n")[0])
    # (g)
    loop = None
    p = x
    while p is not None and p is not fi.node:
        par = getattr(p, "_parent", None)
        if isinstance(par, ast.For) and p in par.body:
            names = [src(t) for t in (par.target.elts if isinstance(
                par.target, ast.Tuple) else [par.target])]
            if key_txt in names:
                loop = (par, names.index(key_txt))
                break
        p = par
    if loop is None:
        return None
    lp, pos = loop
    seq = src(lp.iter)
    pre = _stmts_before(fi, lp)
    for i, st in enumerate(pre):
        tested = False
        for n in ast.walk(st):
            tgt = it = None
            if isinstance(n, ast.For):
                tgt, it = n.target, n.iter
            elif isinstance(n, ast.comprehension):
                tgt, it = n.target, n.iter
            if tgt is None or src(it) != seq:
                continue
            names = [src(t) for t in (tgt.elts if isinstance(tgt, ast.Tuple)
                                      else [tgt])]
            if pos >= len(names):
                continue
            k2 = names[pos]
            scope = n if isinstance(n, ast.For) else getattr(n, "_parent", n)
            for c in ast.walk(scope):
                if isinstance(c, ast.Compare) and len(c.ops) == 1 \
                        and isinstance(c.ops[0], (ast.In, ast.NotIn)) \
                        and src(c.left) == k2 \
                        and src(c.comparators[0]) == base_txt:
                    tested = True
        if tested and any(isinstance(r, ast.Raise) for s2 in pre[i:]
                          for r in ast.walk(s2)):
            return ("every element of %s was tested for membership in %s by "
                    "an earlier pass that raises (validation pass, then use)"
                    % (seq, base_txt))
    return None



def _r5_mappings(ctx):
    """Mapping subscripts with a non-constant key on load paths: inside a try
    that catches KeyError/LookupError, dominated by a membership test of the
    same key in the same mapping, iterating that mapping, a slot-table lookup
    by a schema attribute name, or a constant key of a folded module table."""
    run, m, P = ctx.run, ctx.model, ctx.program
    roots = [m.fn(q) for q, _ in ENTRY_POINTS] + [
        m.fn("ZConfig.loader.CompositeHandler.__call__")]
    reach = P.reachable(roots)
    for q, fi in sorted(reach.items()):
        if fi.module.name in ("ZConfig.schema", "ZConfig._schema_utils",
                              "ZConfig.schemaless"):
            continue
        g = None
        for x in walk_shallow(fi.node):
            if not (isinstance(x, ast.Subscript) and isinstance(x.ctx,
                                                                 ast.Load)):
                continue
            sl = x.slice
            if isinstance(sl, ast.Slice):
                continue
            if isinstance(sl, ast.Constant) and isinstance(sl.value, int):
                continue
            if isinstance(sl, ast.UnaryOp):
                continue
            bt = P.type_of(fi, fi.module, x.value)
            if not (("dict" in bt) or any(t.startswith("X:sys.modules")
                                          for t in bt)):
                continue
            construct = src(x)
            key_txt, base_txt = src(sl), src(x.value)
            why = None
            if (fi.qualname, construct) in R5_EXCEPTIONS:
                why = "reasoned: " + R5_EXCEPTIONS[(fi.qualname, construct)]
            # (a) enclosing try
            p_ = x
            while why is None and p_ is not None and p_ is not fi.node:
                par = getattr(p_, "_parent", None)
                if isinstance(par, ast.Try) and p_ in par.body:
                    for h in par.handlers:
                        names = [src(t).split(".")[-1] for t in (
                            h.type.elts if isinstance(h.type, ast.Tuple)
                            else [h.type])] if h.type is not None else [
                                "BaseException"]
                        if set(names) & {"KeyError", "LookupError",
                                         "Exception", "BaseException"}:
                            why = "inside try/except %s" % "/".join(names)
                p_ = par
            # (e) constant key of a folded module-level table
            kconst = sl
            if isinstance(sl, ast.Name) and not P._is_local(fi, sl.id):
                try:
                    kconst = ast.Constant(value=m.fold(fi.module, sl))
                except Exception:
                    kconst = sl
            if why is None and isinstance(kconst, ast.Constant):
                sl_ = kconst
                try:
                    tbl = m.resolve(fi.module, x.value)
                    modname, _, nm = (tbl or "").rpartition(".")
                    vals = m.modules[modname].assigns.get(nm) if modname in \
                        m.modules else None
                    if vals and isinstance(vals[0], ast.Dict) and any(
                            isinstance(k, ast.Constant)
                            and k.value == sl_.value for k in vals[0].keys):
                        why = "constant key present in the module table"
                except Exception:
                    pass
            # (c) key iterates the mapping
            if why is None:
                p_ = x
                while p_ is not None and p_ is not fi.node:
                    par = getattr(p_, "_parent", None)
                    if isinstance(par, (ast.For, ast.comprehension)) \
                            if False else isinstance(par, ast.For):
                        it = src(par.iter)
                        tg = src(par.target)
                        if key_txt in [t.strip() for t in tg.strip("()")
                                       .split(",")] and (
                                it == base_txt or it.startswith(base_txt
                                                                + ".")):
                            why = "key iterates the mapping"
                    p_ = par
            # (d) slot table by schema attribute name
            if why is None and base_txt in ("self._values", "values"):
                for val, how in ctx.flow._assignments(fi, key_txt):
                    if how == "plain" and isinstance(val, ast.Attribute) \
                            and val.attr == "attribute":
                        why = ("slot table indexed by a child's attribute "
                               "name (one slot per child is created by the "
                               "matcher constructor, C02.R1)")
            # (b) dominated by a membership test
            if why is None:
                if g is None:
                    g = cfgmod.CFG(fi.node)
                for cn in g.node_containing(x):
                    for t, pol in g.path_conditions(cn):
                        a = t.ast
                        if isinstance(a, ast.Compare) and len(a.ops) == 1 \
                                and src(a.left) == key_txt \
                                and src(a.comparators[0]) in (
                                    base_txt, base_txt + ".keys()"):
                            if (isinstance(a.ops[0], ast.In) and pol) or (
                                    isinstance(a.ops[0], ast.NotIn)
                                    and not pol):
                                why = "dominated by `%s`" % src(a)
            if why is None:
                why = _r5_structural_guard(fi, x, key_txt, base_txt)
            # (j) the key is confined, by the tests that dominate the lookup
            # (an if/elif on equality, `in (..)`, a desugared match), to
            # constants that are all keys of the literal module table
            if why is None:
                why = _r5_confined_key(ctx, fi, x, g or cfgmod.CFG(fi.node))
            # (i) the key is a parameter of a private helper the rules do not
            # know, the mapping is a global or a field, and every call site
            # of the helper is dominated by the membership test of the
            # argument in that mapping
            if why is None and isinstance(sl, ast.Name) \
                    and sl.id in fi.params and A.is_unknown_helper(fi) \
                    and not (isinstance(x.value, ast.Name)
                             and P._is_local(fi, x.value.id)):
                idx = fi.params.index(sl.id)
                sites = []
                for caller in reach.values():
                    for call in walk_shallow(caller.node):
                        if isinstance(call, ast.Call):
                            cs = P.resolve_call(caller, call)
                            hit = [c for c in cs
                                   if c.kind == "repo" and c.fn is fi]
                            if hit:
                                sites.append((caller, call, hit[0]))
                ok = bool(sites)
                for caller, call, c in sites:
                    off = 1 if (fi.cls is not None and c.how not in (
                        "basecall", "func")) else 0
                    j = idx - off
                    if j < 0 or j >= len(call.args):
                        ok = False
                        break
                    atxt = src(call.args[j])
                    gc = cfgmod.CFG(caller.node)
                    guarded = False
                    for cn in gc.node_containing(call):
                        for t, pol in gc.path_conditions(cn):
                            a = t.ast
                            if isinstance(a, ast.Compare) \
                                    and len(a.ops) == 1 \
                                    and src(a.left) == atxt \
                                    and src(a.comparators[0]) == base_txt \
                                    and ((isinstance(a.ops[0], ast.In)
                                          and pol)
                                         or (isinstance(a.ops[0], ast.NotIn)
                                             and not pol)):
                                guarded = True
                    ok = ok and guarded
                if ok:
                    why = ("the helper's %d call site(s) pass a key tested "
                           "`in %s` before the call" % (len(sites), base_txt))
            run.check(why is not None, "C07.R5", fi.qualname, construct,
                      why or "", "the mapping lookup %s has no guard: a key "
                      "derived from configuration text that is absent raises "
                      "KeyError" % construct, loc=m.loc(fi, x))


# ---------------------------------------------------------------------- R7

def _r7_validator(ctx):
    """Exit status of the validator command, decided on the interpreted paths
    of main() with the loop over the files run for two files (helpers unknown
    to the rules are seen through): a path on which k loads raised a
    configuration error returns 1 iff k > 0, else 0, and has printed exactly
    k messages; nothing else is returned after the schema was loaded."""
    run, m, P = ctx.run, ctx.model, ctx.program
    from zcstatic import absint as A
    fn = m.fn("ZConfig.validator.main")
    paths = A.Interp(fn, P, loop_policy=lambda n: "twice",
                     exact_loops=True,
                     inline=lambda f: f.module is fn.module).paths()
    n_fail = 0
    n_checked = 0
    seen_two = False
    for p in paths:
        if p.outcome[0] != "return":
            continue
        loads = [e for e in p.effects if e[0] == "call"
                 and "loadConfigFile" in A.fmt(e[1][1])]
        caught = [a for a, v in p.valuation.items() if a[0] == "raises"
                  and v not in (False, None)
                  and "loadConfigFile" in A.fmt(a[1])]
        other = [a for a, v in p.valuation.items() if a[0] == "raises"
                 and v not in (False, None)
                 and "loadConfigFile" not in A.fmt(a[1])]
        if other:
            continue
        # only messages printed from here on count: those after the first load
        prints = 0
        started = False
        for e in p.effects:
            if e[0] == "call" and "loadConfigFile" in A.fmt(e[1][1]):
                started = True
            elif started and e[0] == "call" and A.fmt(e[1][1]) in (
                    "builtins.print", "sys.stderr.write"):
                prints += 1
        if not loads:
            continue
        n_checked += 1
        if len(loads) >= 2:
            seen_two = True
        val = p.outcome[1]
        want = 1 if caught else 0
        ok = A.is_const(val) and not isinstance(val[1], bool) \
            and val[1] == want
        if A.is_const(val) and isinstance(val[1], bool):
            ok = False
        if ok and prints != len(caught):
            ok = False
        if not ok:
            n_fail += 1
            if n_fail <= 2:
                run.fail("C07.R7", fn.qualname, "exit status",
                         "with %d file(s) loaded of which %d raised a "
                         "configuration error, main() returns %s after %d "
                         "message(s); expected status %d and %d message(s)"
                         % (len(loads), len(caught), A.fmt(val), prints, want,
                            len(caught)), loc=m.loc(fn, fn.node),
                         witness={"loads": len(loads), "failed": len(caught),
                                  "returns": A.fmt(val), "messages": prints})
    if not n_checked or not seen_two:
        raise AnalysisError("anchor vanished: validator.main has no path "
                            "that loads two configuration files")
    # every load of a configuration file is under a handler for the whole
    # configuration-error family (a narrower handler lets the other members
    # end the command with a traceback instead of status 1)
    from zcstatic import absint as A_
    todo, seen_f = [fn], set()
    n_loads = 0
    while todo:
        f = todo.pop()
        if f.qualname in seen_f:
            continue
        seen_f.add(f.qualname)
        for call, callees in P.calls_in(f):
            for c in callees:
                if c.kind == "repo" and (A_.is_unknown_helper(c.fn)
                                         or c.fn.module is fn.module):
                    todo.append(c.fn)
            if not (dotted(call.func) or "").endswith(
                    ("loadConfigFile", "loadConfig")):
                continue
            n_loads += 1
            covered = False
            p_ = call
            while p_ is not None and p_ is not f.node:
                par = getattr(p_, "_parent", None)
                if isinstance(par, ast.Try) and p_ in par.body:
                    for h in par.handlers:
                        types = [None] if h.type is None else (
                            h.type.elts if isinstance(h.type, ast.Tuple)
                            else [h.type])
                        for t in types:
                            q = "builtins.BaseException" if t is None else \
                                m.resolve(f.module, t)
                            if q and (q == CFGERR or m.is_subclass(CFGERR, q)):
                                covered = True
                p_ = par
            run.check(covered, "C07.R7", f.qualname, src(call),
                      "the load is under a handler for ZConfig."
                      "ConfigurationError (or a base of it)",
                      "the load %s is not under a handler for the whole "
                      "ConfigurationError family: the other members end the "
                      "command with a traceback, not with status 1"
                      % src(call), loc=m.loc(f, call))
    if not n_loads:
        raise AnalysisError("anchor vanished: validator.main loads no "
                            "configuration file")
    if not n_fail:
        run.ok("C07.R7", fn.qualname, "exit status",
               "on all %d returning paths that load files (up to two files), "
               "the status is 1 iff a load raised a configuration error, "
               "else 0, with one message per failed load" % n_checked,
               loc=m.loc(fn, fn.node))


# ---------------------------------------------------------------------- R8

def _r10_messages(ctx):
    """The validator prints str(e): a __str__/__repr__ of the configuration
    error family that %-formats (or .format()s) a template containing
    anything but literal text raises on user text with a '%' or a brace."""
    run, m, P = ctx.run, ctx.model, ctx.program
    from zcstatic import absint as A

    def nonliteral_templates(t, out):
        if not isinstance(t, tuple) or not t:
            return
        if t[0] == "binop" and t[1] == "Mod" and not A.is_const(t[2]):
            out.append("%s %% ..." % A.fmt(t[2])[:70])
        if t[0] == "call" and isinstance(t[1], tuple) and t[1][0] == "attr" \
                and t[1][2] in ("format", "format_map") \
                and not A.is_const(t[1][1]):
            out.append("%s.format(...)" % A.fmt(t[1][1])[:70])
        if t[0] in ("closure", "lambda", "const"):
            return
        for x in t:
            nonliteral_templates(x, out)

    n = 0
    for cq, c in sorted(m.classes.items()):
        if not m.is_subclass(cq, CFGERR):
            continue
        for name in ("__str__", "__repr__"):
            fn = c.methods.get(name)
            if fn is None:
                continue
            n += 1
            bad = []
            for p in A.Interp(fn, P, try_raises=False).paths():
                if p.outcome and p.outcome[0] == "return":
                    nonliteral_templates(p.outcome[1], bad)
                for e in p.effects:
                    for x in e[1:]:
                        nonliteral_templates(x, bad)
            run.check(not bad, "C07.R10", fn.qualname, "format templates",
                      "every template that is %-formatted or .format()ted is "
                      "a literal; the attributes (message, value, url) are "
                      "only ever arguments",
                      "the template of a format operation contains data: %s "
                      "-- a '%%' (or brace) in the offending user text makes "
                      "str() of the error raise, and the validator ends in a "
                      "traceback" % "; ".join(sorted(set(bad))[:3]),
                      loc=m.loc(fn, fn.node))
    if n < 2:
        raise AnalysisError("anchor vanished: __str__ methods of the "
                            "configuration error classes")


def _r5_confined_key(ctx, fi, sub, g):
    m = ctx.model
    try:
        tbl = m.resolve(fi.module, sub.value)
    except Exception:
        tbl = None
    modname, _, nm = (tbl or "").rpartition(".")
    vals = m.modules[modname].assigns.get(nm) if modname in m.modules \
        else None
    if not (vals and len(vals) == 1 and isinstance(vals[0], ast.Dict)
            and all(isinstance(k, ast.Constant) for k in vals[0].keys)):
        return None
    keys = {k.value for k in vals[0].keys}
    texts = {src(sub.slice)}
    if isinstance(sub.slice, ast.Name):
        binds = [v for v, how in ctx.flow._assignments(fi, sub.slice.id)
                 if how == "plain"]
        if len(binds) == 1:
            texts.add(src(binds[0]))

    def consts(t):
        """Constants a true test confines one of `texts` to, or None."""
        if isinstance(t, ast.BoolOp) and isinstance(t.op, ast.Or):
            out = set()
            for v in t.values:
                c = consts(v)
                if c is None:
                    return None
                out |= c
            return out
        if isinstance(t, ast.Compare) and len(t.ops) == 1 \
                and src(t.left) in texts:
            r = t.comparators[0]
            if isinstance(t.ops[0], ast.Eq) and isinstance(r, ast.Constant):
                return {r.value}
            if isinstance(t.ops[0], ast.In) and isinstance(
                    r, (ast.Tuple, ast.List, ast.Set)) and all(
                        isinstance(e, ast.Constant) for e in r.elts):
                return {e.value for e in r.elts}
        return None
    # the enclosing `if` statements in whose body the lookup stands (a
    # disjunction is split into several test nodes by the CFG, so the
    # syntax tree is the simpler witness of "the test held")
    p_ = sub
    while p_ is not None and p_ is not fi.node:
        par = getattr(p_, "_parent", None)
        if isinstance(par, ast.If) and any(p_ is st for st in par.body):
            c = consts(par.test)
            if c is not None and c <= keys:
                # the key must not be re-bound between the test and the use
                return ("the key is confined to %s by the enclosing test "
                        "`%s`; all are keys of the module table"
                        % (sorted(map(repr, c)), src(par.test)[:60]))
        p_ = par
    return None


def _r8_unpack(ctx):
    """a, b, c = s.split(sep, n): needs a guard establishing the number of
    fields (len(parts) test, or `sep in s` for n == 1)."""
    run, m, P = ctx.run, ctx.model, ctx.program
    roots = [m.fn(q) for q, _ in ENTRY_POINTS]
    reach = P.reachable(roots)
    for q, fi in sorted(reach.items()):
        if fi.module.name in ("ZConfig.schema",):
            continue
        for n in walk_shallow(fi.node):
            if not (isinstance(n, ast.Assign) and isinstance(
                    n.targets[0], ast.Tuple)):
                continue
            v = n.value
            ntargets = len(n.targets[0].elts)
            if any(isinstance(e, ast.Starred) for e in n.targets[0].elts):
                # a, *rest = s.split(sep): needs len >= (names - 1); split
                # with an explicit separator always yields at least one field
                need = ntargets - 1
                if isinstance(v, ast.Call) and isinstance(
                        v.func, ast.Attribute) and v.func.attr in (
                            "split", "rsplit") and need <= 1 and v.args \
                        and not (isinstance(v.args[0], ast.Constant)
                                 and v.args[0].value is None):
                    run.ok("C07.R8", fi.qualname, src(n)[:70],
                           "starred unpacking needs %d field(s); split with "
                           "a separator yields at least one" % need,
                           loc=m.loc(fi, n))
                    continue
            if isinstance(v, ast.Call) and isinstance(v.func, ast.Attribute) \
                    and v.func.attr in ("split", "rsplit"):
                ok, why = _split_arity_guard(ctx, fi, n, v, ntargets)
                run.check(ok, "C07.R8", fi.qualname, src(n)[:70], why,
                          "unpacking %d names from %s without a guard on the "
                          "number of fields (ValueError: not enough values to "
                          "unpack)" % (ntargets, src(v)), loc=m.loc(fi, n))
            elif isinstance(v, ast.Name):
                # unpacking a name bound to a split() result
                for val, how in ctx.flow._assignments(fi, v.id):
                    if how == "plain" and isinstance(val, ast.Call) \
                            and isinstance(val.func, ast.Attribute) \
                            and val.func.attr in ("split", "rsplit"):
                        starred = any(isinstance(e, ast.Starred)
                                      for e in n.targets[0].elts)
                        if starred and ntargets - 1 <= 1 and val.args \
                                and not (isinstance(val.args[0], ast.Constant)
                                         and val.args[0].value is None):
                            run.ok("C07.R8", fi.qualname, src(n)[:70],
                                   "starred unpacking needs %d field(s); "
                                   "split with a separator yields at least "
                                   "one" % (ntargets - 1), loc=m.loc(fi, n))
                            continue
                        g = cfgmod.CFG(fi.node)
                        ok = False
                        why = "no dominating len() test"
                        for cn in g.nodes_for(n):
                            for t, pol in g.path_conditions(cn):
                                txt = src(t.ast)
                                if (txt == "len(%s) != %d" % (v.id, ntargets)
                                        and not pol) or (
                                        txt == "len(%s) == %d"
                                        % (v.id, ntargets) and pol):
                                    ok = True
                                    why = "dominated by " + txt
                        # also accept: raise on len != n before
                        if not ok:
                            ok, why = _raise_guard_before(fi, n, v.id,
                                                          ntargets)
                        run.check(ok, "C07.R8", fi.qualname, src(n)[:70], why,
                                  "unpacking %d names from a split() result "
                                  "without a length guard" % ntargets,
                                  loc=m.loc(fi, n))


def _raise_guard_before(fi, stmt, var, n):
    """`if len(var) != n: raise ...` earlier in the same block."""
    parent = stmt._parent
    body = getattr(parent, "body", [])
    if stmt not in body:
        return False, "no length guard"
    for s in body[:body.index(stmt)]:
        if isinstance(s, ast.If) and src(s.test) == "len(%s) != %d" % (var, n) \
                and s.body and isinstance(s.body[-1], ast.Raise):
            return True, "guarded by `if %s: raise`" % src(s.test)
    return False, "no length guard"


def _split_arity_guard(ctx, fi, stmt, call, ntargets):
    sep = call.args[0] if call.args else None
    maxsplit = call.args[1] if len(call.args) > 1 else None
    if sep is None or maxsplit is None or not isinstance(
            maxsplit, ast.Constant):
        return False, "split without separator/maxsplit"
    if maxsplit.value + 1 != ntargets:
        return False, "maxsplit+1 != number of targets"
    if ntargets != 2:
        return False, "more than two fields need an explicit length test"
    recv = src(call.func.value)
    want = "%s in %s" % (src(sep), recv)
    want_not = "%s not in %s" % (src(sep), recv)
    g = cfgmod.CFG(fi.node, is_noreturn=lambda c: False)
    for cn in g.nodes_for(stmt):
        for t, pol in g.path_conditions(cn):
            txt = src(t.ast)
            if (txt == want and pol) or (txt == want_not and not pol):
                return True, "dominated by `%s`" % want
    # `if sep not in s: ... raise` earlier in the block
    parent = stmt._parent
    body = getattr(parent, "body", [])
    if stmt in body:
        for s in body[:body.index(stmt)]:
            if isinstance(s, ast.If) and src(s.test) == want_not and s.body \
                    and isinstance(s.body[-1], ast.Raise):
                return True, "guarded by `if %s: ... raise`" % want_not
    return False, "no `%s` guard" % want
