"""C18 -- path, URL and file-object entry points reach the same resource.

Decides: the path-vs-URL classifier as a regular language (R1); the file: URL
normalisation rewrite and the agreement of its copies (R2); that a path is made
absolute and quoted exactly once on each route and that both routes build the
URL the same way (R3); that every reference passes a fragment gate before it is
opened (R4); that references are joined against the URL of the resource that
contains them (R5); the file-object name rule and the package: routing (R6).
Does not decide what abspath, pathname2url, urljoin, urlopen do for a
particular name, directory or working directory.
"""
import ast

from zcstatic import absint as A
from zcstatic import crosscheck as X
from zcstatic import strlang as S
from zcstatic.model import Unfoldable, src, walk_shallow
from zcstatic.report import AnalysisError

LD = "ZConfig.loader"
BL = LD + ".BaseLoader"
SP = "ZConfig.schema"
REF_NOT_PATH = r"[A-Za-z][-+.A-Za-z0-9]+:.*"


def url_helpers(ctx, rule, names, what="file: rewrite"):
    """ZConfig.url.<name> == reference (also used by C06: the join of an
    include reference against the including resource's URL)."""
    run, m, P = ctx.run, ctx.model, ctx.program
    for name in names:
        lf = m.fn("ZConfig.url." + name)
        r = X.compare(P, lf, X.spec_function(m, "ref_url.py", name),
                      rename=_rename, independent=_char_observation)
        _verdict(run, rule, lf, what, r, m)


def run(ctx):
    run, m, P = ctx.run, ctx.model, ctx.program
    run.explanation = (
        "Decides the path/URL classifier as a regular language (branch "
        "conditions of isPath translated to automata, including the length "
        "of the priority-chosen regex match), and the decision tables of the "
        "URL normalisation helpers, of normalizeURL/_url_from_file "
        "(abspath then pathname2url exactly once, same expression on both "
        "routes), of the three fragment gates, of the four parser "
        "constructions that fix the join base, and of openResource's "
        "package: routing -- each cross-checked against a parsed reference.  "
        "Does not decide what the stdlib URL/path primitives return.")
    run.assumptions = ["strings without newline for the classifier"]
    run.rule("C18.R1", "isPath(s) is false exactly on an RFC 3986 scheme of "
             ">= 2 characters followed by ':'")
    run.rule("C18.R2", "urlnormalize / urldefrag / urljoin rewrite file:/x to "
             "file:///x the same way", floor=3)
    run.rule("C18.R3", "a path becomes 'file://' + pathname2url(abspath(p)) "
             "exactly once on each route; both routes agree", floor=2)
    run.rule("C18.R4", "fragment gates: normalizeURL, <import src>, <schema "
             "extends> raise iff the fragment is non-empty and hand on the "
             "defragmented URL", floor=3)
    run.rule("C18.R5", "every urljoin base is the URL of the resource that "
             "contains the reference; parsers are built with their "
             "resource's URL", floor=5)
    run.rule("C18.R6", "file objects: URL iff truthy name not of the <...> "
             "form; package: URLs are routed to the package opener",
             floor=2)

    _r1(ctx)
    url_helpers(ctx, "C18.R2", ("urlnormalize", "urldefrag", "urljoin"))

    lf = m.fn("ZConfig.url.urlunsplit")
    r = X.compare(P, lf, X.spec_function(m, "ref_url.py", "urlunsplit"),
                  independent=_char_observation)
    _verdict(run, "C18.R2", lf, "file: rewrite (third copy)", r, m)

    # R3
    nu = m.fn(BL + ".normalizeURL")
    r = X.compare(P, nu, X.spec_method(P, "ref_loader.py", "normalizeURL",
                                       BL))
    _verdict(run, "C18.R3", nu, "path -> file URL, fragment gate", r, m)
    _verdict(run, "C18.R4", nu, "fragment gate of normalizeURL", r, m)
    uf = m.fn(LD + "._url_from_file")
    r = X.compare(P, uf, X.spec_function(m, "ref_loader.py", "url_from_file"),
                  independent=_char_observation)
    _verdict(run, "C18.R6", uf, "file object name rule", r, m)
    # sibling agreement: the URL-building expression of both routes
    exprs = {}
    for fn in (nu, uf):
        for p in A.Interp(fn, P, try_raises=False).paths():
            for t in _subterms(p.outcome[1] if p.outcome[0] == "return"
                               else None):
                s = A.fmt(t)
                if "pathname2url" in s and s.startswith("('file://'"):
                    exprs.setdefault(fn.qualname, set()).add(
                        s.replace("builtins.getattr(P0, 'name', None)", "X")
                        .replace("P0", "X"))
    vals = list(exprs.values())
    run.check(len(vals) == 2 and vals[0] == vals[1] and len(vals[0]) == 1,
              "C18.R3", LD, "both routes build the same URL expression",
              "normalizeURL and _url_from_file both return %s"
              % (sorted(vals[0]) if vals else "?"),
              "the two routes build file URLs differently: %s" % exprs)
    # the entry points as each concrete loader resolves them (an override in
    # a subclass is compared with the same reference, its delegation to the
    # base method seen through)
    for live, ref in (("loadURL", "loadURL"), ("loadFile", "loadFile")):
        seen = []
        for cq in (BL, LD + ".SchemaLoader", LD + ".ConfigLoader",
                   "ZConfig.cmdline.ExtendedConfigLoader"):
            lf = m.lookup_method(cq, live)
            if lf is None:
                raise AnalysisError("anchor vanished: %s.%s" % (cq, live))
            if lf in seen:
                continue
            seen.append(lf)
            r = X.compare(P, lf, X.spec_method(P, "ref_loader.py", ref, BL),
                          rename=_rename,
                          live_kw={"inline": lambda f, n=live: f.name == n})
            _verdict(run, "C18.R3", lf, "normalise once, then open", r, m)

    # the public functions: a new loader per call, arguments as given; and
    # the package: opener (C18.R6)
    for live, ref, rule, what in (
            ("loadSchema", "loadSchema", "C18.R3", "new schema loader, URL"),
            ("loadSchemaFile", "loadSchemaFile", "C18.R3",
             "new schema loader, file and URL"),
            ("loadConfig", "loadConfig", "C18.R3", "loader for the schema, "
             "URL"),
            ("loadConfigFile", "loadConfigFile", "C18.R3",
             "loader for the schema, file and URL"),
            ("openPackageResource", "openPackageResource", "C18.R6",
             "package resources: errors, search along __path__, "
             "normalised file: URL")):
        lf = m.fn(LD + "." + live)
        r = X.compare(P, lf, X.spec_function(m, "ref_loader.py", ref),
                      rename=_rename)
        _verdict(run, rule, lf, what, r, m)

    # the resource reached is the one named: the schema loader answers from
    # its cache only under the resource's own (normalised, non-empty) URL
    lf = m.fn(LD + ".SchemaLoader.loadResource")
    r = X.compare(P, lf, X.spec_method(P, "ref_info.py",
                                       "schemaloader_loadResource",
                                       LD + ".SchemaLoader"), rename=_rename)
    _verdict(run, "C18.R3", lf, "cache keyed by the resource's own URL", r, m)

    _r4(ctx)
    # the fourth gate: an %include target goes through normalizeURL (and so
    # through its fragment gate) on every path, whatever form it has
    CLq = "ZConfig.loader.ConfigLoader"
    lf = m.fn(CLq + ".includeConfiguration")
    r = X.compare(P, lf, X.spec_method(P, "ref_loader.py",
                                       "includeConfiguration", CLq))
    _verdict(run, "C18.R4", lf, "%include target normalised (fragment gate) "
             "before it is opened", r, m)

    # R5: parser constructions
    for q, ref, meth in ((SP + ".parseResource", "parseResource", None),
                         (SP + ".parseComponent", "parseComponent", None),
                         (SP + ".BaseParser.loadComponent", "loadComponent",
                          SP + ".BaseParser"),
                         (SP + ".SchemaParser.extendSchema", "extendSchema",
                          SP + ".SchemaParser")):
        lf = m.fn(q)
        rf = X.spec_method(P, "ref_url.py", ref, meth) if meth else \
            X.spec_function(m, "ref_url.py", ref)
        r = X.compare(P, lf, rf)
        _verdict(run, "C18.R5", lf, "parser built with the URL of the "
                 "resource it parses", r, m)
    # <import src=...>: the reference is joined against the importing
    # schema's own URL, gated, and *that* resource is loaded -- each time it
    # is named, whatever other resources were imported under the same
    # spelling
    lf = m.fn(SP + ".BaseParser.start_import")
    r = X.compare(P, lf, X.spec_method(P, "ref_schema.py", "start_import",
                                       SP + ".BaseParser"))
    _verdict(run, "C18.R5", lf, "import src: join, gate, load the joined "
             "URL", r, m)
    bp = m.cls(SP + ".BaseParser")
    writers = [(m.owner(meth).qualname, src(st)) for st, meth in
               bp.fields.get("_url", [])]
    run.check(writers == [(SP + ".BaseParser.__init__", "self._url = url")],
              "C18.R5", bp.qualname, "writers of self._url",
              "the join base is bound once, from the constructor argument",
              "self._url writers: %s" % writers, nontrivial=False)

    # R6: package routing
    orf = m.fn(BL + ".openResource")
    r = X.compare(P, orf, X.spec_method(P, "ref_url.py", "openResource", BL),
                  independent=_char_observation)
    _verdict(run, "C18.R6", orf, "package: routing, read-all-then-close", r,
             m)


def _rename(s):
    # spec modules import the same names under other module paths
    return s.replace("spec.ref_url.urlnormalize", "ZConfig.url.urlnormalize") \
        .replace("spec.ref_loader._url_from_file",
                 "ZConfig.loader._url_from_file") \
        .replace("?_url_from_file", "ZConfig.loader._url_from_file")


def _char_observation(atom):
    t = atom[1] if len(atom) > 1 else None
    if not isinstance(t, tuple):
        return False
    if atom[0] == "truthy" and t[0] == "call" and t[1][0] == "attr" \
            and t[1][2] in ("startswith", "endswith"):
        return True
    if atom[0] == "eq" and t[0] in ("slice", "index"):
        return True
    return False


def _subterms(t):
    if not isinstance(t, tuple):
        return
    if t and isinstance(t[0], str):
        yield t
    for x in t:
        if isinstance(x, tuple):
            yield from _subterms(x)


def _r1(ctx):
    run, m, P = ctx.run, ctx.model, ctx.program
    fn = m.fn(BL + ".isPath")
    try:
        pat_src = m.fold_class_attr(BL, "_pathsep_rx")
    except AnalysisError:
        # re.compile(...) is not foldable: take its argument
        c, vals = m.lookup_class_attr(BL, "_pathsep_rx")
        if not vals or not (isinstance(vals[0], ast.Call)
                            and m.resolve(c.module, vals[0].func)
                            == "re.compile" and len(vals[0].args) == 1):
            raise AnalysisError("anchor vanished: BaseLoader._pathsep_rx = "
                                "re.compile(<pattern>)")
        try:
            pat_src = m.fold(c.module, vals[0].args[0], c)
        except Unfoldable as e:
            raise AnalysisError("cannot fold _pathsep_rx: %s" % e)
    pat = pat_src
    ab = S.Alphabet(S.charsets_of_pattern(pat)
                    + S.charsets_of_pattern(REF_NOT_PATH)
                    + [S.cs_of(":")])
    paths = A.Interp(fn, P).paths()
    L = ("param", 0)
    false_lang = S.lang_empty(ab)
    true_lang = S.lang_empty(ab)
    for p in paths:
        lang = S.lang_all(ab)
        for a in p.order:
            v = p.valuation[a]
            d = None
            if a[0] == "contains" and a[2] == L and A.is_const(a[1]):
                import re
                d = S.lang_full(".*" + re.escape(a[1][1]) + ".*", ab)
                d = d if v else d.complement()
            elif a[0] == "isnone" and "match(P0)" in A.fmt(a[1]):
                d = S.lang_matches(pat, ab)
                d = d.complement() if v else d
            elif a[0] == "truthy" and "match(P0)" in A.fmt(a[1]):
                d = S.lang_matches(pat, ab)
                d = d if v else d.complement()
            elif a[0] == "ord" and A.is_const(a[2]) and (
                    ("len(" in A.fmt(a[1]) and "group(0)" in A.fmt(a[1]))
                    # m.end() of a match anchored at 0 is its length
                    or (A.fmt(a[1]).endswith(".match(P0).end()"))):
                k = a[2][1]
                pred = {"<": lambda n, k=k: n < k, "=": lambda n, k=k: n == k,
                        ">": lambda n, k=k: n > k}[v]
                d = S.lang_match_length(pat, ab, pred, k + 1)
                # the atom is only meaningful when there is a match
                d = d | S.lang_matches(pat, ab).complement()
            else:
                raise AnalysisError("isPath tests its argument with a "
                                    "predicate outside the classifier "
                                    "vocabulary: %s" % A.fmt_atom(a))
            lang = lang & d
        if p.outcome[0] == "return" and p.outcome[1] == A.const(False):
            false_lang = false_lang | lang
        elif p.outcome[0] == "return" and p.outcome[1] == A.const(True):
            true_lang = true_lang | lang
        else:
            raise AnalysisError("isPath returns a non-constant: %s"
                                % p.outcome_text())
    ref = S.lang_full(REF_NOT_PATH, ab)
    d = S.diff_witness(false_lang, ref)
    run.check(d is None, "C18.R1", fn.qualname, "URL (not a path) language",
              "isPath is false exactly on L(%s) (pattern %r, %d paths, %d "
              "atoms)" % (REF_NOT_PATH, pat, len(paths), ab.n),
              "isPath(%r): code says %s, documented rule says %s"
              % ((d[0], "URL" if d[1] else "path", "URL" if d[2] else "path")
                 if d else ("", "", "")), loc=m.loc(fn, fn.node),
              witness={"string": d[0]} if d else None)
    total = (true_lang | false_lang).complement()
    run.check(total.is_empty(), "C18.R1", fn.qualname, "total",
              "every string is classified", "isPath is undefined for %r"
              % total.witness(), loc=m.loc(fn, fn.node))


def _r4(ctx):
    run, m, P = ctx.run, ctx.model, ctx.program
    # normalizeURL is covered by its cross-check (R3).  The two schema sites:
    for q, opener in ((SP + ".BaseParser.start_import", "loadURL"),
                      (SP + ".SchemaParser.start_schema", "extendSchema")):
        fn = m.fn(q)
        # (a loop that carries state from one reference to the next is run
        # for two references: a join base taken over from the previous one
        # shows on the second)
        paths = A.Interp(fn, P, try_raises=False,
                         loop_policy=A.carried_state_policy(fn.node)).paths()
        n_open = 0
        bad = []
        for p in paths:
            calls = [e for e in p.effects if e[0] == "call"]
            opens = [e for e in calls if e[1][1][0] == "attr"
                     and e[1][1][2] == opener]
            for o in opens:
                n_open += 1
                arg = o[1][2][0]
                txt = A.fmt(arg)
                # the opened URL must be the first component of a urldefrag
                # result whose second component is falsy on this path, and the
                # defragmented text must be a urljoin against self._url
                ok = False
                if arg[0] == "index" and arg[2] == A.const(0) \
                        and arg[1][0] == "call" \
                        and A.fmt(arg[1][1]).endswith("urldefrag") \
                        and len(arg[1][2]) == 1:
                    j = arg[1][2][0]
                    ok = (j[0] == "call" and A.fmt(j[1]).endswith("urljoin")
                          and len(j[2]) == 2
                          and j[2][0] == ("attr", ("self",), "_url"))
                gate = [a for a in p.order if a[0] == "truthy"
                        and a[1][0] == "index" and a[1][1] == arg[1]
                        and a[1][2] == A.const(1)]
                if not ok:
                    bad.append("opens %s" % txt[:80])
                elif not gate or p.valuation[gate[0]] is not False:
                    bad.append("no fragment test on the path to %s(...)"
                               % opener)
        # and a truthy fragment raises
        raised = [p for p in paths if p.outcome[0] == "raise" and any(
            a[0] == "truthy" and "urldefrag(" in A.fmt(a[1])
            and p.valuation[a] for a in p.order)]
        run.check(not bad and n_open >= 1 and raised, "C18.R4", fn.qualname,
                  "fragment gate before " + opener,
                  "on all %d opening paths the URL is urldefrag(urljoin("
                  "self._url, ref))[0] under 'fragment is empty'; a non-empty "
                  "fragment raises" % n_open,
                  "; ".join(sorted(set(bad))) or "no gate found",
                  loc=m.loc(fn, fn.node))


def _verdict(run, rule, fn, construct, r, m):
    from rules.common import verdict
    verdict(run, rule, fn, construct, r, m)
