"""C08 -- a rejected configuration names the resource and line.

Decides: for every configuration-error class that can leave the parser's
parse() along a path that does not go through a nested resource, whether it
was built by the parser's error() (url, lineno of this parser) or passed a
handler that assigns lineno and url before re-raising (R1); that the line
counter is the 1-based number of the last line read and url the resource's URL
(R2); position tuple order (R3 = C07.R2); that placeholder positions satisfy
the fix-up tests (R4); that conversion errors carry the caught exception, the
converted value and a position (R5); that both spellings of an empty section
finish the section under the same handlers (R6).
Does not decide that the stored line is the *culprit* line for faults detected
late; resource-level failures of %include/%import are listed, not armed.
"""
import ast

from zcstatic import crosscheck as X
from zcstatic.excflow import DATATYPE_SLOTS, PSEUDO_OWN
from zcstatic.model import src, walk_shallow
from zcstatic.report import AnalysisError

PC = "ZConfig.cfgparser.ZConfigParser"
REF = "ref_cfgparser.py"
CFGERR = "ZConfig.ConfigurationError"


def run(ctx):
    run, m, P = ctx.run, ctx.model, ctx.program
    run.explanation = (
        "Decides, by exception-flow analysis with handler-effect tracking, "
        "that every configuration error crossing the parser boundary was "
        "either built by the parser's error() from its own url/lineno or "
        "passed a handler assigning lineno and url before re-raising; plus "
        "decision-table cross-checks of the line counter, the handlers of "
        "section end / key-value / substitution, sentinel agreement between "
        "placeholder positions and fix-up tests, and the arguments of every "
        "DataConversionError.  Does not decide which line is the culprit for "
        "faults detected late; %include/%import resource failures are "
        "listed, not armed.")
    run.assumptions = ["see C07 for the exception-flow assumptions",
                       "errors from a nested (included) resource are "
                       "positioned by the nested parser (same code)"]
    run.rule("C08.R1", "every configuration error leaving parse() outside a "
             "nested resource is positioned (error() or lineno+url patched)",
             floor=10)
    run.rule("C08.R2", "lineno counts lines read from this resource, url is "
             "the resource's url, error() uses both", floor=3)
    run.rule("C08.R3", "position tuples are written in the order the consumer "
             "unpacks (borrowed from C07.R2)", floor=4)
    run.rule("C08.R4", "placeholder positions satisfy the fix-up tests",
             floor=1)   # two today; merging them into a helper leaves one
    run.rule("C08.R5", "DataConversionError(caught exception, converted "
             "value, position) at every conversion wrapper", floor=4)
    run.rule("C08.R9", "errors the matcher raises about the current line "
             "carry no position or this line's position", floor=2)
    run.rule("C08.R8", "the text whose lines are counted is the resource "
             "text as read", floor=1)
    run.rule("C08.R7", "no handler of the parser overwrites the position of "
             "an error located in a nested resource or by a handler below",
             floor=1)
    run.rule("C08.R6", "handlers around section end / key-value / "
             "substitution == reference, for both section spellings",
             floor=4)

    ef = ctx.excflow
    from rules import c07
    c07._install_specialisations(ctx, ef)
    parse = m.fn(PC + ".parse")
    esc = ef.escapes(parse, PC)
    listed = []
    n_ok = 0
    for k, info in sorted(esc.items()):
        cls = k[0]
        if not ef.is_sub(cls, CFGERR):
            continue
        chain = ef.chain(parse, k, PC)
        sfn = c07.site_function(m, k[1])
        desc = "%s raised in %s" % (cls.split(".")[-1], sfn)
        if any("includeConfiguration" in c or "importSchemaComponent" in c
               for c in chain):
            listed.append({"class": cls, "site": k[1],
                           "route": "nested resource / resource-level "
                           "failure of %include or %import"})
            continue
        if sfn == PC + ".error" or m.functions.get(sfn) is not None and \
                m.functions[sfn].name == "error" and sfn.startswith(
                    "ZConfig.cfgparser."):
            run.ok("C08.R1", sfn, "%s via %s" % (cls.split(".")[-1],
                                                 chain[0].split(" calls ")[-1]
                                                 .split(".")[-1]),
                   "built by the parser's error() from self.url/self.lineno",
                   loc=k[1].split(" ")[0], nontrivial=False)
            n_ok += 1
            continue
        patched = set(k[2])
        if {"lineno", "url"} <= patched:
            run.ok("C08.R1", sfn, desc,
                   "passes a handler that assigns lineno and url and "
                   "re-raises: %s" % [c for c in chain if "handler sets" in c],
                   loc=k[1].split(" ")[0])
            n_ok += 1
            continue
        run.fail("C08.R1", sfn, desc,
                 "%s can leave the parser without line number and URL "
                 "(patched attributes: %s)" % (cls, sorted(patched) or "none"),
                 loc=k[1].split(" ")[0], witness={"chain": chain})
    run.extra["listed_not_armed"] = listed[:40]
    run.analysed["escape_items_at_parse"] = len(esc)

    # ------------------------------------------------------------------ R7
    _no_overwrite(ctx, ef)

    # ------------------------------------------------------------------ R8
    # the parser counts lines in exactly the text of the resource: what
    # openResource wraps is what was read (decoded), nothing re-split or
    # re-joined on the way
    from rules import c18
    BL = "ZConfig.loader.BaseLoader"
    orf = m.fn(BL + ".openResource")
    r = X.compare(P, orf, X.spec_method(P, "ref_url.py", "openResource", BL),
                  independent=c18._char_observation)
    _verdict(run, "C08.R8", orf, "resource text handed to the parser "
             "unmodified", r, m)

    # ... and the URL errors are reported against is the one the caller
    # named: loadFile takes the file's own name only when no URL was given
    for cq_ in (BL, "ZConfig.loader.ConfigLoader"):
        lf_ = m.lookup_method(cq_, "loadFile")
        if lf_ is None:
            raise AnalysisError("anchor vanished: %s.loadFile" % cq_)
        r = X.compare(P, lf_, X.spec_method(P, "ref_loader.py", "loadFile",
                                            BL), rename=c18._rename,
                      live_kw={"inline": lambda f: f.name == "loadFile"})
        _verdict(run, "C08.R8", lf_, "the resource's URL: the caller's, else "
                 "the file's own name", r, m)

    # ------------------------------------------------------------------ R9
    # what the matcher raises about the line being added: either without a
    # position (the parser's handler fills in the current line) or with the
    # position handed in for this line -- never the position of a value
    # stored earlier
    from rules.common import crosscheck
    MT = "ZConfig.matcher.BaseMatcher"
    crosscheck(ctx, "C08.R9", MT + ".addValue", "ref_matcher.py", "addValue",
               MT, "errors about the line being added: class and position "
               "arguments", outcome_norm=_with_raise_args)
    crosscheck(ctx, "C08.R9", MT + ".addSection", "ref_matcher.py",
               "addSection", MT, "errors about the section being added: "
               "class and position arguments", outcome_norm=_with_raise_args)

    # ------------------------------------------------------------------ R2
    for live, ref, what in (("nextline", "nextline", "line counter"),
                            ("__init__", "init", "initial state"),
                            ("error", "error", "error construction")):
        lf = m.fn(PC + "." + live)
        r = X.compare(P, lf, X.spec_method(P, REF, ref, PC),
                      outcome_norm=_with_raise_args)
        _verdict(run, "C08.R2", lf, what, r, m)

    from rules.common import crosscheck_many
    crosscheck_many(ctx, "C08.R2", [
        ("ZConfig.ConfigurationError.__init__", "configurationerror_init",
         "ZConfig.ConfigurationError", "message and url are kept"),
        ("ZConfig._ParseError.__init__", "parseerror_init",
         "ZConfig._ParseError", "lineno, colno, url are kept"),
        ("ZConfig.SchemaError.__init__", "schemaerror_init",
         "ZConfig.SchemaError", "argument order url, lineno, colno"),
        ("ZConfig.DataConversionError.__init__", "dataconversionerror_init",
         "ZConfig.DataConversionError",
         "carries the original exception, the value and (lineno, colno, "
         "url)"),
    ])

    # ------------------------------------------------------------------ R3
    before = len(run.obligations)
    c07._r2_positions(ctx)
    for o in run.obligations[before:]:
        o["rule"] = "C08.R3"
    for f in run.findings:
        if f.rule == "C07.R2":
            f.rule = "C08.R3"

    # ------------------------------------------------------------------ R4/R5
    _conversion_wrappers(ctx)

    # ------------------------------------------------------------------ R6
    for live, ref, what in (
            ("_end_section", "finish_section", "section-end handlers"),
            ("start_section", "start_section", "opener incl. empty form"),
            ("end_section", "end_section", "closer"),
            ("handle_key_value", "handle_key_value", "key/value handlers"),
            ("replace", "replace", "substitution handlers")):
        lf = m.lookup_method(PC, live)
        if lf is None:
            run.soft_error("anchor vanished: %s.%s" % (PC, live))
            continue
        r = X.compare(P, lf, X.spec_method(P, REF, ref, PC))
        _verdict(run, "C08.R6", lf, what, r, m)


POSITION_ATTRS = ("lineno", "url")


def _unconditional_position_stores(h):
    """Stores to <exc>.lineno / <exc>.url in a handler body that are not
    under a test mentioning the same attribute of the exception (the fix-up
    idiom `if e.lineno < 0:` / `if not e.url:`)."""
    out = []
    if not h.name:
        return out

    def walk(stmts, guarded):
        for st in stmts:
            if isinstance(st, ast.If):
                g = set(guarded)
                for n in ast.walk(st.test):
                    if isinstance(n, ast.Attribute) and isinstance(
                            n.value, ast.Name) and n.value.id == h.name:
                        g.add(n.attr)
                    if isinstance(n, ast.Call) and src(n.func) == "getattr" \
                            and len(n.args) >= 2 and src(n.args[0]) == h.name \
                            and isinstance(n.args[1], ast.Constant):
                        g.add(n.args[1].value)
                walk(st.body, g)
                walk(st.orelse, g)
            elif isinstance(st, ast.Assign):
                for t in st.targets:
                    if isinstance(t, ast.Attribute) and isinstance(
                            t.value, ast.Name) and t.value.id == h.name \
                            and t.attr in POSITION_ATTRS \
                            and t.attr not in guarded:
                        out.append(st)
            elif isinstance(st, (ast.With, ast.Try, ast.For, ast.While)):
                walk(getattr(st, "body", []), guarded)
    walk(h.body, set())
    return out


def _no_overwrite(ctx, ef):
    """C08.R7: a handler of the parser that sets the position of a caught
    error without testing that it has none must only catch errors that cannot
    carry one yet: not errors already located by a handler below, and not
    errors that come up through a nested resource's parser."""
    run, m = ctx.run, ctx.model
    n = 0
    for ident, logs in sorted(ef.handler_log.items(),
                              key=lambda kv: (kv[0][0], str(kv[0][1]))):
        fi = m.functions.get(ident[0])
        if fi is None or fi.module.name != "ZConfig.cfgparser":
            continue
        for log in logs:
            h = log["handler"]
            stores = _unconditional_position_stores(h)
            if not stores:
                # ... or replaces the caught error by a new one (raise X /
                # self.error(...)): whatever position the caught one had is
                # gone just the same
                stores = [x for x in ast.walk(h) if (
                    isinstance(x, ast.Raise) and x.exc is not None
                    and not (isinstance(x.exc, ast.Name)
                             and x.exc.id == h.name))
                    or (isinstance(x, ast.Expr) and isinstance(
                        x.value, ast.Call) and isinstance(
                        x.value.func, ast.Attribute)
                        and x.value.func.attr == "error")]
            if not stores:
                continue
            n += 1
            bad = None
            for k, info in log["caught"].items():
                if not ef.is_sub(k[0], CFGERR):
                    continue
                if set(k[2]) & set(POSITION_ATTRS):
                    bad = (k, ["already located by a handler below "
                               "(sets %s)" % ",".join(k[2])])
                    break
                via = info.get("via")
                if via is None:
                    continue
                cid, line, k2 = via
                cf = m.functions.get(cid[0])
                chain = ef.chain(cf, k2, cid[1]) if cf is not None else []
                if any(".parse:" in c or "._parse_resource" in c
                       for c in chain):
                    bad = (k, ["%s:%s calls %s" % (fi.qualname, line, cid[0])]
                           + chain)
                    break
            run.check(bad is None, "C08.R7", fi.qualname,
                      "handler at line %d: %s" % (
                          h.lineno, "; ".join(src(s) for s in stores)),
                      "sets the position unconditionally, and every error it "
                      "catches (%d kinds) is raised below without a position "
                      "and outside any nested resource" % len(log["caught"]),
                      "overwrites the position of an error that was located "
                      "in a nested resource (%s): the error then names the "
                      "including line instead of the culprit line"
                      % (bad[0][0] if bad else ""),
                      loc=m.loc(fi, h),
                      witness={"chain": bad[1]} if bad else None)
    return n


def _conversion_wrappers(ctx):
    run, m, P = ctx.run, ctx.model, ctx.program
    n = 0
    for fi in m.functions.values():
        if fi.module.name not in ("ZConfig.matcher", "ZConfig.info",
                                  "ZConfig.cmdline"):
            continue
        for t in walk_shallow(fi.node):
            if not isinstance(t, ast.Try):
                continue
            for h in t.handlers:
                raises = [x for x in h.body if isinstance(x, ast.Raise)
                          and isinstance(x.exc, ast.Call)]
                for r in raises:
                    cls = m.resolve(fi.module, r.exc.func)
                    if cls != "ZConfig.DataConversionError":
                        continue
                    n += 1
                    args = r.exc.args
                    # slot calls in the try body and their arguments
                    slot_args = []
                    for s in t.body:
                        for c in ast.walk(s):
                            if isinstance(c, ast.Call) and c.args:
                                nm = c.func.attr if isinstance(
                                    c.func, ast.Attribute) else (
                                    c.func.id if isinstance(c.func, ast.Name)
                                    else None)
                                if nm in DATATYPE_SLOTS:
                                    slot_args.append(src(c.args[0]))
                    ok = (len(args) == 3 and h.name is not None
                          and isinstance(args[0], ast.Name)
                          and args[0].id == h.name
                          and src(args[1]) in slot_args)
                    run.check(ok, "C08.R5", fi.qualname, src(r.exc)[:90],
                              "carries the caught exception, the value "
                              "handed to the datatype (%s) and a position"
                              % src(args[1]) if len(args) > 1 else "",
                              "DataConversionError does not carry (caught "
                              "exception, converted value, position): "
                              "arguments %s, datatype arguments %s"
                              % ([src(a) for a in args], slot_args),
                              loc=m.loc(fi, r))
                    # R4: a constant position must satisfy the fix-up tests
                    posn = args[2] if len(args) == 3 else None
                    if isinstance(posn, ast.Name) and not P._is_local(
                            fi, posn.id):
                        # a module-level constant standing for the tuple
                        mv = fi.module.assigns.get(posn.id)
                        if mv and len(mv) == 1 and isinstance(mv[0],
                                                              ast.Tuple):
                            posn = mv[0]
                    if len(args) == 3 and isinstance(posn, ast.Tuple) \
                            and all(isinstance(e, (ast.Constant, ast.UnaryOp))
                                    for e in posn.elts):
                        try:
                            vals = m.fold(fi.module, posn)
                        except Exception:
                            vals = None
                        good = (vals is not None and len(vals) == 3
                                and isinstance(vals[0], int) and vals[0] < 0
                                and not vals[2])
                        run.check(good, "C08.R4", fi.qualname,
                                  src(args[2]),
                                  "placeholder %r has a negative line and a "
                                  "falsy URL: the closer's handler "
                                  "(`e.lineno < 0`, `not e.url`) fills it in"
                                  % (vals,),
                                  "placeholder position %s is not recognised "
                                  "by the fix-up tests `e.lineno < 0` / "
                                  "`not e.url`" % src(args[2]),
                                  loc=m.loc(fi, r))
    run.analysed["conversion_wrappers"] = n


def _with_raise_args(p, base):
    from zcstatic import absint as A
    if p.outcome[0] == "raise":
        return base + (tuple(A.fmt(a) for a in p.outcome[2][1:]),)
    return base


def _verdict(run, rule, fn, construct, r, m):
    from rules.common import verdict
    verdict(run, rule, fn, construct, r, m)
