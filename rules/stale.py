"""Vocabulary lookups during a load go through the loader's *current* schema.

A `%import` replaces the loader's schema field by a private derived schema and
then extends that schema's own tables (the ones `createDerivedSchema` copies
and the schema class itself -- not its section-type base -- creates: the type
table and the component registry).  An object built before the import that
kept the schema it was given (a snapshot in one of its own fields) still
holds the *old* tables; a lookup through it does not see what the import
added.  The rule, used as C12.R8 and C14.R8:

  in every function reachable while a configuration is loaded, a call of a
  schema method that reads one of those tables has a receiver that is
  * the loader's schema field read at that moment (`self.schema` inside a
    loader class), or
  * the schema a schema/component parser is working on (C12.R3 decides that
    this is the private copy on the import path), or
  * the object itself (`self`),
  and never a field of another object into which the loader's schema was
  stored (found by value origins).

Tables, reader methods, the rebindable field and the snapshots are all
discovered from the source; nothing is listed by name except the two anchor
classes.
"""
import ast

from zcstatic.model import src, walk_shallow
from zcstatic.report import AnalysisError

INF = "ZConfig.info"
CL = "ZConfig.loader.ConfigLoader"
ST = INF + ".SchemaType"
LOAD_ROOTS = [CL + ".loadResource",
              "ZConfig.cmdline.ExtendedConfigLoader.createSchemaMatcher"]


def vocabulary_tables(m):
    """Container fields SchemaType.__init__ itself creates and
    createDerivedSchema copies."""
    init = m.fn(ST + ".__init__")
    selfn = init.params[0]
    own = set()
    for n in ast.walk(init.node):
        if isinstance(n, ast.Assign):
            for t in n.targets:
                if isinstance(t, ast.Attribute) and isinstance(
                        t.value, ast.Name) and t.value.id == selfn \
                        and isinstance(n.value, (ast.Dict, ast.List,
                                                 ast.Call)) \
                        and not (isinstance(n.value, ast.Call)
                                 and n.value.args):
                    own.add(t.attr)
    # a fresh container handed to the base constructor, which binds it to a
    # field (SectionType.__init__(self, ..., {}) -> self._types = types)
    for n in ast.walk(init.node):
        if not (isinstance(n, ast.Call) and isinstance(n.func, ast.Attribute)
                and n.func.attr == "__init__"):
            continue
        for c in ctx_program_callees(m, init, n):
            ps = list(c.params)
            args = list(n.args)
            if isinstance(n.func.value, ast.Call):     # super().__init__(..)
                ps = ps[1:]
            for p, a in list(zip(ps, args)) + [
                    (k.arg, k.value) for k in n.keywords]:
                if not (isinstance(a, (ast.Dict, ast.List)) or (
                        isinstance(a, ast.Call) and not a.args
                        and src(a.func) in ("dict", "list", "OrderedDict"))):
                    continue
                for x in ast.walk(c.node):
                    if isinstance(x, ast.Assign) and isinstance(
                            x.value, ast.Name) and x.value.id == p:
                        for t in x.targets:
                            if isinstance(t, ast.Attribute) and isinstance(
                                    t.value, ast.Name) \
                                    and t.value.id == c.params[0]:
                                own.add(t.attr)
    cds = m.fn(INF + ".createDerivedSchema")
    copied = set()
    for n in ast.walk(cds.node):
        # new.X.update(base.X) / new.X[:] = base.X / new.X = dict(base.X)
        if isinstance(n, ast.Call) and isinstance(n.func, ast.Attribute) \
                and n.func.attr in ("update", "extend") and isinstance(
                    n.func.value, ast.Attribute):
            copied.add(n.func.value.attr)
        if isinstance(n, ast.Assign):
            for t in n.targets:
                if isinstance(t, ast.Subscript) and isinstance(
                        t.value, ast.Attribute):
                    copied.add(t.value.attr)
                elif isinstance(t, ast.Attribute) and isinstance(
                        n.value, ast.Call) and src(n.value.func) in (
                            "dict", "list", "OrderedDict", "copy.copy"):
                    copied.add(t.attr)
    return own & copied, own, copied


def ctx_program_callees(m, fi, call):
    """The base-class constructor(s) an explicit `Base.__init__(self, ...)` /
    `super().__init__(...)` call denotes."""
    f = call.func
    out = []
    if isinstance(f.value, ast.Call) and src(f.value.func) == "super":
        for k in m.mro(fi.cls.qualname)[1:]:
            c = m.classes.get(k)
            if c is not None and "__init__" in c.methods:
                out.append(c.methods["__init__"])
                break
    else:
        r = m.resolve(fi.module, f)
        if r in m.functions:
            out.append(m.functions[r])
    return out


def reader_methods(m, tables):
    out = {}
    for k in m.mro(ST):
        c = m.classes.get(k)
        if c is None:
            continue
        for name, fn in c.methods.items():
            if name in out or name == "__init__" or not fn.params:
                continue
            selfn = fn.params[0]
            hit = sorted({n.attr for n in ast.walk(fn.node)
                          if isinstance(n, ast.Attribute)
                          and isinstance(n.value, ast.Name)
                          and n.value.id == selfn and n.attr in tables})
            if hit:
                out[name] = (fn, hit)
    return out


def check(ctx, rule):
    run, m, P, F = ctx.run, ctx.model, ctx.program, ctx.flow
    tables, own, copied = vocabulary_tables(m)
    if not tables:
        raise AnalysisError("%s: no schema-level table found (SchemaType."
                            "__init__ creates %s, createDerivedSchema copies "
                            "%s)" % (rule, sorted(own), sorted(copied)))
    readers = reader_methods(m, tables)
    loaders = [CL] + m.subclasses(CL)
    # the loader field a load rebinds
    rebound = set()
    for cq in loaders:
        c = m.classes[cq]
        for fld, stores in c.fields.items():
            for st, meth in stores:
                if m.owner(meth).name != "__init__":
                    rebound.add(fld)
    roots = [m.fn(q) for q in LOAD_ROOTS if m.has_fn(q)]
    reach = P.reachable(roots)
    run.analysed.setdefault("stale_lookup_rule", {}).update({
        "vocabulary_tables": sorted(tables),
        "reader_methods": {k: v[1] for k, v in sorted(readers.items())},
        "loader_fields_rebound_outside_constructor": sorted(rebound),
        "load_reachable_functions": len(reach)})
    n = 0
    for q, fi in sorted(reach.items()):
        for call in walk_shallow(fi.node):
            if not (isinstance(call, ast.Call) and isinstance(
                    call.func, ast.Attribute)
                    and call.func.attr in readers):
                continue
            recv = call.func.value
            # only receivers that can be a schema
            tags = P.type_of(fi, fi.module, recv)
            if tags and not any(t == "C:" + ST for t in tags):
                continue
            if not tags and not _could_be_schema(m, fi, recv):
                continue
            n += 1
            construct = src(call)[:100]
            verdict, why = _classify(ctx, fi, recv, loaders, rebound)
            if verdict == "ok":
                run.ok(rule, fi.qualname, construct, why,
                       loc=m.loc(fi, call))
            elif verdict == "stale":
                run.fail(rule, fi.qualname, construct,
                         "a lookup in the schema's %s goes through %s: %s; "
                         "after a %%import the loader works on a derived "
                         "schema whose tables this object does not see"
                         % ("/".join(readers[call.func.attr][1]),
                            src(recv), why),
                         loc=m.loc(fi, call),
                         witness={"receiver": src(recv), "origin": why,
                                  "tables": readers[call.func.attr][1]})
            else:
                run.soft_error("%s: receiver %s of %s in %s has an origin "
                               "the rule cannot classify (%s); no verdict"
                               % (rule, src(recv), construct, fi.qualname,
                                  why))
    return n


def _could_be_schema(m, fi, recv):
    t = src(recv)
    return t.endswith("schema") or t.endswith("_schema")


def _classify(ctx, fi, recv, loaders, rebound):
    m, F = ctx.model, ctx.flow
    selfn = fi.params[0] if fi.cls is not None and fi.params else None
    if isinstance(recv, ast.Name) and recv.id == selfn:
        return "ok", "the schema object itself"
    cq = fi.cls.qualname if fi.cls is not None else None
    if isinstance(recv, ast.Attribute) and isinstance(recv.value, ast.Name) \
            and recv.value.id == selfn:
        if cq in loaders:
            return "ok", "the loader's own field %s, read at the time of " \
                "the lookup" % recv.attr
        if cq is not None and cq.startswith("ZConfig.schema."):
            return "ok", "the schema under construction by the parser " \
                "(the private copy on the import path: C12.R3)"
        # a field of some other object: where does its value come from?
        stale, seen = [], []
        loader_methods = set()
        for lq in loaders:
            loader_methods |= set(m.classes[lq].methods)
        for o in F.origins(fi, recv, depth=6):
            hit = None
            if o.kind == "attr" and o.fi is not None and o.fi.cls is not None \
                    and o.fi.cls.qualname in loaders \
                    and isinstance(o.node, ast.Attribute) \
                    and o.node.attr in rebound:
                hit = "%s read in %s" % (src(o.node), o.fi.qualname)
            # the value came *through* the loader's field (the search goes on
            # to the field's own stores): a hop "<loader method>: self.<F>"
            for hop in (o.path or [])[1:]:
                fn_, _, ex = hop.partition(": ")
                if fn_ in loader_methods and ex.startswith("self.") \
                        and ex[5:] in rebound:
                    hit = "%s read in %s" % (ex, fn_)
                    break
            if hit:
                stale.append(hit)
            else:
                seen.append("%s:%s" % (o.kind, o.text()[:40]))
        if stale:
            return "stale", "%s.%s holds a snapshot of the loader's " \
                "rebindable field (%s)" % (cq, recv.attr,
                                           "; ".join(sorted(set(stale))))
        if seen and all(s.startswith(("call:", "param:", "display:",
                                      "const:", "subscript:"))
                        for s in seen):
            return "ok", "not derived from the loader's schema field (%s)" \
                % ", ".join(sorted(set(seen))[:3])
        return "unknown", ", ".join(sorted(set(seen))[:4]) or "no origin"
    if isinstance(recv, ast.Name):
        # a local: follow its definitions
        kinds = []
        for o in F.origins(fi, recv, depth=6):
            if o.kind == "attr" and isinstance(o.node, ast.Attribute):
                v, w = _classify(ctx, o.fi, o.node, loaders, rebound) \
                    if o.fi is not None else ("unknown", "?")
                kinds.append((v, w))
            elif o.kind in ("call", "param", "display", "const",
                            "subscript"):
                kinds.append(("ok", "%s %s" % (o.kind, o.text()[:40])))
            else:
                kinds.append(("unknown", "%s %s" % (o.kind, o.text()[:40])))
        for v, w in kinds:
            if v == "stale":
                return v, w
        if kinds and all(v == "ok" for v, _ in kinds):
            return "ok", kinds[0][1]
        return "unknown", "; ".join(w for _, w in kinds) or "no origin"
    return "unknown", "receiver expression %s" % src(recv)


# ---------------------------------------------------------------------------
# What a load changes on the loader, the load puts back.
#
# `%import` "extends the vocabulary of that load only" and "a failed load
# leaves nothing behind": the fields of the configuration loader that code
# reachable from a load re-binds (discovered: every `self.F = ...` of a loader
# class outside its constructor) must be re-assigned by the top-level load
# function on every path from the parse call to either exit -- or reset, before
# the parse call, to a value no earlier load can have changed -- so that the
# next load by the same loader starts from the constructor's state.
RESTORE_EXEMPT = {
    "_loader": "written on the very path that sets the private-schema flag "
               "and read only after that write (decision table of "
               "importSchemaComponent == reference, C12.R3): once the flag "
               "is restored the stale value is never read",
}


def field_stores(m, loaders, fld):
    """[(function, assignment node, is_reset)] for every `self.<fld> = v` in
    the loader classes; a *reset* assigns a constant or a field that only
    constructors write (a value no load can have changed)."""
    out = []
    for cq in loaders:
        c = m.classes[cq]
        for mname, fn in c.methods.items():
            if not fn.params:
                continue
            selfn = fn.params[0]
            for n in ast.walk(fn.node):
                if not isinstance(n, ast.Assign) or len(n.targets) != 1:
                    continue
                t = n.targets[0]
                if not (isinstance(t, ast.Attribute) and isinstance(
                        t.value, ast.Name) and t.value.id == selfn
                        and t.attr == fld):
                    continue
                v = n.value
                # a constant is a reset only when it is the value the
                # constructor starts the field with (flag = True set by an
                # import is a re-binding, flag = False is the reset)
                reset = isinstance(v, ast.Constant) and any(
                    isinstance(st, ast.Assign) and isinstance(
                        st.value, ast.Constant)
                    and st.value.value == v.value
                    and (m.owner(meth).name == "__init__"
                         or _called_from_init(m, cq2, meth))
                    for cq2 in loaders
                    for st, meth in m.classes[cq2].fields.get(fld, []))
                if isinstance(v, ast.Attribute) and isinstance(
                        v.value, ast.Name) and v.value.id == selfn \
                        and v.attr != fld:
                    ws2 = set()
                    for cq2 in loaders:
                        for st, meth in m.classes[cq2].fields.get(v.attr,
                                                                  []):
                            ws2.add(m.owner(meth).name)
                    reset = ws2 == {"__init__"}
                if (fn, n, reset) not in out:
                    out.append((fn, n, reset))
    return out


def _called_from_init(m, cq, meth):
    """`meth` is called on self, unconditionally, by a constructor of the
    class hierarchy (a set-up helper shared with the top-level load)."""
    for k in m.mro(cq):
        c = m.classes.get(k)
        init = c.methods.get("__init__") if c is not None else None
        if init is None or not init.params:
            continue
        for st in init.node.body:
            if isinstance(st, ast.Expr) and isinstance(st.value, ast.Call) \
                    and isinstance(st.value.func, ast.Attribute) \
                    and isinstance(st.value.func.value, ast.Name) \
                    and st.value.func.value.id == init.params[0] \
                    and st.value.func.attr == meth.name:
                return True
    return False


def restore_check(ctx, rule):
    from zcstatic import cfg as C
    run, m, P = ctx.run, ctx.model, ctx.program
    loaders = [CL] + m.subclasses(CL)
    root = m.fn(CL + ".loadResource")
    reach = P.reachable([root])
    fields = set()
    for cq in loaders:
        fields |= set(m.classes[cq].fields)
    writers, resetters = {}, {}
    for fld in sorted(fields):
        for fn, n, reset in field_stores(m, loaders, fld):
            o = m.owner(fn)
            if o.name == "__init__" and fn is o:
                continue
            if fn.qualname not in reach and o.qualname not in reach \
                    and fn is not root:
                continue
            if reset:
                resetters.setdefault(fld, set()).add(fn.qualname)
            else:
                writers.setdefault(fld, set()).add(fn.qualname)
    run.analysed.setdefault("restore_rule", {}).update({
        "loader_fields_rebound_during_a_load": {k: sorted(v) for k, v in
                                                sorted(writers.items())},
        "functions_that_reset_them": {k: sorted(v) for k, v in
                                      sorted(resetters.items())},
        "top_level_load_function": root.qualname})
    if not writers:
        raise AnalysisError("%s: no loader field is re-bound during a load "
                            "(anchor vanished: importSchemaComponent no "
                            "longer replaces the schema?)" % rule)
    g = C.build(root)
    selfn = root.params[0]

    def calls_in(n):
        if n.ast is None or n.kind not in ("stmt", "test", "with_enter"):
            return []
        a = n.ast.context_expr if n.kind == "with_enter" else n.ast
        return [x for x in ast.walk(a) if isinstance(x, ast.Call)]

    def callees(call):
        try:
            cs = P.resolve_call(root, call)
        except Exception:
            return []
        return [c.fn for c in cs if c.kind == "repo"]
    for fld, ws in sorted(writers.items()):
        construct = "self.%s restored after the load" % fld
        if fld in RESTORE_EXEMPT:
            run.ok(rule, root.qualname, construct,
                   "reasoned: " + RESTORE_EXEMPT[fld], loc=m.loc(root,
                                                                 root.node),
                   nontrivial=False)
            continue
        # the calls through which the re-binding functions are reached
        starts = []
        for n in g.live_nodes():
            for call in calls_in(n):
                tgt = callees(call)
                if tgt and any(w in P.reachable(tgt) for w in ws):
                    starts.append(n)
                    break
        if not starts:
            raise AnalysisError("%s: %s contains no call that reaches the "
                                "functions re-binding %s" % (
                                    rule, root.qualname, fld))
        stores = field_stores(m, loaders, fld)

        def assigns(n, fld=fld, only_reset=False):
            """The node assigns self.<fld> -- itself, or by calling a method
            of the loader that does so unconditionally (a top-level statement
            of its body)."""
            if n.kind == "stmt" and isinstance(n.ast, ast.Assign):
                for fn, a, reset in stores:
                    if a is n.ast and (reset or not only_reset):
                        return True
            for call in calls_in(n):
                for fn in callees(call):
                    for fn2, a, reset in stores:
                        if fn2 is fn and a in fn.node.body and (
                                reset or not only_reset) \
                                and fn.qualname not in ws:
                            return True
            return False
        okb, _ = g.must_pass([g.entry],
                             lambda n: assigns(n, only_reset=True), starts)
        if okb:
            run.ok(rule, root.qualname, construct,
                   "every path from the entry of the load to the parse call "
                   "first re-assigns self.%s to a value no earlier load can "
                   "have changed (re-bound during a load by %s): each load "
                   "starts from the constructor's state"
                   % (fld, ", ".join(sorted(ws))),
                   loc=m.loc(root, root.node))
            continue
        bad = None
        for s_ in starts:
            ok, off = g.must_pass([x for _, x in s_.succ], assigns,
                                  [g.exit, g.raise_exit])
            if not ok:
                bad = (s_, off)
                break
        if bad is None:
            run.ok(rule, root.qualname, construct,
                   "every path from the parse call to the normal and the "
                   "exceptional exit re-assigns self.%s (re-bound during a "
                   "load by %s)" % (fld, ", ".join(sorted(ws))),
                   loc=m.loc(root, root.node))
        else:
            s_, off = bad
            run.fail(rule, root.qualname, construct,
                     "self.%s is re-bound during a load (by %s) and %s does "
                     "not put it back on the way to its %s exit: the next "
                     "load by the same loader starts from what this load "
                     "left (vocabulary of a %%import, also of a failed one)"
                     % (fld, ", ".join(sorted(ws)), root.qualname,
                        "exceptional" if off is g.raise_exit else "normal"),
                     loc=m.loc(root, s_.ast),
                     witness={"field": fld, "writers": sorted(ws),
                              "from": src(s_.ast)[:80],
                              "exit": off.kind})
