"""C12 -- abstract slots accept exactly their implementers, including
%import-ed ones.

Decides: implementers are registered at exactly one site, for the type being
defined, under a successful abstract-type lookup, and never for an extender
(R1); an abstract slot admits exactly a looked-up implementer and an abstract
type named directly is refused (R2 = C01.R4/R5); %import works on a private,
per-load derived schema created on the first import (R3); each public load
function constructs a new loader and the private schema is stored only there
(R4); %import is idempotent (R5 = C11.R5) and refused for names that are not
importable packages (R6); no load-phase path mutates an object the private
schema shares with the application schema (R7).
Does not decide acceptance of concrete texts.
"""
import ast

from rules.common import crosscheck
from zcstatic.model import src, walk_shallow
from zcstatic.report import AnalysisError

INF = "ZConfig.info"
LD = "ZConfig.loader"
CL = LD + ".ConfigLoader"
BP = "ZConfig.schema.BaseParser"


def run(ctx):
    run, m, P = ctx.run, ctx.model, ctx.program
    run.explanation = (
        "Decides the registration and lookup structure behind abstract "
        "slots: a who-may-call rule for addsubtype, decision tables of the "
        "slot search, the type gate, %import handling and component source "
        "resolution cross-checked against a parsed reference, who-may-write "
        "of the loader's schema field, and the ownership rule that no "
        "load-phase mutator call has a receiver shared with the application "
        "schema.  Does not decide acceptance of concrete texts.")
    run.rule("C12.R1", "addsubtype is called at exactly one site: in "
             "start_sectiontype, under 'implements', on the looked-up type "
             "after its isabstract() test, with the type being defined",
             floor=2)
    run.rule("C12.R2", "abstract slot admits a looked-up implementer; an "
             "abstract type named directly is refused", floor=3)
    run.rule("C12.R3", "%import: private derived schema on first import, "
             "flag set with the replacement", floor=1)
    run.rule("C12.R4", "a new loader per public load call; the schema field "
             "of the loader is written only by its constructor and by "
             "importSchemaComponent", floor=2)
    run.rule("C12.R5", "%import is idempotent within a load", floor=1)
    run.rule("C12.R6", "names that are not importable packages with a "
             "component are refused as schema-resource errors", floor=1)
    run.rule("C12.R7", "no load-phase mutator call on an object shared with "
             "the application schema", floor=8)
    run.rule("C12.R10", "the section types the shipped logger component "
             "documents as implementations of an abstract type declare "
             "'implements' themselves (borrowed table of C20.R2)", floor=7)
    run.rule("C12.R9", "what a load re-binds on the loader (the private "
             "schema of a %import and its flag) the top-level load function "
             "puts back on every exit: the import extends the vocabulary of "
             "that load only, also for a loader that is used again",
             floor=2)
    run.rule("C12.R8", "every load-phase lookup in the schema's own tables "
             "(type table, component registry) goes through the loader's "
             "current schema, never through a snapshot taken before a "
             "%import replaced it", floor=3)

    # R1
    F = ctx.flow
    add = m.fn(INF + ".AbstractType.addsubtype")
    callers = [(m.owner(c[0]).qualname, src(c[1])) for c in F.callers(add)]
    run.check(callers == [(BP + ".start_sectiontype",
                           "interface.addsubtype(sectinfo)")]
              or (len(callers) == 1
                  and callers[0][0] == BP + ".start_sectiontype"),
              "C12.R1", add.qualname, "single registration site",
              "the only caller is %s" % callers,
              "implementers are registered from %s" % callers,
              loc=m.loc(add, add.node))
    crosscheck(ctx, "C12.R1", BP + ".start_sectiontype", "ref_schema.py",
               "start_sectiontype", BP,
               "registration under implements / abstract lookup, with the "
               "new type; extends path registers nothing")
    crosscheck(ctx, "C12.R1", INF + ".AbstractType.addsubtype", "ref_info.py",
               "addsubtype", INF + ".AbstractType", "keyed by the type name")

    # R2
    crosscheck(ctx, "C12.R2", INF + ".SectionType.getsectioninfo",
               "ref_matcher.py", "getsectioninfo", INF + ".SectionType",
               "abstract slot: getsubtype must succeed")
    crosscheck(ctx, "C12.R2", INF + ".AbstractType.getsubtype",
               "ref_matcher.py", "getsubtype", INF + ".AbstractType",
               "only registered implementers")
    crosscheck(ctx, "C12.R2", CL + ".startSection", "ref_loader.py",
               "startSection", CL, "abstract type named directly refused")

    # R3 / R5
    crosscheck(ctx, "C12.R3", CL + ".importSchemaComponent", "ref_loader.py",
               "importSchemaComponent", CL,
               "derive on first import; flag; replace; gate; register; parse")
    crosscheck(ctx, "C12.R3", INF + ".createDerivedSchema", "ref_info.py",
               "createDerivedSchema", None,
               "the private schema gets its own component registry and type "
               "table (copies): an import extends this load only")
    crosscheck(ctx, "C12.R5", BP + ".start_import", "ref_schema.py",
               "start_import", BP,
               "a component is registered before it is parsed (an import "
               "met again while it is being parsed is skipped)")
    crosscheck(ctx, "C12.R5", INF + ".SchemaType.hasComponent", "ref_info.py",
               "hasComponent", INF + ".SchemaType", "membership")

    # R4
    crosscheck(ctx, "C12.R4", LD + "._get_config_loader", "ref_matcher.py",
               "get_config_loader", None, "a loader is constructed per call")
    writers = set()
    for cq in [CL] + m.subclasses(CL):
        c = m.classes[cq]
        for st, meth in c.fields.get("schema", []):
            writers.add(m.owner(meth).qualname)
    # (the top-level load function may reset the field to the schema the
    # constructor was given: C12.R9 decides that it is such a reset)
    from rules import stale as _st
    _resetting = {m.owner(fn).qualname for fn, a, reset in _st.field_stores(
        m, [CL] + m.subclasses(CL), "schema") if reset}
    _rebinding = {m.owner(fn).qualname for fn, a, reset in _st.field_stores(
        m, [CL] + m.subclasses(CL), "schema") if not reset}
    run.check(_rebinding <= {CL + ".__init__", CL + ".importSchemaComponent"}
              and CL + ".importSchemaComponent" in _rebinding
              and writers <= {CL + ".__init__", CL + ".importSchemaComponent",
                              CL + ".loadResource"} | _resetting,
              "C12.R4", CL, "writers of self.schema",
              "self.schema is written only by the constructor, by "
              "importSchemaComponent and (as a reset) by the top-level load",
              "self.schema is written by %s" % sorted(writers))
    for q in (LD + ".loadConfig", LD + ".loadConfigFile"):
        f = m.fn(q)
        ok = any(isinstance(n, ast.Call)
                 and src(n.func) == "_get_config_loader"
                 for n in walk_shallow(f.node))
        run.check(ok, "C12.R4", q, "fresh loader",
                  "obtains its loader from _get_config_loader on every call",
                  "%s does not construct a loader per call" % q,
                  nontrivial=False)

    crosscheck(ctx, "C12.R3", "ZConfig.cfgparser.ZConfigParser.handle_import",
               "ref_cfgparser.py", "handle_import",
               "ZConfig.cfgparser.ZConfigParser",
               "the expanded, stripped name goes to the loader")

    # R6
    crosscheck(ctx, "C12.R6", "ZConfig.SchemaResourceError.__init__",
               "ref_misc.py", "schemaresourceerror_init",
               "ZConfig.SchemaResourceError",
               "carries file name, package and a copy of the search path")
    crosscheck(ctx, "C12.R6", LD + ".SchemaLoader.schemaComponentSource",
               "ref_schema.py", "schemaComponentSource",
               LD + ".SchemaLoader",
               "empty component / import failure / non-package refused")

    # R7
    from rules import c13
    c13.check_sites(ctx, "C12.R7")

    # R10: the implementers the library itself ships.  'implements' is not
    # inherited (C11), so each documented implementer must say so itself in
    # the component file; the table is the one C20.R2 reads off
    # docs/logging-components.rst
    import os
    import xml.etree.ElementTree as ET
    from rules.c20 import XML_IMPLEMENTS
    d = os.path.join(m.pkgdir, "components", "logger")
    impl = {}
    for fn in sorted(os.listdir(d)) if os.path.isdir(d) else ():
        if fn.endswith(".xml"):
            try:
                root = ET.parse(os.path.join(d, fn)).getroot()
            except ET.ParseError as e:
                raise AnalysisError("cannot parse %s: %s" % (fn, e))
            for st in root.iter("sectiontype"):
                if st.get("implements"):
                    impl[st.get("name").lower()] = (
                        fn, st.get("implements").lower())
    for t, want in sorted(XML_IMPLEMENTS.items()):
        got = impl.get(t, ("?", None))
        run.check(got[1] == want, "C12.R10",
                  "components/logger/%s <sectiontype %s>" % (got[0], t),
                  "implements " + want,
                  "declares the abstract type its documentation names",
                  "<sectiontype %s> declares implements=%r, documented as an "
                  "implementation of %s: a slot of that abstract type no "
                  "longer admits it (implements is not inherited through "
                  "extends)" % (t, got[1], want), nontrivial=False)

    # R8: what an import adds is visible to every lookup of the load
    from rules import stale
    stale.restore_check(ctx, "C12.R9")
    stale.check(ctx, "C12.R8")
    # ... and the one lookup the option bag makes is made only for a section
    # an override actually addresses (a load with unrelated overrides must
    # not consult the bag's schema for imported types at all)
    from zcstatic import crosscheck as X
    OB = "ZConfig.cmdline.OptionBag"
    virt = None
    if m.lookup_method(OB, "_normalize_case") is None:
        virt = {"_normalize_case": X.spec_method(
            P, "ref_matcher.py", "optionbag_normalize_case", OB)}
    crosscheck(ctx, "C12.R8", OB + ".get_section_info", "ref_matcher.py",
               "get_section_info", OB,
               "type looked up only when an override addresses the section",
               ref_kw={"virtual": virt} if virt else None)
