"""C06 -- %include behaves as textual inclusion of a self-contained fragment.

Decides the structural facts that make inclusion textual: the definitions
mapping is shared by reference (R1 = C05.R1); the reference is resolved against
the including parser's own URL, which is the URL of the resource it was built
for, and passes normalizeURL before it is opened (R2); the nested parser works
on the *current* section and the same context, and only openers/closers rebind
the current section (R3); each parser has its own, initially empty section
stack and cannot end with an open section (R4); the nested resource is opened
under `with` (R5 = C19.R1 instance).
Does not decide equality of outcomes with the inlined text.
"""
import ast

from zcstatic import crosscheck as X
from zcstatic.model import src, walk_shallow
from zcstatic.report import AnalysisError

PC = "ZConfig.cfgparser.ZConfigParser"
CL = "ZConfig.loader.ConfigLoader"


def run(ctx):
    run, m, P = ctx.run, ctx.model, ctx.program
    run.explanation = (
        "Decides the code facts that make %include a textual inclusion: value "
        "origins of the definitions mapping, of the URL-join base and of the "
        "section handed to the nested parser, and the decision tables of "
        "handle_include / includeConfiguration / _parse_resource / the parser "
        "constructor, cross-checked against a parsed reference.  Does not "
        "decide equality of outcomes with the inlined text.")
    run.rule("C06.R1", "definitions shared by reference across %include "
             "(borrowed from C05.R1)", floor=1)
    run.rule("C06.R2", "the include reference is expanded, joined against "
             "this parser's url (= its resource's url), normalised (fragment "
             "gate) and only then opened", floor=3)
    run.rule("C06.R3", "the nested parser gets the current section, the same "
             "context and the same definitions; a directive never rebinds "
             "the current section", floor=3)
    run.rule("C06.R4", "own, initially empty section stack per parser; a "
             "fragment cannot end with an open section", floor=2)
    run.rule("C06.R5", "the nested resource is opened under `with`")
    run.rule("C06.R6", "an %include reads the named resource itself, each "
             "time: URL from the reference as written, text from opening it",
             floor=2)

    from rules import c05
    c05.defines_origins(ctx, run, "C06.R1")
    # the join itself: nothing but urllib's urljoin plus the file:/x rewrite
    # (no re-quoting of what the including resource's URL already escapes)
    from rules import c18
    c18.url_helpers(ctx, "C06.R2", ("urljoin",),
                    "join of the include reference against the including URL")

    ref = "ref_cfgparser.py"
    lf = m.fn(PC + ".handle_include")
    r = X.compare(P, lf, X.spec_method(P, ref, "handle_include", PC))
    _verdict(run, "C06.R2", lf, "expand, join against self.url, hand over",
             r, m)
    lf = m.fn(PC + ".__init__")
    r = X.compare(P, lf, X.spec_method(P, ref, "init", PC))
    _verdict(run, "C06.R2", lf, "self.url = resource.url; own empty stack",
             r, m)
    # self.url is written only in the constructor
    writers = [(m.owner(meth).qualname, m.loc(meth, st))
               for c in [m.cls(PC)] + [m.classes[s] for s in
                                       m.subclasses(PC) if s != PC]
               for st, meth in c.fields.get("url", [])]
    run.check(len(writers) == 1 and writers[0][0] == PC + ".__init__",
              "C06.R2", PC, "writers of self.url",
              "self.url is assigned only in the constructor",
              "self.url is also written at %s" % writers, nontrivial=False)
    lf = m.fn(CL + ".includeConfiguration")
    r = X.compare(P, lf, X.spec_method(P, "ref_loader.py",
                                       "includeConfiguration", CL))
    _verdict(run, "C06.R2", lf, "normalise (fragment gate), cycle guard, "
             "open, parse into the given section", r, m)

    lf = m.fn(CL + "._parse_resource")
    r = X.compare(P, lf, X.spec_method(P, "ref_loader.py", "parse_resource",
                                       CL))
    _verdict(run, "C06.R3", lf, "nested parser on the given matcher with the "
             "same context and definitions", r, m)
    # the section handed to includeConfiguration is handle_include's own
    # `section` parameter, which handle_directive passes through unchanged
    # from parse()'s current-section variable
    hi = m.fn(PC + ".handle_include")
    calls = [n for n in walk_shallow(hi.node) if isinstance(n, ast.Call)
             and isinstance(n.func, ast.Attribute)
             and n.func.attr == "includeConfiguration"]
    if len(calls) != 1:
        raise AnalysisError("anchor vanished: includeConfiguration call in "
                            "handle_include")
    arg0 = calls[0].args[0] if calls[0].args else None
    run.check(isinstance(arg0, ast.Name) and arg0.id in hi.params
              and not any(isinstance(n, ast.Name) and n.id == arg0.id
                          and isinstance(n.ctx, ast.Store)
                          for n in walk_shallow(hi.node)),
              "C06.R3", hi.qualname, "section handed to the include",
              "includeConfiguration receives handle_include's own section "
              "parameter, never rebound",
              "the section handed to includeConfiguration (%s) is not the "
              "handler's own section parameter" % (src(arg0) if arg0 is not
                                                   None else None),
              loc=m.loc(hi, calls[0]))
    parse = m.fn(PC + ".parse")
    # parse(): what handle_directive receives on the line after an opener or
    # closer is that call's result (the current section), otherwise parse()'s
    # own section -- decided on the interpreted two-line paths
    from rules import c03
    from zcstatic import absint as A_
    _, rows = c03.section_threading(ctx)
    drows = [r for r in rows if r[1] == "handle_directive"]
    bad = [r for r in drows if not r[4]]
    run.check(len(drows) >= 3 and not bad, "C06.R3", parse.qualname,
              "directive receives the current section",
              "on all %d two-line paths handle_directive receives the "
              "section the previous line left current" % len(drows),
              "handle_directive is not called with the current section: "
              + "; ".join("after %s it receives %s, expected %s"
                          % (r[0], A_.fmt(r[2]), A_.fmt(r[3]))
                          for r in bad[:3]) if bad else
              "no two-line path reaches handle_directive",
              loc=m.loc(parse, parse.node))
    hd = m.fn(PC + ".handle_directive")
    r = X.compare(P, hd, X.spec_method(P, ref, "handle_directive", PC),
                  live_kw={"try_raises": False}, ref_kw={"try_raises": False})
    _verdict(run, "C06.R3", hd, "directive handler gets (section, argument) "
             "unchanged", r, m)
    after = [r for r in rows if r[0] == "handle_directive"]
    bad = [r for r in after if not r[4]]
    run.check(len(after) >= 3 and not bad, "C06.R3", parse.qualname,
              "directive does not rebind the current section",
              "the line after a directive is handled in parse()'s unchanged "
              "current section (%d two-line paths)" % len(after),
              "parse() rebinds the current section from the result of a "
              "directive", loc=m.loc(parse, parse.node))

    # R4: stack
    stack_writers = [(m.owner(meth).qualname, src(st)) for st, meth in
                     m.cls(PC).fields.get("stack", [])]
    run.check(stack_writers == [(PC + ".__init__", "self.stack = []")],
              "C06.R4", PC, "section stack field",
              "self.stack is bound once, to an empty list display, in the "
              "constructor", "self.stack writers: %s" % stack_writers,
              loc=m.rel(m.cls(PC).module.path))
    for cq, c in m.classes.items():
        if "stack" in c.attrs and PC in m.mro(cq):
            run.fail("C06.R4", cq, "class-level stack",
                     "the section stack is a class attribute shared by all "
                     "parsers")
    tails = []
    from zcstatic import absint as A
    for p in A.Interp(parse, P).paths():
        st = [a for a in p.order if a[0] == "truthy"
              and A.fmt(a[1]) == "self.stack"]
        if p.outcome[0] in ("fall", "return"):
            tails.append(bool(st) and p.valuation[st[0]] is False)
    run.check(tails and all(tails), "C06.R4", parse.qualname,
              "fragment must balance",
              "parse() returns normally only with an empty stack",
              "a fragment can end with a section still open",
              loc=m.loc(parse, parse.node))

    # R5: with
    ic = m.fn(CL + ".includeConfiguration")
    withs = [n for n in walk_shallow(ic.node) if isinstance(n, ast.With)
             and any(isinstance(it.context_expr, ast.Call)
                     and isinstance(it.context_expr.func, ast.Attribute)
                     and it.context_expr.func.attr == "openResource"
                     for it in n.items)]
    run.check(len(withs) == 1, "C06.R5", ic.qualname, "with openResource",
              "the nested resource is the context expression of a `with` "
              "(closed on every exit: C19.R1)",
              "the nested resource is not opened under `with`",
              loc=m.loc(ic, ic.node), nontrivial=False)


    # R6: what an %include reads is the named resource, now: the target URL
    # is the absolute form of the reference as written (no symlink
    # resolution, which would move the base of the fragment's own relative
    # references), and the text comes from opening that URL, not from
    # anything remembered
    from rules import c18
    BL = "ZConfig.loader.BaseLoader"
    nu = m.fn(BL + ".normalizeURL")
    r = X.compare(P, nu, X.spec_method(P, "ref_loader.py", "normalizeURL",
                                       BL), rename=c18._rename)
    _verdict(run, "C06.R6", nu, "include target: absolute path of the "
             "reference as written -> file URL", r, m)
    orf = m.fn(BL + ".openResource")
    r = X.compare(P, orf, X.spec_method(P, "ref_url.py", "openResource", BL),
                  independent=c18._char_observation)
    _verdict(run, "C06.R6", orf, "the fragment's text is read from its URL "
             "on every include", r, m)


def _verdict(run, rule, fn, construct, r, m):
    from rules.common import verdict
    verdict(run, rule, fn, construct, r, m)
