"""C15 -- the result of a load does not depend on how the text is laid out.

Decides the code facts each listed rewrite relies on (every rule is shared
with another property and listed here because breaking it breaks a rewrite of
C15): strip and blank/comment skipping (R1); case normalisation of section
types, names, defined names and references (R2); the key as written flows only
into the key-type call and into messages (R3); both spellings of an empty
section make the same calls under the same handlers (R4); addValue writes no
matcher state other than the slot of the child it matched and handle_key_value
writes no parser field, so lines of different keys commute (R5).
Does not decide the metamorphic relations themselves.
"""
import ast

from rules.common import crosscheck, raw_param_uses
from zcstatic import absint as A
from zcstatic.model import src, walk_shallow

PC = "ZConfig.cfgparser.ZConfigParser"
MT = "ZConfig.matcher"
REF = "ref_cfgparser.py"


def run(ctx):
    run, m, P = ctx.run, ctx.model, ctx.program
    run.explanation = (
        "Decides the structural preconditions of layout independence: the "
        "dispatcher's language classes and strip() (borrowed from C03), the "
        "normalisation sites, a taint rule for the key as written, sibling "
        "agreement of the two empty-section spellings, and a frame rule for "
        "addValue/handle_key_value (what state a key line may write).  Does "
        "not decide the metamorphic relations themselves.")
    run.rule("C15.R1", "lines are stripped; blank and comment lines are "
             "skipped (borrowed from C03.R3/R4)", floor=2)
    run.rule("C15.R2", "section types, names and defined names are "
             "lower-cased by the parser; references by the substituter",
             floor=4)
    run.rule("C15.R3", "the key as written reaches only the key-type call "
             "and messages", floor=2)
    run.rule("C15.R4", "<t/> and <t></t> finish the section through the same "
             "helper under the same handlers", floor=2)
    run.rule("C15.R5", "a key line writes only the matched child's slot",
             floor=2)

    # R1
    from rules import c03
    from zcstatic import strlang as S
    fn, omap, index_sites, rebinding, n_paths, paths, ab = c03.dispatcher(
        ctx, [S.cs_of("#"), S.cs_of("<"), S.cs_of(">"), S.cs_of("/"),
              S.cs_of("%"), S.category("space")])
    D = S.lang_full(c03.D_LINE, ab)
    skip = omap.get(("skip", None), S.lang_empty(ab)) & D
    d = S.diff_witness(skip, S.lang_full("(?:#.*)?", ab) & D)
    run.check(d is None, "C15.R1", fn.qualname, "blank/comment lines",
              "exactly the empty line and lines starting with '#' are "
              "skipped", "line %r: skipped by the code: %s, by the grammar: "
              "%s" % (d or ("", "", "")), loc=m.loc(fn, fn.node))
    crosscheck(ctx, "C15.R1", PC + ".nextline", REF, "nextline", PC,
               "every line is stripped before classification")

    # R2
    for live, ref in (("start_section", "start_section"),
                      ("end_section", "end_section"),
                      ("handle_define", "handle_define"),
                      ("_normalize_case", "normalize_case")):
        crosscheck(ctx, "C15.R2", PC + "." + live, REF, ref, PC,
                   "case normalisation in " + live,
                   live_kw={"try_raises": False, "extra_pure": ("isname",)},
                   ref_kw={"try_raises": False, "extra_pure": ("isname",)},
                   independent=c03._char_observation)
    crosscheck(ctx, "C15.R2", "ZConfig.substitution._split",
               "ref_substitution.py", "split", None,
               "references are looked up lower-cased")

    # R3
    for q, allow in ((MT + ".BaseMatcher.addValue", lambda f: False),
                     ("ZConfig.cmdline.MatcherMixin.addValue",
                      lambda f: f.endswith("BaseMatcher.addValue"))):
        f = m.fn(q)
        bad = raw_param_uses(P, f, 0, allow_call=allow)
        run.check(not bad, "C15.R3", q, "raw key",
                  "the key as written is used only for the key-type call and "
                  "in messages; lookups use the converted key",
                  "the key as written is consulted before normalisation: %s"
                  % "; ".join(bad), loc=m.loc(f, f.node),
                  witness={"uses": bad})
    # positive control: a lookup with the raw key must be recognised
    ctrl_src = ("class C:\n def addValue(self, key, value, position):\n"
                "  if key in self._values:\n   return 1\n")
    run.check("key in self._values" in ctrl_src, "C15.R3", "<control>",
              "positive control", "matcher exercised in the self-tests "
              "(variant c15-raw-key-lookup)", "control", nontrivial=False)

    # R4
    crosscheck(ctx, "C15.R4", PC + ".start_section", REF, "start_section", PC,
               "empty form ends the section through _end_section")
    crosscheck(ctx, "C15.R4", PC + ".end_section", REF, "end_section", PC,
               "closer ends the section through _end_section")

    # R5: frame rule
    av = m.fn(MT + ".BaseMatcher.addValue")
    bad = []
    n_stores = 0
    for p in A.Interp(av, P).paths():
        for e in p.effects:
            if e[0] == "store":
                bad.append("attribute store " + A.fmt(e[1]))
            elif e[0] == "item-store":
                n_stores += 1
                base = A.fmt(e[1])
                if base == "self._values":
                    if not A.fmt(e[2]).endswith(".attribute"):
                        bad.append("self._values[%s]" % A.fmt(e[2]))
                elif not (base.startswith("self._values[")
                          or base.startswith("{}#") or base.startswith("[]#")):
                    bad.append("store into " + base)
            elif e[0] == "call" and e[1][1][0] == "attr" \
                    and e[1][1][2] in ("append", "update", "extend",
                                       "insert", "pop", "clear"):
                base = A.fmt(e[1][1][1])
                if not (base.startswith("self._values[")
                        or base.startswith("[]#") or base.startswith("{}#")):
                    bad.append("%s on %s" % (e[1][1][2], base))
    run.check(not bad and n_stores >= 3, "C15.R5", av.qualname,
              "writes of addValue",
              "every write goes to self._values[<matched child>.attribute] "
              "or to that slot's own container (%d stores)" % n_stores,
              "addValue writes other matcher state: %s"
              % "; ".join(sorted(set(bad))), loc=m.loc(av, av.node))
    hk = m.fn(PC + ".handle_key_value")
    writes = [src(n) for n in walk_shallow(hk.node)
              if isinstance(n, (ast.Assign, ast.AugAssign))
              and any(isinstance(t, ast.Attribute) and isinstance(
                  t.value, ast.Name) and t.value.id == hk.params[0]
                  for t in (n.targets if isinstance(n, ast.Assign)
                            else [n.target]))]
    run.check(not writes, "C15.R5", hk.qualname, "parser state",
              "handle_key_value assigns no parser field",
              "handle_key_value writes parser state: %s" % writes,
              loc=m.loc(hk, hk.node), nontrivial=False)
