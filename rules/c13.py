"""C13 -- a schema object can be reused indefinitely.

Decides, as an ownership property: which functions may write schema-owned
state and whether any of them is reachable while a configuration is loaded with
a receiver that is not private to the load (R1); which accessors hand out
references to schema-owned containers (R2); that the caches are pure memos
(R4); that per-load results are built from fresh containers (R5); that no
load-phase function stores to process-wide state (R6); that the derived schema
binds no field to a container object of the base (R7).
Does not decide equality of outcomes across histories (it follows from the
absence of writes, which is what is checked).
"""
import ast

from rules.common import crosscheck
from zcstatic import flow as FL
from zcstatic import ownership as O
from zcstatic.model import dotted, src, walk_shallow
from zcstatic.report import AnalysisError

INF = "ZConfig.info"
LD = "ZConfig.loader"
RI = "ref_info.py"

LOAD_ROOTS = [LD + ".ConfigLoader.loadResource",
              LD + ".ConfigLoader.includeConfiguration",
              LD + ".ConfigLoader.importSchemaComponent",
              LD + ".ConfigLoader.startSection",
              LD + ".ConfigLoader.endSection",
              LD + ".ConfigLoader._parse_resource",
              LD + ".CompositeHandler.__call__",
              "ZConfig.cmdline.ExtendedConfigLoader.addOption",
              "ZConfig.cmdline.ExtendedConfigLoader.createSchemaMatcher"]

CACHE_CLASSES = {"ZConfig.datatypes.Registry":
                 "name -> converter memo (_basic_key, _other via search)",
                 "ZConfig.datatypes.MemoizedConversion":
                 "value -> converted value memo",
                 LD + ".SchemaLoader": "url -> schema memo"}

# call sites whose receiver is private to the load for a reason the
# provenance classifier cannot see; each is discharged by a decision-table
# cross-check named in the reason
SITE_REASONS = {
    (LD + ".ConfigLoader.importSchemaComponent", "schema.addComponent(url)"):
        "receiver is the private derived schema on every path: decision "
        "table of importSchemaComponent == reference (C12.R3)",
}


def schema_classes(m):
    return [q for q in m.classes if q.startswith(INF + ".")
            and q not in (INF + ".UnboundedThing",)]


def load_phase_sites(ctx):
    """Call sites of (transitive) mutator methods of schema classes in
    functions reachable while a configuration is loaded."""
    m, P = ctx.model, ctx.program
    classes = schema_classes(m)
    mut = O.transitive_mutators(m, P, classes)
    roots = [m.fn(q) for q in LOAD_ROOTS]
    reach = P.reachable(roots)
    sites = []
    for q, fi in sorted(reach.items()):
        for call, cs in P.calls_in(fi):
            hits = [c for c in cs if c.kind == "repo"
                    and c.fn.qualname in mut]
            if not hits:
                continue
            f = call.func
            if not isinstance(f, ast.Attribute):
                continue
            if isinstance(f.value, ast.Name) and fi.cls is not None \
                    and fi.params and f.value.id == fi.params[0] \
                    and fi.cls.qualname in classes:
                continue    # an object writing its own state
            prov = O.receiver_provenance(ctx, fi, call)
            sites.append((fi, call, hits, prov))
    return sites, mut, reach


def check_sites(ctx, rule):
    run, m, P = ctx.run, ctx.model, ctx.program
    sites, mut, reach = load_phase_sites(ctx)
    run.analysed["load_reachable_functions"] = len(reach)
    run.analysed["mutator_methods"] = sorted(mut)
    n = 0
    for fi, call, hits, prov in sites:
        n += 1
        construct = src(call)[:100]
        # a private helper that only one method calls does that method's
        # work: the site is reported (and keyed) under that method
        where = m.owner(fi).qualname
        key = (where, construct)
        callee = hits[0].fn.qualname
        if key in SITE_REASONS:
            run.ok(rule, where, construct,
                   "reasoned: " + SITE_REASONS[key], loc=m.loc(fi, call))
            continue
        bad = sorted(p for p in prov if p not in ("fresh",
                                                  "under-construction"))
        if not bad and prov:
            run.ok(rule, where, construct,
                   "receiver of %s is %s" % (callee.split(".")[-1],
                                             "/".join(sorted(prov))),
                   loc=m.loc(fi, call))
        elif "looked-up" in prov or fi.module.name not in (
                "ZConfig.schema", "ZConfig.info"):
            # outside the schema builder nothing constructs schema objects
            # (except the derived schema of importSchemaComponent): a mutator
            # call on anything but a fresh object writes the schema in use
            chain = P.chain(fi.qualname)
            run.fail(rule, where, construct,
                     "%s mutates a schema object that is not private to the "
                     "load (receiver provenance: %s; a derived schema shares "
                     "its type table's elements with the application "
                     "schema); reachable while a configuration is loaded: %s"
                     % (callee, sorted(prov) or "unknown",
                        " -> ".join(c.split(".")[-1] for c in chain[-6:])),
                     loc=m.loc(fi, call),
                     witness={"callee": callee, "provenance": sorted(prov),
                              "chain": chain})
        elif any(p.startswith("other:") and p.endswith("-of-subscript")
                 for p in prov):
            # the receiver can be an element taken out of a container (of a
            # type table, a children list): an object that existed before and
            # that other types or the application schema may hold as well
            chain = P.chain(fi.qualname)
            run.fail(rule, where, construct,
                     "%s can be applied to an object taken out of an "
                     "existing container without being copied first "
                     "(receiver provenance: %s): the container's other "
                     "holders (the base type, the application schema) see "
                     "the change; reachable while a configuration is "
                     "loaded: %s"
                     % (callee, sorted(prov),
                        " -> ".join(c.split(".")[-1] for c in chain[-6:])),
                     loc=m.loc(fi, call),
                     witness={"callee": callee, "provenance": sorted(prov),
                              "chain": chain})
        elif any(p.startswith("other:") and p.endswith("-of-attr")
                 for p in prov):
            # the receiver can be an object that was read back from an
            # attribute of an already existing object: something remembered
            # from an earlier load, not private to this one
            chain = P.chain(fi.qualname)
            run.fail(rule, where, construct,
                     "%s can be applied to a schema object kept in an "
                     "attribute across loads (receiver provenance: %s): what "
                     "one load adds is seen by the next; reachable while a "
                     "configuration is loaded: %s"
                     % (callee, sorted(prov),
                        " -> ".join(c.split(".")[-1] for c in chain[-6:])),
                     loc=m.loc(fi, call),
                     witness={"callee": callee, "provenance": sorted(prov),
                              "chain": chain})
        else:
            run.soft_error("%s: cannot classify the receiver of %s in %s "
                           "(provenance %s)" % (rule, construct, fi.qualname,
                                                sorted(prov)))
    return n


def run(ctx):
    run, m, P = ctx.run, ctx.model, ctx.program
    run.explanation = (
        "Decides schema reusability as an ownership property: mutator methods "
        "of the schema classes are discovered from their bodies; every call "
        "site of one that is reachable while a configuration is loaded "
        "(including the schema builder reached through %import via SAX "
        "callback edges) must have a receiver that is fresh or the builder's "
        "own private schema (value-origin analysis); accessors return "
        "copies; caches are memos; no process-wide state is written; the "
        "derived schema copies into its own containers.  Does not decide "
        "equality of outcomes across histories (it follows from the absence "
        "of writers, which is what is checked).")
    run.rule("C13.R1", "no load-phase writer of schema state that is shared "
             "with the application schema", floor=8)
    run.rule("C13.R2", "accessors return copies of schema-owned containers",
             floor=4)
    run.rule("C13.R4", "caches are memos: store only cache[k] = f(k) "
             "computed in the same activation", floor=2)
    run.rule("C13.R5", "slot table, section-name table and handler list are "
             "created per matcher", floor=1)
    run.rule("C13.R6", "no load-phase function stores to a module global, a "
             "class attribute or a mutable default argument")
    run.rule("C13.R8", "schema type objects are constructed with their own "
             "empty containers (constructors == reference)", floor=3)
    run.rule("C13.R7", "createDerivedSchema copies into the new schema's own "
             "containers (no field aliasing)")
    run.rule("C13.R9", "the schema-builder code that runs inside a load and "
             "operates on objects shared with the application schema (the "
             "implementer table of an abstract type: known finding F8) reads "
             "and writes that shared state exactly as the reference does -- "
             "an additional read makes a later load depend on an earlier one",
             floor=3)

    check_sites(ctx, "C13.R1")

    # R9: with F8 open, the implementer table of the application schema's
    # abstract types carries over from load to load; what the import path
    # does with it is pinned to the reference
    BPq = "ZConfig.schema.BaseParser"
    crosscheck(ctx, "C13.R9", BPq + ".start_sectiontype", "ref_schema.py",
               "start_sectiontype", BPq,
               "the shared abstract type is looked up, tested for "
               "abstractness and given the new implementer -- nothing else "
               "is read from it")
    crosscheck(ctx, "C13.R9", INF + ".AbstractType.addsubtype", "ref_info.py",
               "addsubtype", INF + ".AbstractType",
               "registration replaces by name (idempotent across loads)")
    crosscheck(ctx, "C13.R9", LD + ".ConfigLoader.startSection",
               "ref_loader.py", "startSection", LD + ".ConfigLoader",
               "a section's type is resolved through the loader's current "
               "schema only -- never through what an earlier load left in a "
               "shared implementer table")
    crosscheck(ctx, "C13.R9", INF + ".AbstractType.getsubtype",
               "ref_matcher.py", "getsubtype", INF + ".AbstractType",
               "lookup by name only")

    # R2
    for q, ref in ((INF + ".KeyInfo.getdefault", "keyinfo_getdefault"),
                   (INF + ".MultiKeyInfo.getdefault", "keyinfo_getdefault")):
        crosscheck(ctx, "C13.R2", q, "ref_matcher.py", ref,
                   q.rsplit(".", 1)[0], "copy.copy of the default store")
    for cq in schema_classes(m):
        c = m.classes[cq]
        for name, fi in c.methods.items():
            if name.startswith("__") or not fi.params:
                continue
            selfn = fi.params[0]
            for n in walk_shallow(fi.node):
                if not (isinstance(n, ast.Return) and n.value is not None):
                    continue
                v = n.value
                # returns self.<container field> directly?
                if isinstance(v, ast.Attribute) and isinstance(
                        v.value, ast.Name) and v.value.id == selfn:
                    tags = set()
                    for k in m.mro(cq):
                        tags |= P.ftype.get((k, v.attr), set())
                    if tags & {"dict", "list", "set"}:
                        run.fail("C13.R2", fi.qualname, src(n),
                                 "returns a reference to the schema-owned "
                                 "container self.%s: a caller mutating the "
                                 "result alters the schema" % v.attr,
                                 loc=m.loc(fi, n))
                elif isinstance(v, ast.Call) and FL.is_copying(P, fi, v) \
                        and any(isinstance(x, ast.Attribute) and isinstance(
                            x.value, ast.Name) and x.value.id == selfn
                            for x in ast.walk(v)):
                    run.ok("C13.R2", fi.qualname, src(n),
                           "returns a copy built by %s" % src(v.func),
                           loc=m.loc(fi, n), nontrivial=False)

    # R3: second-level sharing.  getdefault() copies only the outer
    # container, so after default injection (finish) the *elements* of a slot
    # container may be the schema's own lists: finish() and constuct() may
    # replace them (v[key] = new list) but never mutate them in place.
    from zcstatic import absint as A

    def depth(t):
        """Nesting depth below self._values: 0 = the slot table, 1 = a slot
        container, 2 = an element of a slot container, ..."""
        if A.fmt(t) == "self._values":
            return 0
        if t[0] == "elem":
            inner = t[1]
            if inner[0] == "call" and inner[1][0] == "attr" \
                    and inner[1][2] in ("items", "values", "keys"):
                d = depth(inner[1][1])
                return None if d is None else d + 1
            d = depth(inner)
            return None if d is None else d + 1
        if t[0] == "index":
            inner = t[1]
            d = depth(inner)
            if d is None:
                return None
            # a constant index into a (key, value) item is not a new level
            if inner[0] == "elem" and inner[1][0] == "call" \
                    and inner[1][1][0] == "attr" \
                    and inner[1][1][2] == "items" and A.is_const(t[2]):
                return d
            return d + 1
        if t[0] == "call" and t[1][0] == "attr" and t[1][2] in (
                "getdefault",) :
            return 1
        return None

    n_checked = 0
    bad = []
    for q in ("ZConfig.matcher.BaseMatcher.finish",
              "ZConfig.matcher.BaseMatcher.constuct"):
        f = m.fn(q)
        for p in A.Interp(f, P).paths():
            for e in p.effects:
                recv = None
                if e[0] in ("slice-store", "item-store"):
                    recv = e[1]
                    what = e[0]
                elif e[0] == "call" and e[1][1][0] == "attr" \
                        and e[1][1][2] in O.MUTATING_METHODS:
                    recv = e[1][1][1]
                    what = e[1][1][2]
                if recv is None:
                    continue
                d = depth(recv)
                if d is None:
                    continue
                n_checked += 1
                if d >= 2:
                    txt = "%s on %s" % (what, A.fmt(recv))
                    if (q, txt) not in bad:
                        bad.append((q, txt))
    run.rule("C13.R3", "after default injection, elements of slot containers "
             "(possibly the schema's own default lists) are replaced, never "
             "mutated in place")
    for q, txt in bad:
        run.fail("C13.R3", q, txt,
                 "an element of a slot container is mutated in place: when "
                 "the slot was filled from the schema's defaults "
                 "(getdefault() copies only the outer container) this "
                 "overwrites the schema's own default list -- the next load "
                 "sees converted values", loc=m.loc(m.fn(q), m.fn(q).node))
    if not bad:
        run.ok("C13.R3", "ZConfig.matcher.BaseMatcher.finish/constuct",
               "in-place mutations below the slot containers",
               "none among %d mutating effects on the slot table" % n_checked)

    # R4
    crosscheck(ctx, "C13.R4", "ZConfig.datatypes.MemoizedConversion.__call__",
               RI, "memo_call", "ZConfig.datatypes.MemoizedConversion",
               "memo[k] = conversion(k), stored only after success")
    crosscheck(ctx, "C13.R4", LD + ".SchemaLoader.loadResource", RI,
               "schemaloader_loadResource", LD + ".SchemaLoader",
               "cache[url] = parseResource(...), stored only after success")
    # ... and structurally, for every cache table (also the registry's table
    # of names found by search, whose function has no reference): a store
    # into the table is the last thing its function does before it returns
    # -- nothing that can still fail, and no further round of a loop, comes
    # after it (an entry is recorded only for a completed computation)
    from zcstatic import cfg as C
    n_stores = 0
    for cq, fld in (("ZConfig.datatypes.Registry", "_other"),
                    ("ZConfig.datatypes.MemoizedConversion", "_memo"),
                    (LD + ".SchemaLoader", "_cache")):
        c = m.cls(cq)
        for mname, fn in sorted(c.methods.items()):
            if mname == "__init__" or not fn.params:
                continue
            selfn = fn.params[0]
            g = None
            # local aliases of the table (memo = self._memo)
            aliases = {t.id for a in ast.walk(fn.node)
                       if isinstance(a, ast.Assign) and isinstance(
                           a.value, ast.Attribute) and isinstance(
                               a.value.value, ast.Name)
                       and a.value.value.id == selfn
                       and a.value.attr == fld
                       for t in a.targets if isinstance(t, ast.Name)}

            def is_table(e):
                return (isinstance(e, ast.Attribute) and isinstance(
                    e.value, ast.Name) and e.value.id == selfn
                    and e.attr == fld) or (
                        isinstance(e, ast.Name) and e.id in aliases)
            for n in ast.walk(fn.node):
                if not (isinstance(n, ast.Assign) and any(
                        isinstance(t, ast.Subscript) and is_table(t.value)
                        for t in n.targets)):
                    continue
                if mname == "register":
                    continue     # the public registration API itself
                n_stores += 1
                g = g or C.build(fn)
                after = set()
                for cn in g.nodes_for(n):
                    after |= g.reach_from([x for _, x in cn.succ])
                later_calls = []
                for x in g.live_nodes():
                    if x.id in after and x.ast is not None and x.kind in (
                            "stmt", "test", "for_iter", "with_enter"):
                        root = x.ast.iter if x.kind == "for_iter" else x.ast
                        for y in ast.walk(root):
                            if isinstance(y, ast.Call):
                                ftxt = src(y.func)
                                if ftxt.startswith("logging.") or \
                                        ftxt.rsplit(".", 1)[-1] in (
                                            "debug", "info", "warning",
                                            "error", "exception",
                                            "critical", "log"):
                                    continue     # diagnostics
                                later_calls.append(src(y)[:50])
                run.check(not later_calls,
                          "C13.R4", fn.qualname, src(n)[:70],
                          "nothing that can fail follows the store: the "
                          "entry stands for a completed computation",
                          "the cache entry is stored before the computation "
                          "is complete (still to run after the store: %s): a "
                          "failure leaves an entry behind that later loads "
                          "find" % sorted(set(later_calls))[:4],
                          loc=m.loc(fn, n))
    if n_stores < 3:
        raise AnalysisError("C13.R4: only %d store(s) into the cache tables "
                            "found (anchor vanished?)" % n_stores)
    callers = {c[0].qualname for c in ctx.flow.callers(
        m.fn("ZConfig.datatypes.Registry.register"))}
    run.check(not callers, "C13.R4", "ZConfig.datatypes.Registry.register",
              "not called by the library",
              "Registry.register is public API only: no repository function "
              "calls it", "Registry.register is called from %s"
              % sorted(callers), nontrivial=False)

    # R5
    crosscheck(ctx, "C13.R5", "ZConfig.matcher.BaseMatcher.__init__",
               "ref_matcher.py", "basematcher_init",
               "ZConfig.matcher.BaseMatcher",
               "slot table and name table are displays evaluated in the "
               "constructor")

    from rules.common import crosscheck_many
    crosscheck_many(ctx, "C13.R5", [
        ("ZConfig.matcher.SchemaMatcher.__init__", "schemamatcher_init",
         "ZConfig.matcher.SchemaMatcher",
         "a fresh handler list per top-level matcher"),
    ], ref_file="ref_matcher.py")
    crosscheck_many(ctx, "C13.R5", [
        (LD + ".ConfigLoader.__init__", "configloader_init",
         LD + ".ConfigLoader", "per-loader state starts empty"),
        (LD + ".SchemaLoader.__init__", "schemaloader_init",
         LD + ".SchemaLoader", "own registry and cache per loader"),
        (LD + ".loadSchema", "loadSchema", None, "a new loader per call"),
        (LD + ".loadSchemaFile", "loadSchemaFile", None,
         "a new loader per call"),
        ("ZConfig.datatypes.Registry.__init__", "registry_init",
         "ZConfig.datatypes.Registry",
         "the stock table is copied per registry"),
        ("ZConfig.datatypes.MemoizedConversion.__init__", "memo_init",
         "ZConfig.datatypes.MemoizedConversion", "memo starts empty"),
    ])

    # R6
    sites, mut, reach = load_phase_sites(ctx)
    bad = []
    for q, fi in sorted(reach.items()):
        for n in walk_shallow(fi.node):
            if isinstance(n, (ast.Global, ast.Nonlocal)) and isinstance(
                    n, ast.Global):
                bad.append((fi, n, "global statement"))
            if isinstance(n, (ast.Assign, ast.AugAssign)):
                targets = n.targets if isinstance(n, ast.Assign) else [
                    n.target]
                for t in targets:
                    base = t
                    while isinstance(base, (ast.Attribute, ast.Subscript)):
                        base = base.value
                    if isinstance(base, ast.Name) and isinstance(
                            t, (ast.Attribute, ast.Subscript)):
                        r = m.resolve_dotted(fi.module, base.id) \
                            if not P._is_local(fi, base.id) else None
                        if r and (r in m.classes or r in m.modules or (
                                r.rpartition(".")[0] in m.modules
                                and r not in m.functions)):
                            bad.append((fi, n, "store into %s" % r))
        a = fi.node.args
        for d in a.defaults + [x for x in a.kw_defaults if x is not None]:
            if isinstance(d, (ast.List, ast.Dict, ast.Set)):
                bad.append((fi, d, "mutable default argument"))
    # a mutable container bound at class level and never re-bound on the
    # instance is one object for all instances: storing into it through
    # `self` outlives the load (a process-wide cache in disguise)
    for q, fi in sorted(reach.items()):
        if fi.cls is None or not fi.params:
            continue
        selfn = fi.params[0]
        shared = {}
        inst_fields = set()
        for k in m.mro(fi.cls.qualname):
            c = m.classes.get(k)
            if c is None:
                continue
            inst_fields |= set(c.fields)
            for an, vals in c.attrs.items():
                if any(isinstance(v, (ast.Dict, ast.List, ast.Set))
                       or (isinstance(v, ast.Call) and src(v.func) in (
                           "dict", "list", "set", "OrderedDict",
                           "collections.OrderedDict", "defaultdict",
                           "collections.defaultdict")) for v in vals):
                    shared.setdefault(an, k)
        shared = {a: k for a, k in shared.items() if a not in inst_fields}
        if not shared:
            continue
        for n in walk_shallow(fi.node):
            tgt = None
            if isinstance(n, (ast.Assign, ast.AugAssign)):
                for t in (n.targets if isinstance(n, ast.Assign)
                          else [n.target]):
                    if isinstance(t, ast.Subscript):
                        tgt = t.value
            elif isinstance(n, ast.Call) and isinstance(
                    n.func, ast.Attribute) and n.func.attr in (
                        "append", "extend", "insert", "add", "update",
                        "setdefault", "pop", "popitem", "remove", "clear",
                        "discard"):
                tgt = n.func.value
            elif isinstance(n, ast.Delete):
                for t in n.targets:
                    if isinstance(t, ast.Subscript):
                        tgt = t.value
            if isinstance(tgt, ast.Attribute) and isinstance(
                    tgt.value, ast.Name) and tgt.value.id == selfn \
                    and tgt.attr in shared:
                bad.append((fi, n, "store into the class-level container "
                            "%s.%s (shared by every instance)"
                            % (shared[tgt.attr], tgt.attr)))
    for fi, n, why in bad:
        run.fail("C13.R6", fi.qualname, src(n)[:80],
                 "process-wide state written while a configuration is "
                 "loaded: %s" % why, loc=m.loc(fi, n))
    ctrl = ast.parse("def f(x, acc=[]):\n    global G\n    G = 1\n").body[0]
    ctrl_ok = any(isinstance(n, ast.Global) for n in ast.walk(ctrl)) and \
        isinstance(ctrl.args.defaults[0], ast.List)
    run.check(not bad and ctrl_ok, "C13.R6", "load phase",
              "globals / class attributes / mutable defaults",
              "none written in %d load-reachable functions (positive control "
              "matched)" % len(reach), "process-wide writes present",
              nontrivial=False)

    # R8: every type object starts with its own, empty containers (a shared
    # default container would carry one schema's types into the next)
    for q, ref in ((INF + ".SectionType.__init__", "sectiontype_init"),
                   (INF + ".SchemaType.__init__", "schematype_init"),
                   (INF + ".AbstractType.__init__", "abstracttype_init")):
        crosscheck(ctx, "C13.R8", q, RI, ref, q.rsplit(".", 1)[0],
                   "fresh containers per instance")
    crosscheck(ctx, "C13.R2", INF + ".SectionType.gettypenames", RI,
               "gettypenames", INF + ".SectionType",
               "a new list of the type names")

    # R7
    crosscheck(ctx, "C13.R7", INF + ".createDerivedSchema", RI,
               "createDerivedSchema", None,
               "update / slice-store into the new schema's own containers")
