"""C11 -- schema composition features mean the same as their expansion.

Decides the copying, pairing and once-only facts the equivalence rests on:
the container fields written when a child is added are exactly the ones
propagated on derivation and on schema derivation (R1); wildcard-key defaults
are recomputed on a private copy under the new key type (R2); an extended base
contributes key type and datatype only, explicit attribute > base > default,
and 'implements' is not inherited (R3); every start_X that pushes a prefix has
an end_X that pops it, and dotted names compose with the top of the prefix
stack (R4); components are parsed at most once per schema (R5); base schemas
are parsed into the extending schema object with references joined against the
extending schema's URL (R6).
Does not decide the equivalence itself.
"""
import ast

from rules.common import crosscheck
from zcstatic import ownership as O
from zcstatic.model import src, walk_shallow
from zcstatic.report import AnalysisError

INF = "ZConfig.info"
SP = "ZConfig.schema"
BP = SP + ".BaseParser"
RI = "ref_info.py"
RS = "ref_schema.py"


def propagated_fields(fi, dst, srcname, m=None, _depth=0):
    """Fields f with  dst.f.update/extend(src.f)  or  dst.f[:] = src.f --
    in the function itself or in a private helper it hands both objects to."""
    out = set()
    if m is not None and _depth < 2:
        for n in walk_shallow(fi.node):
            if not (isinstance(n, ast.Call) and len(n.args) >= 2
                    and not n.keywords):
                continue
            names = [a.id if isinstance(a, ast.Name) else None
                     for a in n.args]
            if dst not in names or srcname not in names:
                continue
            tgt = m.resolve(fi.module, n.func) if not isinstance(
                n.func, ast.Attribute) or isinstance(
                    n.func.value, ast.Name) else None
            h = m.functions.get(tgt) if tgt else None
            if h is None and isinstance(n.func, ast.Attribute) \
                    and fi.cls is not None:
                h = m.lookup_method(fi.cls.qualname, n.func.attr)
            if h is None or not h.name.startswith("_"):
                continue
            ps = list(h.params)
            if h.cls is not None and isinstance(n.func, ast.Attribute):
                ps = ps[1:]
            if len(ps) < len(names):
                continue
            out |= propagated_fields(h, ps[names.index(dst)],
                                     ps[names.index(srcname)], m,
                                     _depth + 1)
    # plain local aliases of a field:  x = dst.f  (bound once)
    alias = {}
    stores = {}
    for n in walk_shallow(fi.node):
        if isinstance(n, ast.Name) and isinstance(n.ctx, ast.Store):
            stores[n.id] = stores.get(n.id, 0) + 1
    for n in walk_shallow(fi.node):
        if isinstance(n, ast.Assign) and len(n.targets) == 1 \
                and isinstance(n.targets[0], ast.Name) \
                and isinstance(n.value, ast.Attribute) \
                and stores.get(n.targets[0].id) == 1:
            alias[n.targets[0].id] = n.value

    def field(e):
        if isinstance(e, ast.Name) and e.id in alias:
            return alias[e.id]
        return e
    for n in walk_shallow(fi.node):
        if isinstance(n, ast.Call) and isinstance(n.func, ast.Attribute) \
                and n.func.attr in ("update", "extend") and n.args:
            a, b = field(n.func.value), field(n.args[0])
            if isinstance(a, ast.Attribute) and isinstance(b, ast.Attribute) \
                    and src(a.value) == dst and src(b.value) == srcname \
                    and a.attr == b.attr:
                out.add(a.attr)
        elif isinstance(n, ast.Assign) and isinstance(n.targets[0],
                                                      ast.Subscript) \
                and isinstance(n.targets[0].slice, ast.Slice):
            a, b = field(n.targets[0].value), field(n.value)
            if isinstance(a, ast.Attribute) and isinstance(b, ast.Attribute) \
                    and src(a.value) == dst and src(b.value) == srcname \
                    and a.attr == b.attr:
                out.add(a.attr)
    return out


def run(ctx):
    run, m, P = ctx.run, ctx.model, ctx.program
    run.explanation = (
        "Decides the structural facts schema composition rests on: writer "
        "set = copy set for the containers of a section type (discovered "
        "from the bodies, not listed), decision tables of derivation, prefix "
        "handling, datatype inheritance, component registration and base-"
        "schema parsing cross-checked against a parsed reference, and "
        "push/pop pairing over the start_/end_ methods.  Does not decide the "
        "behavioural equivalence with the written-out expansion.")
    run.rule("C11.R1", "every container _add_child writes is propagated by "
             "deriveSectionType and createDerivedSchema", floor=2)
    run.rule("C11.R2", "derivation == reference: copies, then recomputes "
             "wildcard defaults on copy.copy(info) under the new key type")
    run.rule("C11.R3", "extends: base passed for key type and datatype only; "
             "explicit attribute > base > default", floor=3)
    run.rule("C11.R4", "prefix push/pop pairing; dotted names compose with "
             "the top of the prefix stack", floor=5)
    run.rule("C11.R5", "a component is registered before it is parsed and "
             "parsed only if not registered", floor=2)
    run.rule("C11.R7", "a table keyed by key-type-normalised names is not "
             "handed verbatim to a derived type whose key type may differ")
    run.rule("C11.R6", "base schemas are parsed into the extending schema, "
             "references joined against the extending schema's URL",
             floor=2)

    # ------------------------------------------------------------------ R1
    ac = m.fn(INF + ".SectionType._add_child")
    written = {f for f, _, how in O.field_writes(ac)}
    if len(written) < 3:
        raise AnalysisError("anchor vanished: _add_child writes %s" % written)
    ds = m.fn(INF + ".SchemaType.deriveSectionType")
    got = propagated_fields(ds, "t", "base", m)
    # names of the locals are found by role: the result of createSectionType
    if not got:
        for n in walk_shallow(ds.node):
            if isinstance(n, ast.Assign) and isinstance(n.value, ast.Call) \
                    and src(n.value.func).endswith("createSectionType"):
                got = propagated_fields(ds, n.targets[0].id,
                                        ds.params[1], m)
    run.check(written <= got, "C11.R1", ds.qualname,
              "copies %s" % sorted(written),
              "every container written by _add_child (%s) is propagated from "
              "the base" % sorted(written),
              "deriveSectionType does not propagate %s from the base type: "
              "inherited children are missing from that table"
              % sorted(written - got), loc=m.loc(ds, ds.node),
              witness={"written": sorted(written), "copied": sorted(got)})
    cd = m.fn(INF + ".createDerivedSchema")
    newname = None
    for n in walk_shallow(cd.node):
        if isinstance(n, ast.Assign) and isinstance(n.value, ast.Call) \
                and src(n.value.func) == "SchemaType":
            newname = n.targets[0].id
    got = propagated_fields(cd, newname or "new", cd.params[0], m)
    want = written | {"_types", "_components"}
    run.check(want <= got, "C11.R1", cd.qualname, "copies %s" % sorted(want),
              "children, key map, attribute map, type table and component "
              "registry are copied into the derived schema",
              "createDerivedSchema does not propagate %s"
              % sorted(want - got), loc=m.loc(cd, cd.node),
              witness={"wanted": sorted(want), "copied": sorted(got)})

    # ------------------------------------------------------------------ R2
    crosscheck(ctx, "C11.R2", ds.qualname, RI, "deriveSectionType",
               INF + ".SchemaType", "derive")
    crosscheck(ctx, "C11.R2", INF + ".SchemaType.createSectionType", RI,
               "createSectionType", INF + ".SchemaType",
               "new type shares the schema's type table and is registered")

    for q, ref in ((INF + ".BaseKeyInfo.prepare_raw_defaults",
                    "prepare_raw_defaults"),
                   (INF + ".KeyInfo.computedefault", "key_computedefault"),
                   (INF + ".MultiKeyInfo.computedefault",
                    "multikey_computedefault"),
                   (INF + ".BaseKeyInfo.convert_default_key",
                    "convert_default_key")):
        crosscheck(ctx, "C11.R2", q, RI, ref, q.rsplit(".", 1)[0],
                   "defaults are recomputed from the keys as written in the "
                   "schema (raw defaults kept once), under the given key "
                   "type")

    # ------------------------------------------------------------------ R3
    crosscheck(ctx, "C11.R3", BP + ".get_datatype", RS, "get_datatype", BP,
               "explicit attribute > base > default")
    crosscheck(ctx, "C11.R3", BP + ".get_sect_typeinfo", RS,
               "get_sect_typeinfo", BP,
               "base used for keytype and datatype, not valuetype")
    crosscheck(ctx, "C11.R3", BP + ".start_sectiontype", RS,
               "start_sectiontype", BP,
               "extends derives; implements registers only the type itself")

    # ------------------------------------------------------------------ R4
    crosscheck(ctx, "C11.R4", BP + ".push_prefix", RS, "push_prefix", BP,
               "leading-dot prefix composes with the top of the stack")
    crosscheck(ctx, "C11.R4", BP + ".get_key_info", RS, "get_key_info", BP,
               "a key's datatype name is resolved when the key is read, "
               "under the prefix then in effect")
    crosscheck(ctx, "C11.R4", BP + ".pop_prefix", RS, "pop_prefix", BP,
               "pops the top")
    crosscheck(ctx, "C11.R4", BP + ".get_classname", RS, "get_classname", BP,
               "leading-dot name composes with the top of the stack")
    for cq in (BP, SP + ".SchemaParser", SP + ".ComponentParser"):
        c = m.cls(cq)
        pushes, pops = set(), set()
        for name, fi in c.methods.items():
            calls = {n.func.attr for n in walk_shallow(fi.node)
                     if isinstance(n, ast.Call)
                     and isinstance(n.func, ast.Attribute)
                     and isinstance(n.func.value, ast.Name)
                     and fi.params and n.func.value.id == fi.params[0]}
            if name.startswith("start_") and "push_prefix" in calls:
                pushes.add(name[6:])
            if name.startswith("end_") and "pop_prefix" in calls:
                pops.add(name[4:])
        run.check(pushes == pops, "C11.R4", cq, "push/pop pairing",
                  "start_X pushes a prefix exactly for X in %s, and end_X "
                  "pops for the same X" % sorted(pushes),
                  "prefix push/pop unbalanced: pushed in %s, popped in %s"
                  % (sorted(pushes), sorted(pops)),
                  loc=m.loc(c.module, c.node))

    # ------------------------------------------------------------------ R5
    crosscheck(ctx, "C11.R5", "ZConfig.loader.SchemaLoader."
               "schemaComponentSource", RS, "schemaComponentSource",
               "ZConfig.loader.SchemaLoader",
               "the registry key of a component is canonical: the default "
               "file name is part of it, however the import was spelled")
    crosscheck(ctx, "C11.R5", BP + ".start_import", RS, "start_import", BP,
               "package import: hasComponent gate, addComponent, then parse")
    crosscheck(ctx, "C11.R5", "ZConfig.loader.ConfigLoader"
               ".importSchemaComponent", "ref_loader.py",
               "importSchemaComponent", "ZConfig.loader.ConfigLoader",
               "%import: hasComponent gate, addComponent, then parse")
    crosscheck(ctx, "C11.R5", INF + ".SchemaType.addComponent", RI,
               "addComponent", INF + ".SchemaType", "register once")
    crosscheck(ctx, "C11.R5", INF + ".SchemaType.hasComponent", RI,
               "hasComponent", INF + ".SchemaType", "membership")

    # ------------------------------------------------------------------ R6
    crosscheck(ctx, "C11.R6", SP + ".SchemaParser.extendSchema", "ref_url.py",
               "extendSchema", SP + ".SchemaParser",
               "nested parser receives the extending parser")
    crosscheck(ctx, "C11.R6", SP + ".SchemaParser.start_schema", RS,
               "start_schema", SP + ".SchemaParser",
               "base parsed into the extending parser's schema; join, "
               "defragment, gate; key/datatype inheritance from bases")

    _r7_rekeying(ctx)


def _is_keytype_slot(F, fi, f):
    """The callee expression is the `keytype` slot of some object: written
    out, or through a local bound to it."""
    if isinstance(f, ast.Attribute):
        return f.attr == "keytype"
    if isinstance(f, ast.Name) and fi is not None:
        binds = [v for v, how in F._assignments(fi, f.id) if how == "plain"]
        return bool(binds) and all(isinstance(v, ast.Attribute)
                                   and v.attr == "keytype" for v in binds)
    return False


def _r7_rekeying(ctx):
    """C11.R7: 'inheriting key type ... unless overridden'.  A table of a
    section type whose keys are produced by the type's key type (found by
    value origins: a key stored into it is the result of a call through the
    `keytype` slot) is only valid under that key type.  deriveSectionType
    hands such tables to a type whose key type may be another one (its
    `keytype` parameter); a table it copies verbatim, without passing the keys
    through the new key type, is reported.  (It re-derives the wildcard
    defaults under the new key type, so the need is known to the code.)"""
    run, m, P, F = ctx.run, ctx.model, ctx.program, ctx.flow
    ST = INF + ".SectionType"
    derive = m.fn(INF + ".SchemaType.deriveSectionType")
    keyed = {}
    for k in m.mro(ST):
        c = m.classes.get(k)
        if c is None:
            continue
        for fn in c.methods.values():
            if not fn.params:
                continue
            selfn = fn.params[0]
            for n in ast.walk(fn.node):
                if isinstance(n, ast.Subscript) and isinstance(
                        n.ctx, ast.Store) and isinstance(
                            n.value, ast.Attribute) and isinstance(
                                n.value.value, ast.Name) \
                        and n.value.value.id == selfn \
                        and not isinstance(n.slice, ast.Slice):
                    for o in F.origins(fn, n.slice, depth=16):
                        if o.kind == "call" and isinstance(
                                o.node, ast.Call) and _is_keytype_slot(
                                    F, o.fi, o.node.func):
                            keyed.setdefault(n.value.attr, set()).add(
                                "%s: %s" % (o.fi.qualname if o.fi else "?",
                                            src(o.node)))
    run.analysed["tables_keyed_by_the_key_type"] = {
        k: sorted(v) for k, v in sorted(keyed.items())}
    if not keyed:
        raise AnalysisError("C11.R7: no table of %s is keyed by key-type "
                            "output (anchor vanished?)" % ST)
    copies = []
    for n in ast.walk(derive.node):
        if isinstance(n, ast.Call) and isinstance(n.func, ast.Attribute) \
                and n.func.attr in ("update", "extend") and isinstance(
                    n.func.value, ast.Attribute) and n.args and isinstance(
                        n.args[0], ast.Attribute) \
                and n.func.value.attr == n.args[0].attr:
            copies.append((n.func.value.attr, n))
    rekeyed = set()
    for n in ast.walk(derive.node):
        if isinstance(n, ast.Subscript) and isinstance(n.ctx, ast.Store) \
                and isinstance(n.value, ast.Attribute) and any(
                    isinstance(x, ast.Call) and isinstance(
                        x.func, ast.Attribute) and x.func.attr == "keytype"
                    for x in ast.walk(n.slice)):
            rekeyed.add(n.value.attr)
    n_ob = 0
    for tbl, call in copies:
        if tbl not in keyed:
            continue
        n_ob += 1
        if tbl in rekeyed:
            run.ok("C11.R7", derive.qualname, src(call),
                   "the keys are re-derived through the new key type",
                   loc=m.loc(derive, call))
            continue
        run.fail("C11.R7", derive.qualname, src(call),
                 "%s is keyed by names normalised under the base type's key "
                 "type (%s) and is copied verbatim into a type whose key type "
                 "may differ (parameter `keytype`): under "
                 "extends + keytype the base's key names keep their old "
                 "normal form, the written-out expansion normalises them "
                 "anew" % (tbl, "; ".join(sorted(keyed[tbl]))[:160]),
                 loc=m.loc(derive, call),
                 witness={"table": tbl, "keys_from": sorted(keyed[tbl])})
    if not n_ob:
        raise AnalysisError("C11.R7: deriveSectionType copies none of the "
                            "tables keyed by the key type (%s)"
                            % sorted(keyed))
