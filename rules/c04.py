"""C04 -- $-substitution computes exactly the documented replacement function.

Decides: the name language and maximal munch (automata), the five-way split
with every slice bound and delimiter position (decision table with affine
slice bounds, cross-checked against a reference), one iteration of the
left-to-right assembly (what is appended, in which order, which lookup gets the
lower-cased and which the case-preserved name, what `rest` becomes, the error
raised and its arguments), the identity fast path.
Does not decide anything about the values found in the mapping or environment.
"""
import ast

from zcstatic import absint as A
from zcstatic import crosscheck as X
from zcstatic import strlang as S
from zcstatic.model import Unfoldable, src
from zcstatic.report import AnalysisError

SUB = "ZConfig.substitution"
NAME_REF = "[A-Za-z_][A-Za-z0-9_]*"


def name_pattern(ctx):
    """(pattern, method) behind substitution._name_match."""
    m = ctx.model
    mod = m.modules.get(SUB)
    if mod is None:
        raise AnalysisError("anchor vanished: module " + SUB)
    vals = mod.assigns.get("_name_match")
    if not vals or len(vals) != 1:
        raise AnalysisError("anchor vanished: %s._name_match" % SUB)
    e = vals[0]
    if not (isinstance(e, ast.Attribute) and isinstance(e.value, ast.Call)
            and m.resolve(mod, e.value.func) == "re.compile"
            and e.value.args):
        raise AnalysisError("_name_match is not re.compile(<pattern>).<method>")
    call = e.value
    if len(call.args) > 2 or any(k.arg != "flags" for k in call.keywords) \
            or len(call.args) + len(call.keywords) > 2:
        raise AnalysisError("_name_match is not re.compile(<pattern>"
                            "[, <flags>]).<method>")
    flags = call.args[1] if len(call.args) == 2 else (
        call.keywords[0].value if call.keywords else None)
    from rules.c03 import inline_flags
    try:
        pat = inline_flags(m, mod, flags) + m.fold(mod, e.value.args[0])
    except Unfoldable as ex:
        raise AnalysisError("cannot fold the name pattern: %s" % ex)
    return pat, e.attr


def run(ctx):
    run, m, P = ctx.run, ctx.model, ctx.program
    run.explanation = (
        "Decides the splitter of ZConfig.substitution completely: the name "
        "language (regular-language equivalence, maximal munch by thread-list "
        "analysis) and the decision table of _split/substitute/isname with "
        "affine slice bounds, cross-checked valuation by valuation against a "
        "reference implementation that is parsed, never run.  Does not decide "
        "anything about mapping or environment values.")
    run.assumptions = ["strings without newline for the regex part",
                       "one loop iteration of substitute() is analysed; the "
                       "loop-carried state is the pair (result, rest), both "
                       "observed at the end of the iteration"]
    run.rule("C04.R1", "name pattern == [A-Za-z_][A-Za-z0-9_]* and the "
             "priority-chosen prefix match is the longest one")
    run.rule("C04.R2", "isname(s) <=> s is in the name language")
    run.rule("C04.R3", "_split decision table (slice bounds, delimiters, "
             "kinds, error class) == reference", floor=1)
    run.rule("C04.R4", "substitute: one iteration appends prefix then value, "
             "rest is only the splitter's 4th result (no rescanning), lookups "
             "get the right name, missing value raises with (source, name), "
             "identity fast path", floor=1)

    pat, method = name_pattern(ctx)
    run.analysed["name_pattern"] = pat
    if method != "match":
        raise AnalysisError("_name_match is re.compile(...).%s, expected "
                            ".match (prefix matching at a position)" % method)
    ab = S.Alphabet(S.charsets_of_pattern(pat) + S.charsets_of_pattern(
        NAME_REF) + [((0, 127),)])
    live_full = S.lang_full(pat, ab)
    ref = S.lang_full(NAME_REF, ab)
    d = S.diff_witness(live_full, ref)
    where = SUB + "._name_re"
    loc = m.rel(m.modules[SUB].path)
    run.check(d is None, "C04.R1", where, "name language",
              "L(%r) == L(%r) over %d atoms" % (pat, NAME_REF, ab.n),
              "name pattern %r differs from the documented name syntax on %r "
              "(live accepts: %s, reference accepts: %s)"
              % ((pat,) + (d or ("", "", ""))), loc=loc,
              witness={"string": d[0]} if d else None)
    ok, w = S.first_is_longest(pat, ab)
    run.check(ok, "C04.R1", where, "maximal munch",
              "in no reachable thread list does an accepting thread outrank a "
              "thread that can still accept: m.group(0) is the maximal name",
              "the match chosen by priority is not the longest name after "
              "prefix %r" % w, loc=loc, witness={"prefix": w})

    # R2: isname
    fn = m.fn(SUB + ".isname")
    r = X.compare(P, fn, X.spec_function(m, "ref_substitution.py", "isname"))
    _verdict(run, "C04.R2", fn, "whole-string test", r, m)
    live_first = S.lang_first(pat, ab)
    d = S.diff_witness(live_first, ref)
    run.check(d is None, "C04.R2", fn.qualname, "isname language",
              "{s: match(s).group()==s} == reference name language",
              "isname accepts/rejects %r unlike the documented name syntax"
              % (d[0] if d else ""), loc=m.loc(fn, fn.node),
              witness={"string": d[0]} if d else None)

    # R3: _split
    fn = m.fn(SUB + "._split")
    r = X.compare(P, fn, X.spec_function(m, "ref_substitution.py", "split"),
                  independent=_char_observation)
    _verdict(run, "C04.R3", fn, "five-way split", r, m)

    # R4-R6: substitute
    fn = m.fn(SUB + ".substitute")
    r = X.compare(P, fn, X.spec_function(m, "ref_substitution.py",
                                         "substitute"),
                  outcome_norm=_with_raise_args)
    _verdict(run, "C04.R4", fn, "assembly loop (one iteration)", r, m)
    from rules.common import crosscheck
    crosscheck(ctx, "C04.R4", "ZConfig.SubstitutionReplacementError.__init__",
               "ref_misc.py", "replacementerror_init",
               "ZConfig.SubstitutionReplacementError",
               "the replacement error carries source and name")
    # the loop must be a while over the remaining text only
    loops = [n for n in ast.walk(fn.node) if isinstance(n, (ast.While,
                                                            ast.For))]
    run.check(len(loops) == 1 and isinstance(loops[0], ast.While),
              "C04.R4", fn.qualname, "single left-to-right loop",
              "exactly one while loop drives the scan",
              "substitute no longer has a single while loop (%d loops)"
              % len(loops), loc=m.loc(fn, fn.node))


def _char_observation(atom):
    """Lemma: tests of the characters of the (arbitrary) input string at a
    position the reference does not look at -- s.startswith(c, pos),
    s[a:b] == c, s[k] == c -- are independent of the reference's
    observations: the string can hold anything there."""
    t = atom[1] if len(atom) > 1 else None
    if atom[0] == "truthy" and t[0] == "call" and t[1][0] == "attr" \
            and t[1][1] == ("param", 0) and t[1][2] in ("startswith",
                                                        "endswith"):
        return True
    if atom[0] == "eq" and t[0] in ("slice", "index") \
            and t[1] == ("param", 0):
        return True
    return False


def _with_raise_args(p, base):
    if p.outcome[0] == "raise":
        return base + (tuple(A.fmt(a) for a in p.outcome[2]),)
    return base


def _verdict(run, rule, fn, construct, r, m):
    from rules.common import verdict
    verdict(run, rule, fn, construct, r, m)
