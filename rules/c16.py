"""C16 -- the composite handler delivers every handled value exactly once,
all or nothing.

Decides: no raise is reachable after the first callback invocation and the
first invocation is dominated by the duplicate-name and missing-name tests
(R1); names are matched after basic-key conversion, every entry is looked at,
each callback is invoked once per entry with that entry's value, only when not
None (R2); __len__ (R3); the pair appended for a child is (its handler, the
value stored into the slot), in schema order, the schema-level handler last
(R4); one handler list object is shared by all matchers of a load and handed
to the composite handler (R5); writer and reader normalise handler names the
same way (R6).
Does not decide the order in which nested sections are closed (C03 stack
discipline composed with R4).
"""
import ast

from rules.common import crosscheck
from zcstatic import cfg as cfgmod
from zcstatic import flow as FL
from zcstatic.model import src, walk_shallow
from zcstatic.report import AnalysisError

LD = "ZConfig.loader"
CH = LD + ".CompositeHandler"
MT = "ZConfig.matcher"
REF = "ref_matcher.py"


def run(ctx):
    run, m, P = ctx.run, ctx.model, ctx.program
    run.explanation = (
        "Decides the composite handler's all-or-nothing structure as a CFG "
        "path rule (no raise reachable from a callback invocation; both "
        "validation loops dominate the first invocation), its decision table "
        "(cross-checked against a parsed reference), the (handler, value) "
        "pairing in the matcher's conversion step, and -- by value-origin "
        "analysis -- that one list object created per load is shared by all "
        "matchers and the composite handler.  Does not decide the closing "
        "order of nested sections.")
    run.rule("C16.R1", "all or nothing: validation dominates the first "
             "callback; no raise after a callback")
    run.rule("C16.R2", "CompositeHandler.__call__ / __init__ == reference",
             floor=2)
    run.rule("C16.R3", "__len__ is the length of the handler list")
    run.rule("C16.R4", "pairs appended are (child's handler, converted slot "
             "value) in schema order; schema-level handler last", floor=2)
    run.rule("C16.R5", "one handler list per load, shared by reference",
             floor=1)
    run.rule("C16.R6", "schema side and __call__ normalise handler names "
             "with basic-key", floor=2)

    call = m.fn(CH + ".__call__")
    # All or nothing, decided on the interpreted paths of __call__ (helpers
    # the rules do not know are seen through; loops run for two entries): a
    # callback invocation is a call whose callee is a value taken out of a
    # container (neither a method nor a global).  On no path that ends in a
    # raise has a callback been invoked before; and both validation errors
    # (duplicate name, missing name) exist as raising paths.
    from zcstatic import absint as A
    paths = A.Interp(call, P, loop_policy=A.carried_state_policy(call.node),
                     try_raises=False).paths()

    def is_callback(e):
        return e[0] == "call" and e[1][1][0] not in ("attr", "global")
    n_cb_paths = 0
    raising = 0
    bad = []
    for p in paths:
        cbs = [e for e in p.effects if is_callback(e)]
        if cbs:
            n_cb_paths += 1
        if p.outcome[0] == "raise":
            raising += 1
            # effects are in program order; the raise is the last event
            if cbs:
                bad.append("a path raises %s after invoking %s"
                           % (p.outcome[1], A.fmt(cbs[0][1])[:60]))
    if not n_cb_paths:
        raise AnalysisError("anchor vanished: no callback invocation on any "
                            "path of CompositeHandler.__call__")
    run.check(not bad and raising >= 2, "C16.R1",
              call.qualname, "validate everything, then call",
              "%d paths raise, none of them after a callback invocation (%d "
              "paths invoke callbacks)" % (raising, n_cb_paths),
              "; ".join(sorted(set(bad))[:3]) or "fewer than two validation "
              "raises", loc=m.loc(call, call.node))

    def converted_vs_written(atom):
        # Lemma: whether the conversion changed *this* entry's name says
        # nothing about the table of the earlier entries' converted names (or
        # anything else the reference observes): {'ABC': f, 'abc': g} and
        # {'abc': f, 'ABC': g} collide with the second name unchanged resp.
        # changed, {'abc': f} / {'ABC': f} do not collide either way.  Every
        # joint valuation is feasible, so a mismatch under such an atom is a
        # definite one.
        if atom[0] not in ("ord", "eq") or len(atom) != 3:
            return False
        for a, b in ((atom[1], atom[2]), (atom[2], atom[1])):
            if isinstance(a, tuple) and a and a[0] == "call" \
                    and a[1] == ("attr", ("self",), "_convert") \
                    and a[2] == (b,):
                return True
        return False
    crosscheck(ctx, "C16.R2", CH + ".__call__", REF, "composite_call", CH,
               "convert names, refuse duplicates, collect missing, call "
               "non-None callbacks with the entry's value",
               independent=converted_vs_written)
    crosscheck(ctx, "C16.R2", CH + ".__init__", REF, "composite_init", CH,
               "keeps the list object; converter is basic-key")
    crosscheck(ctx, "C16.R3", CH + ".__len__", REF, "composite_len", CH,
               "len of the list")
    crosscheck(ctx, "C16.R4", MT + ".BaseMatcher.constuct", REF, "construct",
               MT + ".BaseMatcher", "(ci.handler, v) appended after the slot "
               "is written, inside the loop over the type's children")
    crosscheck(ctx, "C16.R4", MT + ".SchemaMatcher.finish", REF,
               "schemamatcher_finish", MT + ".SchemaMatcher",
               "schema-level handler appended after the base finish, with "
               "the returned value")

    # R5: origins of the list the composite handler iterates
    F = ctx.flow
    lr = m.fn(LD + ".ConfigLoader.loadResource")
    args = [n for n in walk_shallow(lr.node) if isinstance(n, ast.Call)
            and m.resolve(lr.module, n.func) == CH]
    if len(args) != 1 or not args[0].args:
        raise AnalysisError("anchor vanished: CompositeHandler(...) in "
                            "ConfigLoader.loadResource")
    leaves = F.origins(lr, args[0].args[0], depth=8)
    okc = True
    displays = set()
    for o in leaves:
        if o.kind == "const" and o.node.value is None:
            continue
        if o.kind == "display" and isinstance(o.node, ast.List) \
                and not o.node.elts and o.fi is not None \
                and m.owner(o.fi).qualname in (MT + ".BaseMatcher.__init__",
                                      MT + ".SchemaMatcher.__init__"):
            displays.add(o.fi.qualname)
            continue
        if o.kind == "attr" and src(o.node).endswith(".handlers"):
            continue
        okc = False
        copying = o.kind == "call" and FL.is_copying(P, o.fi, o.node)
        run.fail("C16.R5", o.fi.qualname if o.fi else "?", src(o.node),
                 "the handler list handed to the composite handler can "
                 "originate from %s %s%s" % (o.kind, src(o.node),
                                            ": a copy -- handlers of nested "
                                            "sections are lost" if copying
                                            else ""),
                 loc=m.loc(o.fi, o.node) if o.fi else None,
                 witness={"hops": o.path})
    if okc:
        run.ok("C16.R5", lr.qualname, "handler list origins",
               "every origin is the empty list created in %s; all hops are "
               "plain bindings (%d leaves)" % (sorted(displays), len(leaves)),
               loc=m.loc(lr, args[0]))
    # ... and the matchers of nested sections append to that same list, in
    # the order the sections are closed
    crosscheck(ctx, "C16.R5", MT + ".BaseMatcher.createChildMatcher", REF,
               "createChildMatcher", MT + ".BaseMatcher",
               "the child matcher is given this matcher's handler list")
    crosscheck(ctx, "C16.R5", MT + ".BaseMatcher.__init__", REF,
               "basematcher_init", MT + ".BaseMatcher",
               "the given list is kept by reference; a new one only when "
               "none is given")
    # the other matcher classes: a section matcher is always given the list
    # (no default), the schema matcher starts the one list of the load, and
    # the overriding matcher hands the same list on to its children
    crosscheck(ctx, "C16.R5", MT + ".SectionMatcher.__init__", REF,
               "sectionmatcher_init", MT + ".SectionMatcher",
               "the list is a required argument, handed to the base class")
    crosscheck(ctx, "C16.R5", MT + ".SchemaMatcher.__init__", REF,
               "schemamatcher_init", MT + ".SchemaMatcher",
               "a new list per schema matcher")
    crosscheck(ctx, "C16.R5", "ZConfig.cmdline.MatcherMixin."
               "createChildMatcher", REF, "mixin_createChildMatcher",
               "ZConfig.cmdline.MatcherMixin",
               "the overriding child matcher gets the same handler list")
    # schema order of a derived type's items: the base's items keep their
    # places (a re-created '+' item replaces the original where it stood)
    crosscheck(ctx, "C16.R4", "ZConfig.info.SchemaType.deriveSectionType",
               "ref_info.py", "deriveSectionType", "ZConfig.info.SchemaType",
               "items of a derived type in the base's order")
    crosscheck(ctx, "C16.R4", MT + ".BaseMatcher.finish", REF, "finish",
               MT + ".BaseMatcher",
               "closing a section moves no handler entries: they are "
               "appended by constuct only, after the entries of the sections "
               "closed before")
    # the per-load schema built for %import keeps the schema-level handler
    # (so a later load with the same loader still has that entry)
    crosscheck(ctx, "C16.R5", "ZConfig.info.createDerivedSchema",
               "ref_info.py", "createDerivedSchema", None,
               "the derived schema is built with the base schema's handler")
    # no default-argument list
    bi = m.fn(MT + ".BaseMatcher.__init__")
    for d in bi.node.args.defaults:
        if isinstance(d, (ast.List, ast.Dict)):
            run.fail("C16.R5", bi.qualname, "mutable default",
                     "the handler list is a mutable default argument shared "
                     "by all loads", loc=m.loc(bi, d))

    # R6
    crosscheck(ctx, "C16.R6", "ZConfig.schema.BaseParser.get_handler",
               "ref_schema.py", "get_handler", "ZConfig.schema.BaseParser",
               "handler names are stored after basic-key conversion")
    # every item kind takes its handler name through get_handler: no other
    # function of the schema parser reads the 'handler' attribute itself
    BPq = "ZConfig.schema.BaseParser"
    raw = []
    for fi in m.functions.values():
        if fi.module.name != "ZConfig.schema" or fi.name == "get_handler":
            continue
        for n in walk_shallow(fi.node):
            k = None
            if isinstance(n, ast.Subscript) and isinstance(
                    n.slice, ast.Constant):
                k = n.slice.value
            elif isinstance(n, ast.Call) and isinstance(
                    n.func, ast.Attribute) and n.func.attr in (
                        "get", "pop") and n.args and isinstance(
                        n.args[0], ast.Constant):
                k = n.args[0].value
            if k == "handler":
                raw.append((fi, n))
    for fi, n in raw:
        run.fail("C16.R6", fi.qualname, src(n),
                 "the 'handler' attribute is read without get_handler: the "
                 "name is stored as written, while the names given to the "
                 "composite handler are matched after basic-key conversion",
                 loc=m.loc(fi, n))
    if not raw:
        run.ok("C16.R6", "ZConfig.schema", "raw reads of 'handler'",
               "only get_handler reads the attribute", nontrivial=False)
    for name in ("start_key", "start_multikey", "start_section",
                 "start_multisection"):
        crosscheck(ctx, "C16.R6", BPq + "." + name, "ref_schema.py", name,
                   BPq, "the item's handler is get_handler(attrs)")
    crosscheck(ctx, "C16.R6", "ZConfig.schema.BaseParser.basic_key",
               "ref_schema.py", "basic_key", "ZConfig.schema.BaseParser",
               "basic-key wrapper")
