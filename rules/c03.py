"""C03 -- configuration text is read by the documented line grammar.

Decides the per-line language exactly (which lines are skipped, open, close,
directives, key/value, malformed; where the key ends; which fields are
captured), lower-casing, the directive set, and the stack discipline per call.
Does not decide multi-line semantics beyond the stack discipline.
"""
import ast

from zcstatic import absint as A
from zcstatic import crosscheck as X
from zcstatic import strlang as S
from zcstatic.model import Unfoldable, src
from zcstatic.report import AnalysisError

CP = "ZConfig.cfgparser"
PC = CP + ".ZConfigParser"
REF = "ref_cfgparser.py"

K = r"[^\s()]"
# unambiguous references (all accepting paths are taken; each input has one)
REF_KEYVALUE = r"(?P<key>%s+)(?:\s+(?P<value>\S.*)|(?P<value2>[()].*))?$" % K
REF_SECTION = r"(?P<type>%s+)(?:\s+(?P<name>%s+))?$" % (K, K)
D_LINE = r"(?:\S(?:.*\S)?)?"          # stripped line
D_NO_TRAIL = r"(?:.*\S)?"             # no trailing whitespace


def compiled_pattern(ctx, name):
    return compiled_pattern_in(ctx, CP, name)


def compiled_pattern_in(ctx, modname, name):
    m = ctx.model
    CP = modname
    mod = m.modules.get(CP)
    if mod is None:
        raise AnalysisError("anchor vanished: module " + CP)
    vals = mod.assigns.get(name)
    if not vals or len(vals) != 1:
        raise AnalysisError("anchor vanished: %s.%s" % (CP, name))
    e = vals[0]
    if not (isinstance(e, ast.Call) and m.resolve(mod, e.func) == "re.compile"
            and 1 <= len(e.args) <= 2
            and all(k.arg == "flags" for k in e.keywords)
            and len(e.args) + len(e.keywords) <= 2):
        raise AnalysisError("%s is not re.compile(<pattern>[, <flags>])"
                            % name)
    flags = e.args[1] if len(e.args) == 2 else (
        e.keywords[0].value if e.keywords else None)
    try:
        return inline_flags(m, mod, flags) + m.fold(mod, e.args[0])
    except Unfoldable as ex:
        raise AnalysisError("cannot fold %s: %s" % (name, ex))


_FLAG_LETTER = {"I": "i", "IGNORECASE": "i", "A": "a", "ASCII": "a",
                "M": "m", "MULTILINE": "m", "S": "s", "DOTALL": "s",
                "X": "x", "VERBOSE": "x", "U": "", "UNICODE": "",
                "NOFLAG": ""}


def inline_flags(m, mod, node):
    """The flags argument of re.compile as the equivalent global inline-flag
    prefix `(?ai)` -- the pattern language is then decided by zcstatic.strlang
    (which refuses the flags it does not model: m, s, x)."""
    if node is None:
        return ""
    letters = set()

    def visit(n):
        if isinstance(n, ast.BinOp) and isinstance(n.op, ast.BitOr):
            visit(n.left)
            visit(n.right)
            return
        if isinstance(n, ast.Constant) and n.value == 0:
            return
        q = m.resolve(mod, n) if isinstance(n, (ast.Attribute, ast.Name)) \
            else None
        if q and q.startswith("re.") and q[3:] in _FLAG_LETTER:
            letters.add(_FLAG_LETTER[q[3:]])
            return
        raise AnalysisError("regex flags expression outside the vocabulary: "
                            + ast.unparse(n))
    visit(node)
    letters.discard("")
    return "(?%s)" % "".join(sorted(letters)) if letters else ""


def tagged_check(run, m, rule, name, live_pat, ref_pat, domain_pat, rename,
                 what):
    ab = S.Alphabet(S.charsets_of_pattern(live_pat)
                    + S.charsets_of_pattern(ref_pat)
                    + S.charsets_of_pattern(domain_pat))
    live = S.lang_tagged(live_pat, ab, first=True)
    ref = S.lang_tagged(ref_pat, ab, first=False)
    if rename:
        ref = _rename_tags(ref, rename)
    dom = S.lang_full(domain_pat, ab)
    d = S.tagged_diff(live, ref, dom)
    where = "%s.%s" % (CP, name)
    run.check(d is None, rule, where, what,
              "capture function of %r equals the reference on the domain "
              "(%d atoms; tagged automata %s / %s states,transitions)"
              % (live_pat, ab.n, S.tagged_count(live), S.tagged_count(ref)),
              "capture function differs from the reference on input %r "
              "(tagged word; produced by live: %s, by reference: %s)"
              % (d or ("", "", "")), loc=m.rel(m.modules[CP].path),
              witness={"tagged_word": d[0], "live": d[1], "reference": d[2],
                       "pattern": live_pat, "reference_pattern": ref_pat}
              if d else None)
    return ab


def _rename_tags(t, rename):
    out = S.TaggedDFA(t.ab)
    out.accept = set(t.accept)
    for row in t.trans:
        nr = {}
        for (tags, a), tgt in row.items():
            nt = frozenset((k, rename.get(n, n)) for k, n in tags)
            nr[(nt, a)] = tgt
        out.trans.append(nr)
    return out


# ------------------------------------------------------------ dispatcher

def atom_language(atom, value, L, ab):
    """Language of strings (values of term L) satisfying atom == value, or
    None if the atom does not talk about L."""
    k = atom[0]

    def lit(s):
        import re
        return re.escape(s)

    dfa = None
    if k == "eq" and A.is_const(atom[2]) and isinstance(atom[2][1], str):
        t, c = atom[1], atom[2][1]
        if t == L:
            dfa = S.lang_full(lit(c), ab)
        elif t[0] == "slice" and t[1] == L and t[2] is None \
                and t[3] is not None and A.is_const(t[3]) and t[3][1] > 0:
            n = t[3][1]
            if len(c) == n:
                dfa = S.lang_full(lit(c) + ".*", ab)
            elif len(c) < n:
                dfa = S.lang_full(lit(c), ab)
            else:
                dfa = S.lang_empty(ab)
        elif t[0] == "slice" and t[1] == L and t[3] is None \
                and t[2] is not None and A.is_const(t[2]) and t[2][1] < 0:
            n = -t[2][1]
            if len(c) == n:
                dfa = S.lang_full(".*" + lit(c), ab)
            elif len(c) < n:
                dfa = S.lang_full(lit(c), ab)
            else:
                dfa = S.lang_empty(ab)
        elif t[0] == "index" and t[1] == L and A.is_const(t[2]):
            if t[2][1] == 0 and len(c) == 1:
                dfa = S.lang_full(lit(c) + ".*", ab)
            elif t[2][1] == -1 and len(c) == 1:
                dfa = S.lang_full(".*" + lit(c), ab)
    elif k == "truthy":
        t = atom[1]
        if t == L:
            dfa = S.lang_full(".+", ab)
        elif t[0] == "slice" and t[1] == L:
            # a slice of the line is non-empty iff the line is long enough
            lo = t[2][1] if t[2] is not None and A.is_const(t[2]) else (
                0 if t[2] is None else None)
            hi = t[3][1] if t[3] is not None and A.is_const(t[3]) else (
                None if t[3] is None else "?")
            if lo is not None and hi != "?":
                if lo >= 0 and (hi is None or hi > lo):
                    dfa = S.lang_full(".{%d,}" % (lo + 1), ab)
                elif lo < 0 and hi is None:
                    dfa = S.lang_full(".+", ab)
        elif t[0] == "call" and t[1][0] == "attr" and t[1][1] == L \
                and len(t[2]) == 1 and A.is_const(t[2][0]):
            c = t[2][0][1]
            if t[1][2] == "startswith":
                dfa = S.lang_full(lit(c) + ".*", ab)
            elif t[1][2] == "endswith":
                dfa = S.lang_full(".*" + lit(c), ab)
    if dfa is None:
        return None
    return dfa if value else dfa.complement()


def mentions(term, L):
    if term == L:
        return True
    if isinstance(term, tuple):
        return any(mentions(x, L) for x in term)
    return False


HANDLERS = ("end_section", "start_section", "handle_directive",
            "handle_key_value")


def _consts(t, out):
    if isinstance(t, tuple):
        if len(t) == 2 and t[0] == "const" and isinstance(t[1], str):
            out.update(t[1])
        else:
            for x in t:
                _consts(x, out)


def dispatcher(ctx, base_charsets):
    """Outcome map of ZConfigParser.parse: outcome -> language of lines."""
    run, m, P = ctx.run, ctx.model, ctx.program
    fn = m.fn(PC + ".parse")
    paths = A.Interp(fn, P).paths()
    chars = set()
    for p in paths:
        for a in p.order:
            _consts(a, chars)
    ab = S.Alphabet(list(base_charsets) + [S.cs_of(c) for c in chars
                                           if c != "\n"])
    # the line term: second component of the nextline() result
    L = None
    for p in paths:
        for e in p.effects:
            if e[0] == "call" and A.fmt(e[1]) == "self.nextline()":
                L = ("index", e[1], A.const(1))
    if L is None:
        raise AnalysisError("anchor vanished: parse() no longer reads lines "
                            "through self.nextline()")
    outcome_lang = {}
    index_sites = []
    rebinding = {}
    n_paths = 0
    for p in paths:
        entered = any(e[0] == "store" and e[1][0] == "free" for e in p.effects)
        in_loop = [a for a in p.order if mentions(a, L)]
        if not in_loop and not any(
                e[0] in ("call", "noreturn-call") and any(
                    mentions(x, L) for x in e[2 if e[0] == "noreturn-call"
                                              else 1][2:3])
                for e in p.effects):
            pass
        # language of the path
        lang = S.lang_all(ab)
        used = False
        for a in p.order:
            if not mentions(a, L):
                continue
            d = atom_language(a, p.valuation[a], L, ab)
            if d is None:
                raise AnalysisError(
                    "parse() tests the line with a predicate outside the "
                    "classifier vocabulary: %s" % A.fmt_atom(a))
            lang = lang & d
            used = True
        # outcome: first handler call / error inside the loop body
        out = None
        for e in p.effects:
            if e[0] == "store" and e[1][0] == "free":
                break   # end of the loop body
            if e[0] == "call":
                t = e[1]
                if t[1][0] == "attr" and t[1][1] == ("self",) \
                        and t[1][2] in HANDLERS:
                    win = None
                    for arg in t[2]:
                        if arg == L:
                            win = (None, None)
                        elif arg[0] == "slice" and arg[1] == L:
                            win = (arg[2][1] if arg[2] else None,
                                   arg[3][1] if arg[3] else None)
                    out = (t[1][2], win)
                    break
            elif e[0] == "noreturn-call":
                if used:
                    out = ("error", None)
                break
        # IndexError obligations
        for e in p.effects:
            if e[0] == "index-eval" and e[1] == L:
                pre = S.lang_all(ab)
                for a in p.order[:e[3]]:
                    if mentions(a, L):
                        pre = pre & atom_language(a, p.valuation[a], L, ab)
                index_sites.append((e[4], e[2][1], pre))
        if not used:
            continue
        n_paths += 1
        if out is None:
            out = ("skip", None)
        if out[0] in HANDLERS:
            # does the call's result rebind the current section?
            rebinding.setdefault(out[0], set()).add(
                _rebinds_section(fn, out[0], p))
        prev = outcome_lang.get(out)
        outcome_lang[out] = lang if prev is None else (prev | lang)
    return fn, outcome_lang, index_sites, rebinding, n_paths, paths, ab


def _rebinds_section(fn, handler, path):
    """True iff, on this path, the current-section variable of parse() holds
    the result of self.<handler>(...) after the line was handled; False iff it
    still holds what it held before (decided on the interpreted path, so a
    dispatcher split into helpers is seen through)."""
    if len(fn.params) < 2 or path.env is None:
        return None
    t = path.env.get(fn.params[1])
    if t == ("param", 0):
        return False
    if t is not None and t[0] == "call" and t[1][0] == "attr" \
            and t[1][1] == ("self",) and t[1][2] == handler:
        return True
    return None


def section_threading(ctx):
    """How parse() threads the current section through two consecutive
    lines (the loop is interpreted for two iterations; helpers unknown to the
    rules are seen through).  Returns a list of
      (first handler, second handler, first argument of the second call,
       expected term, ok)
    where the expected term is the result of the first call when the first
    handler is an opener/closer and parse()'s own section parameter
    otherwise."""
    m, P = ctx.model, ctx.program
    fn = m.fn(PC + ".parse")
    paths = A.Interp(fn, P, loop_policy=lambda n: "twice").paths()
    rows = []
    for p in paths:
        first = second = None
        seen_second = False
        for e in p.effects:
            if e[0] == "loop-second":
                seen_second = True
                continue
            if e[0] != "call":
                continue
            t = e[1]
            if t[1][0] == "attr" and t[1][1] == ("self",) \
                    and t[1][2] in HANDLERS:
                if not seen_second and first is None:
                    first = t
                elif seen_second and second is None:
                    second = t
        if second is None or not second[2]:
            continue
        if first is None:
            expected = ("param", 0)
            fname = "skip"
        elif first[1][2] in ("start_section", "end_section"):
            expected = first
            fname = first[1][2]
        else:
            expected = ("param", 0)
            fname = first[1][2]
        rows.append((fname, second[1][2], second[2][0], expected,
                     second[2][0] == expected))
    return fn, rows


def run(ctx):
    run, m, P = ctx.run, ctx.model, ctx.program
    run.explanation = (
        "Decides the per-line grammar of the configuration parser as regular "
        "languages: the capture functions of the two line patterns (tagged "
        "winner-path automata, compared with unambiguous references on the "
        "domain of stripped lines), the dispatcher of parse() (each branch "
        "condition translated to a regular language, outcome map compared "
        "with the documented classification, slice windows included, "
        "IndexError-freedom of every integer subscript), and the decision "
        "tables of the section/directive/key-value handlers (cross-checked "
        "against a parsed reference).  Does not decide multi-line semantics "
        "beyond the per-call stack discipline.")
    run.assumptions = [
        "lines contain no newline after strip() (readline() yields one line)",
        "subclasses overriding _normalize_case are outside the claim"]
    run.rule("C03.R1", "_keyvalue_rx captures key = maximal leading run of "
             "non-space non-parenthesis characters, value = rest")
    run.rule("C03.R2", "_section_start_rx captures 'type [name]'")
    run.rule("C03.R3", "dispatcher outcome map == documented line "
             "classification (languages and slice windows)", floor=6)
    run.rule("C03.R4", "each classified line is readline().strip(); lineno "
             "counts lines read; every integer subscript of the line is "
             "guarded against the empty line", floor=1)
    run.rule("C03.R5", "section header/closer post-processing and stack "
             "discipline == reference", floor=3)
    run.rule("C03.R7", "directive set is exactly define/import/include, each "
             "with a handler; argument required")
    run.rule("C03.R8", "key/value hand-off: absent value is '', present value "
             "is expanded, key passed unmodified")
    run.rule("C03.R9", "every parser error is a ConfigurationSyntaxError "
             "built from this resource's url and line")

    kv = compiled_pattern(ctx, "_keyvalue_rx")
    ss = compiled_pattern(ctx, "_section_start_rx")
    run.analysed["patterns"] = {"_keyvalue_rx": kv, "_section_start_rx": ss}
    tagged_check(run, m, "C03.R1", "_keyvalue_rx", kv, REF_KEYVALUE,
                 D_NO_TRAIL, {"value2": "value"}, "key/value capture")
    tagged_check(run, m, "C03.R2", "_section_start_rx", ss, REF_SECTION,
                 D_NO_TRAIL, None, "section header capture")

    # ---------------------------------------------------------------- R3
    fn, omap, index_sites, rebinding, n_paths, paths, ab = dispatcher(
        ctx, [S.cs_of("#"), S.cs_of("<"), S.cs_of(">"), S.cs_of("/"),
              S.cs_of("%"), S.category("space")])
    run.analysed["dispatcher_paths"] = n_paths
    D = S.lang_full(D_LINE, ab)

    def L(p):
        return S.lang_full(p, ab)
    reference = {
        ("skip", None): L("(?:#.*)?"),
        ("end_section", (2, -1)): L("</.*>"),
        ("start_section", (1, -1)): L("<.*>") - L("</.*"),
        ("handle_directive", (1, None)): L("%.*"),
    }
    err = (L("</.*") - L(".*>")) | (L("<.*") - L("</.*") - L(".*>"))
    reference[("error", None)] = err
    rest = S.lang_all(ab)
    for v in reference.values():
        rest = rest - v
    reference[("handle_key_value", (None, None))] = rest
    loc = m.loc(fn, fn.node)
    for key in sorted(set(reference) | set(omap), key=str):
        live = omap.get(key, S.lang_empty(ab)) & D
        ref = reference.get(key, S.lang_empty(ab)) & D
        d = S.diff_witness(live, ref)
        name = "%s%s" % (key[0], "" if key[1] is None else
                         "[%s:%s]" % tuple("" if x is None else x
                                           for x in key[1]))
        run.check(d is None, "C03.R3", fn.qualname, "lines -> " + name,
                  "set of stripped lines dispatched to %s equals the "
                  "documented class" % name,
                  "line %r is dispatched to %s by the code: %s, by the "
                  "documented grammar: %s" % ((d[0] if d else ""), name,
                                              d[1] if d else "",
                                              d[2] if d else ""),
                  loc=loc, witness={"line": d[0], "outcome": name,
                                    "live": d[1], "reference": d[2]}
                  if d else None)
    # section rebinding: opener/closer rebind the current section, directive
    # and key/value do not (C06.R3 relies on this as well)
    want = {"end_section": True, "start_section": True,
            "handle_directive": False, "handle_key_value": False}
    for h, w in want.items():
        got = rebinding.get(h)
        run.check(got == {w}, "C03.R3", fn.qualname,
                  "current section after " + h,
                  "%s %s the current section" % (h, "rebinds" if w
                                                 else "does not rebind"),
                  "%s: rebinding of the current section is %s, expected %s"
                  % (h, got, w), loc=loc)

    # ---------------------------------------------------------------- R4
    empty = S.lang_full("", ab)
    for node, k, pre in index_sites:
        bad = not (pre & empty).is_empty()
        run.check(not bad, "C03.R4", fn.qualname, src(node),
                  "every path reaching %s excludes the empty line"
                  % src(node),
                  "%s is evaluated on a path that admits the empty line "
                  "(IndexError)" % src(node), loc=m.loc(fn, node),
                  witness={"line": ""})
    nl = m.fn(PC + ".nextline")
    r = X.compare(P, nl, X.spec_method(P, REF, "nextline", PC))
    _verdict(run, "C03.R4", nl, "readline/strip/lineno", r, m)

    # ---------------------------------------------------------------- R5
    for live_name, ref_name, rule, what in (
            ("start_section", "start_section", "C03.R5", "header handling"),
            ("end_section", "end_section", "C03.R5", "closer handling"),
            ("_normalize_case", "normalize_case", "C03.R5", "lower-casing"),
            ("handle_directive", "handle_directive", "C03.R7",
             "directive dispatch"),
            ("handle_key_value", "handle_key_value", "C03.R8",
             "key/value hand-off"),
            ("error", "error", "C03.R9", "error construction")):
        lf = m.fn(PC + "." + live_name)
        r = X.compare(P, lf, X.spec_method(P, REF, ref_name, PC),
                      live_kw={"try_raises": False},
                      ref_kw={"try_raises": False},
                      outcome_norm=_with_raise_args if live_name == "error"
                      else None, independent=_char_observation)
        _verdict(run, rule, lf, what, r, m)
    # the directives' arguments: the whole rest of the line, stripped; for
    # %define split at the first run of whitespace into name and value
    for live_name, what in (("handle_define", "name and value of %define"),
                            ("handle_import", "argument of %import"),
                            ("handle_include", "argument of %include")):
        lf = m.fn(PC + "." + live_name)
        kw = {"extra_pure": ("isname",)}
        r = X.compare(P, lf, X.spec_method(P, REF, live_name, PC),
                      live_kw=kw, ref_kw=kw)
        _verdict(run, "C03.R7", lf, what, r, m)
    # parse(): the normal exit is guarded by the "stack empty" test
    tails = []
    for p in paths:
        st = [a for a in p.order if a[0] == "truthy"
              and A.fmt(a[1]) == "self.stack"]
        if p.outcome[0] in ("fall", "return"):
            tails.append(bool(st) and p.valuation[st[0]] is False)
        elif p.outcome[0] == "raise" and st and p.valuation[st[0]]:
            tails.append(True)
    run.check(tails and all(tails), "C03.R5", fn.qualname,
              "unclosed sections",
              "parse() returns normally only when the section stack is empty "
              "(%d paths)" % len(tails),
              "parse() can return with sections still open", loc=loc)

    # ---------------------------------------------------------------- R7
    cls = m.cls(PC)
    hd = m.fn(PC + ".handle_directive")
    names = None
    for n in ast.walk(hd.node):
        if isinstance(n, ast.Compare) and len(n.ops) == 1 and isinstance(
                n.ops[0], (ast.In, ast.NotIn)):
            try:
                v = m.fold(hd.module, n.comparators[0])
                if isinstance(v, (tuple, list, frozenset)) and all(
                        isinstance(x, str) for x in v):
                    names = set(v)
            except Unfoldable:
                pass
    if names is None:
        # equality chain: collect from the decision table
        names = set()
        for p in A.Interp(hd, P, try_raises=False).paths():
            for a in p.order:
                if a[0] == "eq" and A.is_const(a[2]) and "group" in A.fmt(a[1]):
                    names.add(a[2][1])
    want = {"define", "import", "include"}
    run.check(names == want, "C03.R7", hd.qualname, "directive names",
              "directive set folds to %s" % sorted(names),
              "directive set is %s, documented %s" % (sorted(names),
                                                      sorted(want)),
              loc=m.loc(hd, hd.node))
    for sub in [PC] + m.subclasses(PC):
        for d in sorted(want):
            meth = m.lookup_method(sub, "handle_" + d)
            run.check(meth is not None, "C03.R7", sub, "handle_" + d,
                      "handler resolves to %s" % (meth.qualname if meth
                                                  else None),
                      "directive %%%s has no handler in %s" % (d, sub),
                      nontrivial=False)
        extra = set()
        for k in m.mro(sub):
            c = m.classes.get(k)
            if c:
                extra |= {n[7:] for n in c.methods if n.startswith("handle_")
                          and n[7:] not in want
                          and n not in ("handle_directive",
                                        "handle_key_value")}
        run.check(not extra, "C03.R7", sub, "no other directive handlers",
                  "no handle_<x> method outside the documented set",
                  "handler methods for undocumented directives: %s"
                  % sorted(extra), nontrivial=False)


def _char_observation(atom):
    t = atom[1] if len(atom) > 1 else None
    if not isinstance(t, tuple):
        return False
    if atom[0] == "eq" and t[0] in ("slice", "index") and t[1][0] == "param":
        return True
    return False


def _with_raise_args(p, base):
    if p.outcome[0] == "raise":
        return base + (tuple(A.fmt(a) for a in p.outcome[2][1:]),)
    return base


def _verdict(run, rule, fn, construct, r, m):
    from rules.common import verdict
    verdict(run, rule, fn, construct, r, m)
