"""Helpers shared by the rule modules."""
from zcstatic import crosscheck as X


def verdict(run, rule, fn, construct, r, m):
    loc = m.loc(fn, fn.node)
    if r["verdict"] == "equivalent":
        run.ok(rule, fn.qualname, construct,
               "decision table equals the reference on all %d joint rows "
               "(%d live paths, %d reference paths)"
               % (r["rows"], r["live_paths"], r["ref_paths"]), loc=loc)
    elif r["verdict"] == "violation" and r.get("vanished"):
        run.soft_error("%s: anchor vanished: %s no longer has the attribute(s)/"
                       "method(s) %s that the reference of %s is written "
                       "against (renamed or removed); no verdict"
                       % (rule, fn.module.name, r["vanished"], fn.qualname))
    elif r["verdict"] == "violation" and _opaque(r["witness"].get("live")):
        # iteration or a condition happens inside a library combinator the
        # interpreter does not unfold (itertools, filter, reduce, a lambda):
        # the terms differ, the behaviour need not -- no verdict
        run.soft_error("%s: %s computes its outcome through a construct "
                       "outside the interpreter's vocabulary (%s); no verdict"
                       % (rule, fn.qualname, _opaque(r["witness"].get("live"))))
    elif r["verdict"] == "violation":
        run.fail(rule, fn.qualname, construct,
                 "outcome differs from the reference: live %s, reference %s"
                 % (r["witness"]["live"], r["witness"]["reference"]),
                 loc=loc, witness=r["witness"])
    else:
        run.soft_error("%s: %s consults a predicate outside the reference "
                       "vocabulary: %s" % (rule, fn.qualname, r["atoms"]))


def _opaque(shown):
    txt = str(shown)
    # library combinators over generators / callables: the iteration and
    # the conditions are inside them (a plain comprehension is a structured
    # term like any other and is compared)
    for marker in ("itertools.", "functools.reduce", "builtins.filter(",
                   "<lambda@"):
        if marker in txt:
            return marker
    # a generator *object* that is iterated later (`g = (.. for ..)`, then
    # `for x in g` / next(g)): its loop runs wherever it is consumed, which
    # the interpreter does not follow -- the element of an unexpanded
    # comprehension, `<comprehension>(...)[*]`
    i = txt.find("<comprehension>(")
    while i >= 0:
        j, depth = i + len("<comprehension>"), 0
        while j < len(txt):
            if txt[j] == "(":
                depth += 1
            elif txt[j] == ")":
                depth -= 1
                if depth == 0:
                    break
            j += 1
        if txt[j + 1:j + 4] == "[*]":
            return "element of a generator object"
        i = txt.find("<comprehension>(", i + 1)
    return None


def crosscheck(ctx, rule, live_q, ref_file, ref_name, cls=None, what="",
               **kw):
    m, P = ctx.model, ctx.program
    lf = m.fn(live_q)
    if cls is not None:
        rf = X.spec_method(P, ref_file, ref_name, cls)
    else:
        rf = X.spec_function(m, ref_file, ref_name)
    r = X.compare(P, lf, rf, **kw)
    verdict(ctx.run, rule, lf, what or ref_name, r, m)
    return r


def char_observation(atom):
    t = atom[1] if len(atom) > 1 else None
    if not isinstance(t, tuple):
        return False
    if atom[0] == "truthy" and t[0] == "call" and t[1][0] == "attr" \
            and t[1][2] in ("startswith", "endswith"):
        return True
    if atom[0] == "eq" and t[0] in ("slice", "index"):
        return True
    return False


def raw_param_uses(program, fi, idx, allow_call=lambda ftxt: False, **kw):
    """Uses of parameter #idx of fi in branch conditions and effects, other
    than as argument of a `<...>.keytype(...)` slot call, inside an exception
    constructor / repr() (messages), or in a call accepted by allow_call.
    Returns a list of texts."""
    from zcstatic import absint as A
    target = ("param", idx)
    bad = []

    def visit(t, out):
        if t == target:
            out.append(True)
            return
        if not isinstance(t, tuple):
            return
        if t and t[0] == "call":
            ftxt = A.fmt(t[1])
            if ftxt.endswith(".keytype") or ftxt == "builtins.repr" \
                    or ftxt.endswith("Error") or allow_call(ftxt):
                return
        for x in t:
            visit(x, out)

    for p in A.Interp(fi, program, **kw).paths():
        for a in p.order:
            hit = []
            visit(a, hit)
            if hit:
                txt = "condition " + A.fmt_atom(a)
                if txt not in bad:
                    bad.append(txt)
        for e in p.effects:
            if e[0] in ("call", "store", "item-store", "noreturn-call"):
                for x in e[1:-1]:
                    hit = []
                    visit(x, hit)
                    if hit:
                        txt = "%s %s" % (e[0], A.fmt(e[1])[:90])
                        if txt not in bad:
                            bad.append(txt)
    return bad


def crosscheck_many(ctx, rule, items, ref_file="ref_misc.py", **kw):
    """items: (live qualname, reference name, class qualname or None, what)."""
    for live, ref, cls, what in items:
        crosscheck(ctx, rule, live, ref_file, ref, cls, what, **kw)
