"""C02 -- an accepted configuration yields exactly the typed value tree.

Decides: one slot per declared attribute with a container of the kind every
consumer assumes (per-child decision tables of __init__, addValue, addSection,
finish, constuct agree with the reference); defaults are injected only when
the text supplied nothing; file order is preserved structurally; every value
that reaches the result went through the datatype of its own child; the
attribute-name derivation; section identity accessors.
Does not decide equality of converted values with reference conversions, nor
equality of whole trees.
"""
import ast

from zcstatic.report import AnalysisError

from rules.common import crosscheck
from zcstatic.model import src, walk_shallow

MT = "ZConfig.matcher"
INF = "ZConfig.info"
REF = "ref_matcher.py"
ORDER_CHANGING = {"insert", "sort", "reverse", "pop", "remove"}
ORDER_FUNCS = {"sorted", "reversed", "set", "frozenset"}


def run(ctx):
    run, m, P = ctx.run, ctx.model, ctx.program
    run.explanation = (
        "Decides, per declared child (one loop iteration), the decision "
        "tables of the five matcher methods that create, fill, default and "
        "convert a slot, cross-checked valuation by valuation against a "
        "parsed reference: container kind per (wildcard, section, multi), "
        "defaults only when nothing was supplied, conversion through the "
        "child's own datatype, handler pairing; plus the absence of "
        "order-changing operations on slot containers, the attribute-name "
        "derivation of the schema parser and the identity accessors of "
        "section values.  Does not decide equality of converted values or of "
        "whole trees.")
    run.rule("C02.R1", "slot container kind agrees between creation, fill, "
             "default injection and conversion (per-child tables)", floor=5)
    run.rule("C02.R2", "defaults are copies and are injected only into empty "
             "slots", floor=3)
    run.rule("C02.R3", "no order-changing operation on slot containers")
    run.rule("C02.R7", "schema defaults reach the key infos as written "
             "(presence of the attribute, text of <default>, order)", floor=4)
    run.rule("C02.R5", "attribute name: explicit attribute (identifier, no "
             "reserved prefix) or key name through basic-key, '-'->'_', "
             "identifier")
    run.rule("C02.R6", "section values report the name the matcher was "
             "created with, their type and their attributes", floor=5)

    BM = MT + ".BaseMatcher"
    crosscheck(ctx, "C02.R1", BM + ".__init__", REF, "basematcher_init", BM,
               "{} / [] / None by kind; one slot per child")
    from rules.common import raw_param_uses
    av = m.fn(BM + ".addValue")
    raw = raw_param_uses(P, av, 0)
    if raw:
        run.fail("C02.R1", av.qualname, "key as written",
                 "the wildcard map is consulted with the key as written, not "
                 "the normalised key: %s" % "; ".join(raw),
                 loc=m.loc(av, av.node), witness={"uses": raw})
    else:
        crosscheck(ctx, "C02.R1", BM + ".addValue", REF, "addValue", BM,
                   "store / append / map-store / map-append")
    crosscheck(ctx, "C02.R1", BM + ".addSection", REF, "addSection", BM,
               "append for multi, store for single")
    crosscheck(ctx, "C02.R1", BM + ".finish", REF, "finish", BM,
               "default injection by kind")
    crosscheck(ctx, "C02.R1", BM + ".constuct", REF, "construct", BM,
               "conversion by kind through ci.datatype / section datatype; "
               "handler pairing")
    crosscheck(ctx, "C02.R2", INF + ".KeyInfo.getdefault", REF,
               "keyinfo_getdefault", INF + ".KeyInfo", "copy of the default")
    crosscheck(ctx, "C02.R2", INF + ".MultiKeyInfo.getdefault", REF,
               "keyinfo_getdefault", INF + ".MultiKeyInfo",
               "copy of the defaults")
    crosscheck(ctx, "C02.R2", INF + ".ValueInfo.convert", REF,
               "valueinfo_convert", INF + ".ValueInfo",
               "convert with the given datatype, wrap ValueError")

    for q, ref in ((INF + ".BaseKeyInfo.prepare_raw_defaults",
                    "prepare_raw_defaults"),
                   (INF + ".KeyInfo.computedefault", "key_computedefault"),
                   (INF + ".MultiKeyInfo.computedefault",
                    "multikey_computedefault")):
        crosscheck(ctx, "C02.R2", q, "ref_info.py", ref,
                   q.rsplit(".", 1)[0],
                   "wildcard defaults are keyed by the key type applied to "
                   "the key as written in the schema")

    # R3: order-changing operations in matcher.py
    n_scanned = 0
    bad = []
    for fi in m.functions.values():
        if fi.module.name != MT:
            continue
        for n in walk_shallow(fi.node):
            if isinstance(n, ast.Call):
                n_scanned += 1
                if isinstance(n.func, ast.Attribute) \
                        and n.func.attr in ORDER_CHANGING:
                    bad.append((fi, n))
                elif isinstance(n.func, ast.Name) \
                        and n.func.id in ORDER_FUNCS \
                        and fi.name not in ("__str__", "__repr__"):
                    bad.append((fi, n))
    for fi, n in bad:
        run.fail("C02.R3", fi.qualname, src(n),
                 "an order-changing operation is applied in the matcher: "
                 "values would no longer be in file order", loc=m.loc(fi, n))
    # positive control: the matcher must recognise an order-changing call
    ctrl = ast.parse("def f(v):\n    v.insert(0, 1)\n").body[0]
    ctrl_hit = any(isinstance(n, ast.Call) and isinstance(n.func,
                                                          ast.Attribute)
                   and n.func.attr in ORDER_CHANGING for n in ast.walk(ctrl))
    run.check(not bad and ctrl_hit, "C02.R3", MT,
              "insert/sort/reverse/pop/remove/sorted/reversed/set",
              "none among %d calls of the matcher module (positive control "
              "matched)" % n_scanned, "order-changing operations present",
              nontrivial=False)

    # R7: the schema's defaults reach the key infos as written -- an empty
    # default="" is a default (presence, not truthiness), the text of a
    # <default> element is kept, and a multikey collects them in order
    BPq = "ZConfig.schema.BaseParser"
    for name, what in (("start_key", "default attribute -> adddefault "
                        "(presence test)"),
                       ("end_key", "finish the key, computed defaults"),
                       ("start_multikey", "no default attribute on a "
                        "multikey"),
                       ("end_multikey", "finish the multikey"),
                       ("characters_default", "<default> text -> adddefault "
                        "with its key"),
                       ("characters", "text collected for cdata elements"),
                       ("endElement", "collected text (also the empty one of "
                        "<default/>) handed to characters_<name>")):
        crosscheck(ctx, "C02.R7", BPq + "." + name, "ref_schema.py", name,
                   BPq, what)
    for q, ref, what in (
            (INF + ".KeyInfo.add_valueinfo", "key_add_valueinfo",
             "single default stored; keyed defaults by key"),
            (INF + ".MultiKeyInfo.add_valueinfo", "multikey_add_valueinfo",
             "defaults appended in order")):
        try:
            crosscheck(ctx, "C02.R7", q, "ref_info.py", ref,
                       q.rsplit(".", 1)[0], what)
        except AnalysisError:
            pass

    # R5
    crosscheck(ctx, "C02.R5", "ZConfig.schema.BaseParser.get_name_info",
               "ref_schema.py", "get_name_info", "ZConfig.schema.BaseParser",
               "attribute-name derivation")

    # R6
    crosscheck(ctx, "C02.R6", BM + ".createValue", REF, "base_createValue",
               BM, "unnamed value")
    crosscheck(ctx, "C02.R6", MT + ".SectionMatcher.createValue", REF,
               "section_createValue", MT + ".SectionMatcher",
               "value carries the matcher's name")
    SV = MT + ".SectionValue"
    crosscheck(ctx, "C02.R6", SV + ".__init__", REF, "sectionvalue_init", SV,
               "attributes from the slot table")
    for g in ("getSectionName", "getSectionType", "getSectionDefinition",
              "getSectionAttributes"):
        crosscheck(ctx, "C02.R6", SV + "." + g, REF, g, SV, g)
    # ... and the name the matcher is created with is the lower-cased one
    PCq = "ZConfig.cfgparser.ZConfigParser"
    lf = m.lookup_method(PCq, "_normalize_case")
    if lf is None:
        run.soft_error("anchor vanished: %s._normalize_case" % PCq)
    else:
        crosscheck(ctx, "C02.R6", lf.qualname, "ref_cfgparser.py",
                   "normalize_case", PCq, "section type and name are "
                   "lower-cased (str.lower, not a wider folding)")
    crosscheck(ctx, "C02.R6", PCq + ".start_section", "ref_cfgparser.py",
               "start_section", PCq, "the normalised name reaches the matcher "
               "in both spellings of a section")
    from rules.common import crosscheck_many
    crosscheck_many(ctx, "C02.R6", [
        (SV + ".getSectionMatcher", "getSectionMatcher", SV,
         "the matcher that built the value"),
        (INF + ".ValueInfo.__init__", "valueinfo_init", INF + ".ValueInfo",
         "value and position kept as given"),
    ])
    crosscheck(ctx, "C02.R6", MT + ".SchemaMatcher.finish", REF,
               "schemamatcher_finish", MT + ".SchemaMatcher",
               "schema datatype applied last, handler appended after")
