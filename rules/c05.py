"""C05 -- %define names form one case-insensitive, define-before-use,
write-once namespace.

Decides: one mapping object per load handed down by reference (no copy on any
hop); created fresh inside the parser constructor (not a mutable default, class
attribute or global); no reference stored into anything that outlives the
load; both sides normalise names with lower(); a value is expanded once,
before it is stored, against the same mapping; the redefinition guard compares
the expanded value with the stored one; illegal names and conflicting
redefinitions are rejected before the store.
Does not decide outcomes of particular define/use/include histories.
"""
import ast

from zcstatic import crosscheck as X
from zcstatic import flow as FL
from zcstatic.model import src, walk_shallow
from zcstatic.report import AnalysisError

PC = "ZConfig.cfgparser.ZConfigParser"
CL = "ZConfig.loader.ConfigLoader"


def defines_origins(ctx, run, rule):
    """Origins of `self.defines` as seen by handle_define."""
    m, P, F = ctx.model, ctx.program, ctx.flow
    hd = m.fn(PC + ".handle_define")
    uses = [n for n in walk_shallow(hd.node) if isinstance(n, ast.Attribute)
            and n.attr == "defines" and isinstance(n.value, ast.Name)
            and n.value.id == hd.params[0]]
    if not uses:
        raise AnalysisError("anchor vanished: handle_define no longer uses "
                            "self.defines")
    init = m.fn(PC + ".__init__")
    leaves = F.origins(hd, uses[0], depth=10)
    ok_all = True
    n = 0
    for o in leaves:
        n += 1
        where = o.fi.qualname if o.fi else "?"
        if o.kind == "const" and o.node.value is None:
            continue
        if o.kind == "display" and isinstance(o.node, ast.Dict) \
                and not o.node.keys and o.fi is not None \
                and m.owner(o.fi).qualname == init.qualname:
            in_default = any(o.node is d or any(o.node is x for x in
                                                ast.walk(d))
                             for d in init.node.args.defaults
                             + init.node.args.kw_defaults if d is not None)
            if not in_default:
                run.ok(rule, where, "{} created in the constructor",
                       "the mapping originates from a dict display evaluated "
                       "inside the parser constructor; hops: %s"
                       % " <- ".join(o.path[-5:]),
                       loc=m.loc(o.fi, o.node))
                continue
            run.fail(rule, where, "mutable default argument",
                     "the definitions mapping is a mutable default argument: "
                     "definitions carry over from one load to the next",
                     loc=m.loc(o.fi, o.node))
            ok_all = False
            continue
        if o.kind == "attr" and src(o.node).endswith(".defines"):
            continue
        ok_all = False
        if o.kind == "call" and FL.is_copying(P, o.fi, o.node):
            run.fail(rule, where, src(o.node),
                     "the definitions mapping is copied on the way to a "
                     "nested parser (%s): definitions made in an included "
                     "resource are lost / do not flow back" % src(o.node),
                     loc=m.loc(o.fi, o.node),
                     witness={"hops": o.path})
        elif o.kind in ("class-attr", "other", "display", "call", "param",
                        "subscript"):
            run.fail(rule, where, src(o.node),
                     "the definitions mapping can originate from %s %s, "
                     "which is not a fresh per-load dict handed down by "
                     "reference" % (o.kind, src(o.node)),
                     loc=m.loc(o.fi, o.node) if o.fi else None,
                     witness={"hops": o.path})
    return ok_all, n


def run(ctx):
    run, m, P = ctx.run, ctx.model, ctx.program
    run.explanation = (
        "Decides the structural facts the %define namespace rests on: value "
        "origins of the parser's definitions mapping across every hop of the "
        "%include chain (shared by reference, created fresh per top-level "
        "parse), and the decision table of handle_define/replace (normalise, "
        "expand once against the same mapping, compare expanded values, "
        "reject before storing) cross-checked against a parsed reference.  "
        "Does not decide outcomes of particular define/use/include "
        "histories.")
    run.rule("C05.R1", "the definitions mapping is one object per load: every "
             "origin of self.defines is the constructor's fresh {} or the "
             "including parser's own mapping, never a copy", floor=1)
    run.rule("C05.R2", "no reference to the mapping is stored outside the "
             "parser")
    run.rule("C05.R3", "handle_define == reference: name lower-cased, value "
             "expanded once before the guard and the store, guard compares "
             "expanded values, illegal names rejected", floor=1)
    run.rule("C05.R4", "replace() expands against self.defines; reader and "
             "writer normalise names identically (lower())", floor=2)

    ok, n = defines_origins(ctx, run, "C05.R1")
    # the hop itself: whatever route an %include takes (file, URL, package:),
    # the nested parser is given the including parser's mapping
    from rules.common import crosscheck as _cc
    _cc(ctx, "C05.R1", "ZConfig.loader.ConfigLoader.includeConfiguration",
        "ref_loader.py", "includeConfiguration",
        "ZConfig.loader.ConfigLoader",
        "every included resource is parsed with the includer's mapping")
    _cc(ctx, "C05.R1", "ZConfig.loader.ConfigLoader._parse_resource",
        "ref_loader.py", "parse_resource", "ZConfig.loader.ConfigLoader",
        "the nested parser receives the mapping it was given")
    run.analysed["defines_origin_leaves"] = n

    # R2: stores of the mapping into other objects
    bad = []
    for fi in m.functions.values():
        if fi.module.name not in ("ZConfig.cfgparser", "ZConfig.loader",
                                  "ZConfig.cmdline", "ZConfig.matcher"):
            continue
        for n_ in walk_shallow(fi.node):
            if isinstance(n_, ast.Assign):
                v = n_.value
                is_def = (isinstance(v, ast.Name) and v.id == "defines") or (
                    isinstance(v, ast.Attribute) and v.attr == "defines")
                if not is_def:
                    continue
                for t in n_.targets:
                    if isinstance(t, ast.Attribute) and not (
                            m.owner(fi).qualname == PC + ".__init__"
                            and t.attr == "defines"):
                        bad.append((fi, n_))
                    elif isinstance(t, ast.Subscript):
                        bad.append((fi, n_))
    for fi, n_ in bad:
        run.fail("C05.R2", fi.qualname, src(n_),
                 "a reference to the definitions mapping is stored into an "
                 "object that may outlive the load", loc=m.loc(fi, n_))
    if not bad:
        run.ok("C05.R2", PC, "stores of the mapping",
               "the only store of the mapping is self.defines in the parser "
               "constructor")

    # R5: the redefinition guard compares like with like -- on every path
    # that stores, the value compared with the stored definition is the very
    # term that is stored (the expanded value)
    from zcstatic import absint as A
    hd = m.fn(PC + ".handle_define")
    n_paths = 0
    mismatch = None
    for p in A.Interp(hd, P, try_raises=False).paths():
        stores = [e for e in p.effects if e[0] == "item-store"
                  and A.fmt(e[1]) == "self.defines"]
        if not stores:
            continue
        stored = stores[-1][3]
        key = stores[-1][2]
        for a in p.order:
            if a[0] == "ord" and any(
                    x[0] == "index" and A.fmt(x[1]) == "self.defines"
                    for x in a[1:3]):
                n_paths += 1
                other = [x for x in a[1:3]
                         if not (x[0] == "index"
                                 and A.fmt(x[1]) == "self.defines")]
                looked = [x for x in a[1:3] if x not in other]
                if not other or other[0] != stored:
                    mismatch = (A.fmt(other[0]) if other else "?",
                                A.fmt(stored))
                if looked and looked[0][2] != key:
                    mismatch = ("key " + A.fmt(looked[0][2]),
                                "key " + A.fmt(key))
    run.rule("C05.R5", "the redefinition guard compares the stored value with "
             "the value about to be stored (expanded), under the same key")
    run.check(mismatch is None and n_paths >= 1, "C05.R5", hd.qualname,
              "redefinition guard operand",
              "on the %d storing paths that consult the guard, the compared "
              "term is the stored term" % n_paths,
              "the redefinition guard compares the current definition with %s "
              "but stores %s: re-defining a name with an equal value is "
              "refused whenever the value contains a substitution or '$$'"
              % (mismatch or ("?", "?")), loc=m.loc(hd, hd.node),
              witness={"compared": mismatch[0], "stored": mismatch[1]}
              if mismatch else None)

    # R6: the namespace is case-insensitive: whatever handle_define asks of
    # the mapping (membership, lookup, store) and whatever it tests about the
    # name, it asks with the case-normalised name -- the name as written may
    # only be the argument of the normaliser (or text of an error message)
    rawname_uses = []

    def visit(t, out, inside_norm=False):
        if not isinstance(t, tuple) or not t:
            return
        if t[0] == "call":
            f = A.fmt(t[1])
            if f.endswith("._normalize_case") or f.endswith(".lower") \
                    or f == "builtins.repr" or f.endswith("Error") \
                    or f.endswith(".error") or f.endswith("isname"):
                # (the name language is closed under case, C04.R1: asking
                # isname() of either spelling gives the same answer)
                return
        if t[0] == "index" and t[2] == A.const(0) and t[1][0] == "call" \
                and t[1][1][0] == "attr" and t[1][1][2] == "split" \
                and t[1][1][1] == ("param", 1):
            out.append(True)
            return
        for x in t:
            visit(x, out)
    for p in A.Interp(hd, P, extra_pure=("isname",)).paths():
        for a in p.order:
            hit = []
            visit(a, hit)
            if hit and a[0] in ("contains", "ord", "eq", "truthy"):
                txt = "condition " + A.fmt_atom(a)
                if txt not in rawname_uses:
                    rawname_uses.append(txt)
        for e in p.effects:
            if e[0] == "item-store":
                hit = []
                visit(e[2], hit)
                if hit:
                    txt = "store under key " + A.fmt(e[2])
                    if txt not in rawname_uses:
                        rawname_uses.append(txt)
    run.rule("C05.R6", "handle_define consults and updates the mapping, and "
             "tests the name, only with the case-normalised name")
    run.check(not rawname_uses, "C05.R6", hd.qualname, "name as written",
              "every condition and store mentions the name only through the "
              "normaliser", "the name as written (before case normalisation) "
              "is used: %s -- two spellings of one name are not recognised "
              "as the same definition" % "; ".join(rawname_uses[:3]),
              loc=m.loc(hd, hd.node), witness={"uses": rawname_uses})

    # R3/R4: decision tables
    ref = "ref_cfgparser.py"
    for live, refname, rule, what in (
            ("handle_define", "handle_define", "C05.R3",
             "define: normalise, expand, guard, store"),
            ("replace", "replace", "C05.R4", "expansion against self.defines"),
            ("_normalize_case", "normalize_case", "C05.R4",
             "writer-side normaliser is lower()"),
            ("__init__", "init", "C05.R1",
             "constructor: fresh {} only when none is handed in")):
        lf = m.fn(PC + "." + live)
        kw = {"extra_pure": ("isname",)}   # isname() is a pure predicate
        r = X.compare(P, lf, X.spec_method(P, ref, refname, PC),
                      live_kw=kw, ref_kw=kw)
        _verdict(run, rule, lf, what, r, m)
    # reader side: a name is looked up among the definitions read so far and
    # nowhere else (the environment only for the ${...} / $(...) 'env' form),
    # an undefined one is an error (the decision table of C04.R4)
    from rules import c04
    sb = m.fn("ZConfig.substitution.substitute")
    r = X.compare(P, sb, X.spec_function(m, "ref_substitution.py",
                                         "substitute"),
                  outcome_norm=c04._with_raise_args)
    _verdict(run, "C05.R4", sb, "lookup among the definitions read so far",
             r, m)
    # substitute() looks names up lower-cased (C04.R4) -- the
    # agreement obligation: _split returns name.lower() as its second result
    sp = m.fn("ZConfig.substitution._split")
    r = X.compare(P, sp, X.spec_function(m, "ref_substitution.py", "split"))
    _verdict(run, "C05.R4", sp, "reader-side normaliser is lower()", r, m)


def _verdict(run, rule, fn, construct, r, m):
    from rules.common import verdict
    verdict(run, rule, fn, construct, r, m)
