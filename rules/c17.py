"""C17 -- schema-less configurations survive serialisation and re-reading.

Decides, as a printer/parser inverse per line: the line templates that
Section.__str__ emits are recovered from its decision table; with the holes
ranging over exactly the strings the parser can have stored, every printed
line is classified by the documented line grammar as the same kind and the
parser's capture function returns the hole values (R2); every hole whose
reader-side field passes through $-substitution is printed through the inverse
escape (R1); values of one key and sections are printed and collected in
stored order (R3); %define and %include are refused on every path (R4).
Does not decide blank-line/indentation cosmetics beyond "skipped/stripped on
re-reading", nor dictionary equality of the reloaded object.
"""
import ast
import re

from zcstatic import absint as A
from zcstatic import crosscheck as X
from zcstatic import strlang as S
from zcstatic.model import src, walk_shallow
from zcstatic.report import AnalysisError

SL = "ZConfig.schemaless"
C = r"[^\s()]"
# languages of what the parser can have stored (reference, from A1)
HOLES = {
    # section type: non-empty, no leading "/" (that line would be a closer)
    "type": {None: r"[^\s()/]%s*" % C,
             True: r"[^\s()/]%s*/" % C,
             False: r"[^\s()/](?:%s*[^\s()/])?" % C},
    "name": {None: r"%s+" % C, True: r"%s*/" % C,
             False: r"%s*[^\s()/]" % C},
    # a key is the leading run of a line that is not comment/section/directive
    "key": {None: r"[^\s()#<%%]%s*" % C},
    "value": {None: r"(?:\S(?:.*\S)?)?"},
    "pkg": {None: r"\S(?:.*\S)?"},
    "pre": {None: r"(?:  )*"},
}


PARTIAL_ESCAPES = []     # (qualified name of a compiled pattern, hole)


def dollar_escape_gap(pattern):
    """For an escape `re.sub(pattern, '$$', s)`: a character c such that the
    '$' in '$c' is NOT doubled ('' = a trailing '$'), or None when every '$'
    is.  Decided on the pattern's syntax tree: the pattern must be a literal
    '$' optionally followed by one lookahead."""
    import re._parser as sre
    import re._constants as K
    try:
        p = sre.parse(pattern)
    except Exception:
        raise AnalysisError("cannot parse escape pattern %r" % pattern)
    items = list(p)
    if not items or items[0] != (K.LITERAL, ord("$")):
        raise AnalysisError("escape pattern %r does not start with a literal "
                            "'$'" % pattern)
    if len(items) == 1:
        return None
    if len(items) != 2 or items[1][0] is not K.ASSERT or items[1][1][0] != 1:
        raise AnalysisError("escape pattern %r is outside the analysable "
                            "forms ('\\$' or '\\$(?=...)')" % pattern)
    # the lookahead: which next characters (or the end) let the '$' through
    look = items[1][1][1]
    # strings of length <= 1 that the lookahead accepts as a prefix
    allowed_end = False
    allowed = set()
    alts = look
    # flatten: BRANCH of alternatives or a single sequence
    seqs = []
    if len(alts) == 1 and alts[0][0] is K.BRANCH:
        seqs = [list(x) for x in alts[0][1][1]]
    else:
        seqs = [list(alts)]
    for sq in seqs:
        if not sq:
            return None         # empty alternative: always matches
        op, av = sq[0]
        if op is K.AT and av in (K.AT_END, K.AT_END_STRING):
            allowed_end = True
        elif op is K.LITERAL:
            allowed.add(av)
        elif op is K.IN:
            neg = False
            for o2, a2 in av:
                if o2 is K.NEGATE:
                    neg = True
                elif o2 is K.LITERAL:
                    allowed.add(a2)
                elif o2 is K.RANGE:
                    allowed.update(range(a2[0], min(a2[1], 0x2ff) + 1))
                else:
                    raise AnalysisError("escape pattern %r: character class "
                                        "outside the analysable forms"
                                        % pattern)
            if neg:
                raise AnalysisError("escape pattern %r: negated class"
                                    % pattern)
        elif op is K.ANY:
            allowed.update(c for c in range(0x300) if c != 10)
        else:
            raise AnalysisError("escape pattern %r: lookahead outside the "
                                "analysable forms" % pattern)
    for c in list(range(32, 127)) + [0xe9]:
        if c not in allowed:
            return chr(c)
    if not allowed_end:
        return ""
    return None


def classify_hole(t):
    """Which stored field a term of Section.__str__ stands for."""
    s = A.fmt(t)
    if s == "self.type":
        return "type", False
    if s == "self.name":
        return "name", False
    if t[0] == "param":
        return "pre", False
    if t[0] == "slice" and "P0" in s:
        return "pre", False
    if t[0] == "call" and t[1][0] == "attr" and t[1][2] == "replace" \
            and t[2] == (A.const("$"), A.const("$$")):
        inner, _ = classify_hole(t[1][1])
        return inner, True
    if t[0] == "call" and t[1][0] == "global" and t[1][1].endswith(".sub") \
            and len(t[2]) == 2 and t[2][0] == A.const("$$"):
        # <compiled pattern>.sub('$$', field): an escape that doubles the
        # '$' the pattern matches; whether that is every '$' is decided by
        # R1 from the pattern itself
        inner, _ = classify_hole(t[2][1])
        if inner is not None:
            PARTIAL_ESCAPES.append((t[1][1][:-4], inner))
            return inner, True
    if "self.imports" in s and t[0] in ("index", "elem"):
        return "pkg", False
    if "items()" in s and t[0] in ("index", "elem"):
        # element 0 of an item is the key; an element of element 1 a value
        if t[0] == "index" and t[2] == A.const(0):
            return "key", False
        return "value", False
    return None, False


def template_of(t, escaped, refine=None):
    """Regex (with named groups for the holes) of a printed-line term.
    Returns (regex, holes in order)."""
    parts = []
    holes = []

    def walk(t, esc_all=False):
        if t[0] == "call" and t[1][0] == "attr" and t[1][2] == "replace" \
                and t[2] == (A.const("$"), A.const("$$")) \
                and classify_hole(t[1][1])[0] is None:
            # the escape is applied to a composite: every hole inside it is
            # printed escaped
            walk(t[1][1], True)
            return
        if t[0] == "const" and isinstance(t[1], str):
            parts.append(("lit", t[1]))
        elif t[0] == "fstr":
            for p in t[1]:
                if isinstance(p, str):
                    parts.append(("lit", p))
                else:
                    walk(p, esc_all)
        elif t[0] == "binop" and t[1] == "Add" and classify_hole(t)[0] is None:
            walk(t[2], esc_all)
            walk(t[3], esc_all)
        else:
            h, esc = classify_hole(t)
            if h is None:
                raise AnalysisError("Section.__str__ prints a term outside "
                                    "the template vocabulary: %s" % A.fmt(t))
            if esc or esc_all:
                escaped.add(h)
            parts.append(("hole", h))
            holes.append(h)
    walk(t)
    # indentation: a literal run of space pairs right after the prefix hole
    # is part of the prefix (pre + '  ' is again an indentation)
    if len(parts) > 1 and parts[0] == ("hole", "pre") \
            and parts[1][0] == "lit":
        lit = parts[1][1]
        k = len(lit) - len(lit.lstrip(" "))
        k -= k % 2
        if k:
            if lit[k:]:
                parts[1] = ("lit", lit[k:])
            else:
                del parts[1]
    return parts, holes


def parts_regex(parts, refine_last=None, groups=True):
    out = []
    hole_idx = [i for i, p in enumerate(parts) if p[0] == "hole"
                and p[1] != "pre"]
    for i, (k, v) in enumerate(parts):
        if k == "lit":
            out.append(re.escape(v))
        else:
            variant = None
            if refine_last is not None and hole_idx and i == hole_idx[-1]:
                variant = refine_last
            lang = HOLES[v].get(variant)
            if lang is None:
                raise AnalysisError("no refined language for hole %s" % v)
            if groups and v != "pre":
                out.append("(?P<%s>%s)" % (v, lang))
            else:
                out.append("(?:%s)" % lang)
    return "".join(out)


def run(ctx):
    run, m, P = ctx.run, ctx.model, ctx.program
    run.explanation = (
        "Decides the printer/parser inverse of the schema-less module line by "
        "line: the templates Section.__str__ emits are recovered from its "
        "decision table (terms with holes), holes range over the regular "
        "languages of what the parser can store, and for every template the "
        "documented line classification and the parser's capture function "
        "(tagged automata) map the printed line back to the hole values; "
        "plus escape symmetry for '$', order keeping, and refusal of "
        "%define/%include.  Does not decide blank-line cosmetics or "
        "dictionary equality of the reloaded object (it follows from the "
        "per-line inverse and order keeping; the composition is not "
        "machine-checked).")
    run.assumptions = ["hole languages in rules/c17.py are my derivation of "
                       "what the line grammar (appendix A1) lets the parser "
                       "store", "lines contain no newline"]
    run.rule("C17.R1", "fields that the reader passes through substitution "
             "are printed through .replace('$', '$$')", floor=2)
    run.rule("C17.R2", "every printed line template is classified and "
             "captured back to its hole values by the line grammar", floor=4)
    run.rule("C17.R3", "values of a key and sections are printed in stored "
             "order and collected in arrival order", floor=4)
    run.rule("C17.R4", "%define and %include are refused on every path",
             floor=2)

    fn = m.fn(SL + ".Section.__str__")
    paths = A.Interp(fn, P).paths()
    lines = {}    # template text -> (parts, constraint)
    escaped = set()
    for p in paths:
        slash = None
        for a in p.order:
            # `x.endswith('/')` and `x[-1:] == '/'` are the same observation
            if a[0] == "eq" and a[2] == A.const("/") and a[1][0] == "slice" \
                    and a[1][2] == A.const(-1) and a[1][3] is None:
                slash = (a[1][1], p.valuation[a])
        for e in p.effects:
            if e[0] != "call":
                continue
            t = e[1]
            if not (t[1][0] == "attr" and t[1][2] == "append"
                    and A.fmt(t[1][1]).startswith("[")) \
                    and not (t[1][0] == "attr" and t[1][2] == "append"):
                continue
            arg = t[2][0]
            if arg == A.const(""):
                continue
            if arg[0] == "call" and "__str__" in A.fmt(arg):
                continue   # recursive rendering of a subsection
            parts, holes = template_of(arg, escaped)
            refine = None
            if slash is not None and _contains(arg, slash[0]):
                refine = slash[1]
            key = (parts_regex(parts, refine, groups=False))
            lines[key] = (parts, refine, A.fmt(arg))
    run.analysed["templates"] = sorted(v[2] for v in lines.values())
    if len(lines) < 4:
        raise AnalysisError("only %d printed-line templates recovered from "
                            "Section.__str__" % len(lines))

    # ------------------------------------------------------------------ R1
    # reader side: the handlers apply replace() (below); the dispatchers in
    # front of them must not (a field expanded twice is un-escaped twice,
    # which one escape on output does not undo)
    PCq = "ZConfig.cfgparser.ZConfigParser"
    for live, ref in (("handle_directive", "handle_directive"),):
        lf = m.lookup_method(SL + ".Parser", live)
        if lf is None:
            raise AnalysisError("anchor vanished: %s.Parser.%s" % (SL, live))
        r = X.compare(P, lf, X.spec_method(P, "ref_cfgparser.py", ref, PCq))
        from rules.common import verdict
        verdict(run, "C17.R1", lf, "directive arguments reach their "
                "handlers as written", r, m)
    # reader side: which stored fields went through self.replace()?
    reader = {"value": _passes_replace(ctx, "handle_key_value"),
              "pkg": _passes_replace(ctx, "handle_import"),
              # keys, section types and names are stored as written
              "key": False, "type": False, "name": False}
    for patq, hole in sorted(set(PARTIAL_ESCAPES)):
        modname, _, nm = patq.rpartition(".")
        from rules.c03 import compiled_pattern_in
        pat = compiled_pattern_in(ctx, modname, nm)
        gap = dollar_escape_gap(pat)
        run.check(gap is None, "C17.R1", fn.qualname,
                  "escape of %s by %s" % (hole, nm),
                  "the pattern %r matches every '$'" % pat,
                  "the printer doubles only the '$' that %r matches: the "
                  "value %r is printed with a lone '$', which the reader "
                  "rejects or expands" % (pat, "$" + gap if gap is not None
                                          else ""),
                  loc=m.loc(fn, fn.node),
                  witness={"value": "$" + (gap or "")})
    del PARTIAL_ESCAPES[:]
    for hole, through in sorted(reader.items()):
        run.check((hole in escaped) == through, "C17.R1",
                  fn.qualname, "escape of " + hole,
                  "reader expands '$$' in this field: %s; printer escapes "
                  "'$' as '$$': %s" % (through, hole in escaped),
                  "the reader passes %s through $-substitution: %s, but the "
                  "printer %s '$' in it: the printed text does not reload to "
                  "the same %s" % (hole, through, "escapes" if hole in escaped
                                   else "does not escape", hole),
                  loc=m.loc(fn, fn.node))

    # ------------------------------------------------------------------ R2
    from rules import c03
    kv = c03.compiled_pattern(ctx, "_keyvalue_rx")
    ss = c03.compiled_pattern(ctx, "_section_start_rx")
    for key, (parts, refine, text) in sorted(lines.items()):
        kind = _kind(parts)
        full = parts_regex(parts, refine, groups=False)
        # strip the indentation (the reader strips the line)
        body_parts = [p for p in parts if p != ("hole", "pre")]
        stripped = parts_regex(body_parts, refine, groups=False)
        cs = (S.charsets_of_pattern(stripped) + S.charsets_of_pattern(kv)
              + S.charsets_of_pattern(ss)
              + [S.cs_of(c) for c in "#<>/%$ "])
        ab = S.Alphabet(cs)
        line_lang = S.lang_full(stripped, ab)
        classes = _line_classes(ab)
        want = {"header": "opener", "closer": "closer", "kv": "kv",
                "import": "directive"}[kind]
        bad = (line_lang - classes[want]).witness()
        run.check(bad is None, "C17.R2", fn.qualname,
                  "%s template %s classified as %s" % (kind, text, want),
                  "every instance of the printed line is read back as a %s "
                  "line" % want,
                  "the printed line %r is not read back as a %s line"
                  % (bad, want), loc=m.loc(fn, fn.node),
                  witness={"line": bad, "template": text})
        if kind == "header":
            # the header text between < and >: not the empty form, and the
            # section pattern returns the holes
            inner = [p for p in body_parts]
            assert inner[0] == ("lit", "<") or inner[0][1].startswith("<")
            txt = parts_regex(_strip_lit(inner, "<", ">"), refine, True)
            plain = parts_regex(_strip_lit(inner, "<", ">"), refine, False)
            hl = S.lang_full(plain, ab)
            emptyform = (hl & S.lang_full(".*/", ab)).witness()
            run.check(emptyform is None, "C17.R2", fn.qualname,
                      "header %s is not the empty form" % text,
                      "no instance of the header text ends in '/'",
                      "the header text %r ends in '/': it is read back as "
                      "the opens-and-closes form" % emptyform,
                      loc=m.loc(fn, fn.node), witness={"header": emptyform})
            # right-stripped header text vs the section pattern
            rs = txt.rstrip()
            rs = re.sub(r"(\\ )+$", "", txt)
            live = S.lang_tagged(ss, ab, first=True)
            tmpl = S.lang_tagged(rs + "$", ab, first=False)
            dom = S.lang_full(re.sub(r"(\\ )+$", "", plain), ab)
            d = S.tagged_diff(live, tmpl, dom)
            run.check(d is None, "C17.R2", fn.qualname,
                      "header %s captured back" % text,
                      "the section pattern returns exactly the printed type "
                      "and name for every instance",
                      "for the header %r the parser captures other fields "
                      "than were printed" % (d[0] if d else ""),
                      loc=m.loc(fn, fn.node),
                      witness={"tagged": d[0]} if d else None)
        elif kind == "kv":
            txt = parts_regex(body_parts, refine, True)
            plain = parts_regex(body_parts, refine, False)
            # after strip(): a trailing separator of an empty value is gone
            live = S.lang_tagged(kv, ab, first=True)
            tmpl = S.lang_tagged(
                r"(?P<key>%s)(?: (?P<value>\S(?:.*\S)?))?$"
                % HOLES["key"][None], ab, first=False)
            dom = S.lang_full(r"(?:%s)(?: \S(?:.*\S)?)?"
                              % HOLES["key"][None], ab)
            d = S.tagged_diff(live, tmpl, dom)
            sep = [p for p in body_parts if p[0] == "lit"]
            run.check(d is None and sep == [("lit", " ")], "C17.R2",
                      fn.qualname, "key/value %s captured back" % text,
                      "key and value are separated by one space and the "
                      "key/value pattern returns exactly the printed key and "
                      "value", "for the line %r the parser captures other "
                      "fields than were printed" % (d[0] if d else sep),
                      loc=m.loc(fn, fn.node))
        elif kind == "closer":
            lits = [p[1] for p in body_parts if p[0] == "lit"]
            holes = [p[1] for p in body_parts if p[0] == "hole"]
            run.check(lits == ["</", ">"] and holes == ["type"], "C17.R2",
                      fn.qualname, "closer %s names the type" % text,
                      "'</' + type + '>' : the closer's text equals the "
                      "opener's type", "closer template is %s" % text,
                      loc=m.loc(fn, fn.node), nontrivial=False)
        elif kind == "import":
            lits = [p[1] for p in body_parts if p[0] == "lit"]
            run.check(lits == ["%import "], "C17.R2", fn.qualname,
                      "import %s" % text,
                      "'%import ' + package: the directive pattern returns "
                      "name 'import' and the package as argument",
                      "import template is %s" % text, loc=m.loc(fn, fn.node),
                      nontrivial=False)

    # the reader side of the header round trip: the empty form is recognised
    # on the text as written between '<' and '>' (before any stripping), so
    # the printer's "<a b/ >" opens a section named "b/"
    from rules.common import crosscheck
    PCq = "ZConfig.cfgparser.ZConfigParser"
    crosscheck(ctx, "C17.R2", PCq + ".start_section", "ref_cfgparser.py",
               "start_section", PCq, "reader: empty-form test, then strip, "
               "then the section pattern")
    crosscheck(ctx, "C17.R2", PCq + ".end_section", "ref_cfgparser.py",
               "end_section", PCq, "reader: closer names the open type")
    # the printer ends with rstrip() and indents with blanks: what it drops
    # or adds is exactly what the reader's strip() of each line ignores
    crosscheck(ctx, "C17.R2", PCq + ".nextline", "ref_cfgparser.py",
               "nextline", PCq, "reader: every line is strip()ped of all "
               "surrounding whitespace")

    # ------------------------------------------------------------------ R3
    _order(ctx, fn)

    from rules.common import crosscheck_many
    crosscheck_many(ctx, "C17.R3", [
        (SL + ".loadConfigFile", "sl_loadConfigFile", None,
         "parse into a fresh top section"),
        (SL + ".Context.__init__", "sl_context_init", SL + ".Context",
         "fresh top section"),
        (SL + ".Context.endSection", "sl_endSection", SL + ".Context",
         "closing adds nothing"),
        (SL + ".Section.__init__", "sl_section_init", SL + ".Section",
         "type, name, data, sections as given"),
    ])

    # ------------------------------------------------------------------ R4
    from zcstatic import excflow
    for q in (SL + ".Parser.handle_define",
              SL + ".Context.includeConfiguration"):
        f = m.fn(q)
        run.check(excflow._noreturn_fn(P, f, set()), "C17.R4", q,
                  "refuses", "raises on every path",
                  "%s can return normally: the directive would be silently "
                  "dropped" % q, loc=m.loc(f, f.node))
    meth = m.lookup_method(SL + ".Parser", "handle_include")
    run.check(meth is not None and meth.qualname.endswith(
        "ZConfigParser.handle_include"), "C17.R4", SL + ".Parser",
        "%include dispatch", "handle_include is the base parser's, which "
        "calls the context's includeConfiguration",
        "handle_include is overridden in the schema-less parser",
        nontrivial=False)


def _contains(t, sub):
    if t == sub:
        return True
    if isinstance(t, tuple):
        return any(_contains(x, sub) for x in t)
    return False


def _strip_lit(parts, first, last):
    parts = list(parts)
    if parts[0][0] == "lit" and parts[0][1].startswith(first):
        parts[0] = ("lit", parts[0][1][len(first):])
    if parts[-1][0] == "lit" and parts[-1][1].endswith(last):
        parts[-1] = ("lit", parts[-1][1][:-len(last)])
    return [p for p in parts if p != ("lit", "")]


def _kind(parts):
    lits = "".join(p[1] for p in parts if p[0] == "lit")
    if lits.startswith("%import"):
        return "import"
    if lits.startswith("</"):
        return "closer"
    if lits.startswith("<"):
        return "header"
    return "kv"


def _line_classes(ab):
    def L(p):
        return S.lang_full(p, ab)
    skip = L("(?:#.*)?")
    closer = L("</.*>")
    opener = L("<.*>") - L("</.*")
    directive = L("%.*")
    err = (L("</.*") - L(".*>")) | (L("<.*") - L("</.*") - L(".*>"))
    kv = S.lang_all(ab) - skip - closer - opener - directive - err
    return {"skip": skip, "closer": closer, "opener": opener,
            "directive": directive, "kv": kv}


def _passes_replace(ctx, handler):
    """Does the stored field of this handler go through self.replace()?"""
    m, P = ctx.model, ctx.program
    # the method the schema-less parser actually runs (its own override, if
    # it has one, else the inherited one)
    fn = m.lookup_method(SL + ".Parser", handler)
    if fn is None:
        raise AnalysisError("anchor vanished: %s.Parser.%s" % (SL, handler))
    seen = set()
    for p in A.Interp(fn, P, try_raises=False).paths():
        for e in p.effects:
            if e[0] == "call" and e[1][1][0] == "attr" and e[1][1][2] in (
                    "addValue", "importSchemaComponent"):
                args = e[1][2]
                if any(A.is_const(a) and a[1] == "" for a in args):
                    continue     # an absent value is stored as '' as it is
                seen.add("self.replace(" in A.fmt(e[1]))
    if seen == {True}:
        return True
    if seen == {False} or not seen:
        return False
    return "on some paths only"


def _order(ctx, fn):
    run, m, P = ctx.run, ctx.model, ctx.program
    # printer: loops iterate the stored containers directly
    loops = [n for n in walk_shallow(fn.node) if isinstance(n, ast.For)]
    for lp in loops:
        it = src(lp.iter)
        if it in ("values", "self.sections", "self.imports"):
            run.ok("C17.R3", fn.qualname, "for ... in " + it,
                   "iterates the stored sequence itself (no sorted/reversed)",
                   loc=m.loc(fn, lp))
        elif isinstance(lp.iter, ast.Call) and src(lp.iter.func) in (
                "sorted", "reversed", "set") and any(
                    s in it for s in ("values", "sections", "imports")):
            run.fail("C17.R3", fn.qualname, "for ... in " + it,
                     "an order-changing operation is applied to a stored "
                     "sequence when printing", loc=m.loc(fn, lp))
    for n in walk_shallow(fn.node):
        if isinstance(n, ast.Call) and src(n.func) in ("sorted", "reversed") \
                and not src(n).startswith("sorted(self.items())"):
            run.fail("C17.R3", fn.qualname, src(n),
                     "sorting is applied to something other than the keys",
                     loc=m.loc(fn, n))
        if isinstance(n, ast.Call) and isinstance(n.func, ast.Attribute) \
                and n.func.attr in ("sort", "reverse", "insert"):
            run.fail("C17.R3", fn.qualname, src(n),
                     "order-changing list operation while printing",
                     loc=m.loc(fn, n))
    # reader: append in arrival order
    for q, ref in ((SL + ".Section.addValue", "sl_addValue"),
                   (SL + ".Context.startSection", "sl_startSection"),
                   (SL + ".Context.importSchemaComponent", "sl_import")):
        lf = m.fn(q)
        r = X.compare(P, lf, X.spec_function(m, "ref_schemaless.py", ref,
                                             as_method=True))
        loc = m.loc(lf, lf.node)
        if r["verdict"] == "equivalent":
            run.ok("C17.R3", q, "collects in arrival order",
                   "decision table equals the reference (%d rows)"
                   % r["rows"], loc=loc)
        elif r["verdict"] == "violation":
            run.fail("C17.R3", q, "collects in arrival order",
                     "outcome differs from the reference: live %s, reference "
                     "%s" % (r["witness"]["live"], r["witness"]["reference"]),
                     loc=loc, witness=r["witness"])
        else:
            run.soft_error("C17.R3: %s consults a predicate outside the "
                           "reference vocabulary: %s" % (q, r["atoms"]))
